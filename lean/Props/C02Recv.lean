/-
  Props.C02Recv — C02 at the level of the whole of `Conversation.Receive` (continuation of Props.C02).

  Props.C02 states the guards for the inner function: `c02_guard` (whatever `processDataMessageRaw` delivers or
  acts upon passed the five guards: encrypted, parsed, key ids in the window, MAC over exactly the received
  authenticated bytes, fresh counter) and `c02_not_encrypted/unparsable/bad_keys/bad_mac/replayed_counter`.
  This module lifts `c02_guard` to `Receive` — every state, every byte string, every crypto record, fragments
  included (Proofs.RecvGuards; a separate module because Props.C02 imports Proofs.ConvData only).

  The leaf message: `receiveLeaf c msg` is the byte string a call finally classifies and processes — `msg` itself
  unless it is a fragment (`receiveLeaf_unfragmented`); for a fragment that completes a message under the
  conversation's fragmentation context (`fragDeliver` of Proofs.FragRefine) the leaf of the reassembled message,
  taken in the conversation in which it is processed; nothing for a fragment that completes no message and
  nothing when OTR is disabled by the policies (every input is then handed on as plaintext, by design).
  `LeafDecoded leaf header body t`: `decodeEnvelope leaf = some (header ‖ body)`, the header being the first 3
  (OTRv2) or 11 (OTRv3) bytes and `t` its message type byte.  `DataGuards K c header body dm sk`: the five guards
  of `c02_guard` under the message state and the key context of the conversation `c`.

  `receive_plaintext_authentic`: if `Receive` returns a plaintext `p` and the leaf is classified as one of the
  five `?OTR:` message types (`Guess.isOtrMsg`; in particular as a data message) then the leaf decodes to a data
  message whose header and body pass `DataGuards` under the conversation *before the call*, and `p` is the
  NUL-terminated prefix of its decryption.  Plaintext, whitespace-tagged and query inputs deliver their text by
  design and are excluded by the hypothesis.  `receive_plaintext_authentic_unfragmented`: the same with the
  hypotheses on the input itself (OTR enabled, `guessMessageType msg = .data`).
  `receive_acts_only_on_authentic`: if the leaf is classified as a data message and the call — returning or
  throwing — changed the SMP state, the key context or the message state (the peer's disconnect: → finished) or
  raised an SMP, extra-key or security event (`Acted`), then header and body of the leaf pass `DataGuards`.
  `receive_kind` (every call is `Post`-steps only, or `Pre`-steps; `receiveDataMessage` | `processAKE` on the
  decoded leaf; `Post`-steps), `receiveDataMessage_core` (the data step: accepted with all guards, or a
  `Post`-step without plaintext) and `guess_type_byte` (classification and type byte agree) are what the two
  theorems rest on.  Hypotheses satisfiable: `gDataText_delivered`, `gFragText_delivered` (the same message as the
  only piece of a fragment stream), `gDataDisconnect_acts` (cryptography `wCryptoMac` of Proofs.RejectFrame).
-/

import Proofs.RecvGuards
namespace Otr.C02Recv
open Otr

/-- C02 lifted: a delivered plaintext of an `?OTR:` leaf passed the five guards under the state before the call -/
theorem receive_plaintext_authentic :
    type_of% @Otr.receive_plaintext_authentic := @Otr.receive_plaintext_authentic

/-- the unfragmented case, hypotheses on the input itself -/
theorem receive_plaintext_authentic_unfragmented :
    type_of% @Otr.receive_plaintext_authentic_unfragmented := @Otr.receive_plaintext_authentic_unfragmented

/-- C02 lifted, TLV side: SMP state, keys, message state, SMP / extra-key / security events change only on guards passed -/
theorem receive_acts_only_on_authentic :
    type_of% @Otr.receive_acts_only_on_authentic := @Otr.receive_acts_only_on_authentic

/-- an unfragmented input is its own leaf -/
theorem receiveLeaf_unfragmented : type_of% @Otr.receiveLeaf_unfragmented := @Otr.receiveLeaf_unfragmented

/-- every `Receive` call by its leaf message -/
theorem receive_kind : type_of% @Otr.receive_kind := @Otr.receive_kind

/-- the data step: accepted with all five guards, or nothing but message events and no plaintext -/
theorem receiveDataMessage_core : type_of% @Otr.receiveDataMessage_core := @Otr.receiveDataMessage_core

/-- the classification of the leaf agrees with the message type byte of the decoded message -/
theorem guess_type_byte : type_of% @Otr.guess_type_byte := @Otr.guess_type_byte

/-- the hypotheses hold together: an accepted data message (crypto record `wCryptoMac`) -/
theorem gDataText_delivered : type_of% @Otr.gDataText_delivered := @Otr.gDataText_delivered

/-- … received as a fragment -/
theorem gFragText_delivered : type_of% @Otr.gFragText_delivered := @Otr.gFragText_delivered

/-- … carrying the peer's disconnect -/
theorem gDataDisconnect_acts : type_of% @Otr.gDataDisconnect_acts := @Otr.gDataDisconnect_acts

end Otr.C02Recv
