/-
  Props.C07Skel — C07, the tie between the abstract key-exchange system `Otr.AkeAbs` (on which liveness is decided,
  Props.C07) and the conversation model `Otr.Conv`, as theorems: the state-machine skeleton.

  Abstraction (Proofs.AkeSkeletonBase): `absAuth c` is the kind of `c.ake.state` (`none` without an AKE context),
  `absEnc c` is `c.msgState = encrypted`, `absHasAke c` is `c.ake ≠ nil`; `AkeKind.ofType t` is the kind
  (commit / key / reveal / sig) of a message type byte, `msgKind m` that of an abstract message.
  `allowedTransitions` is a finite table of rows (auth before, enc before, kind, auth after, enc after).
  Every theorem about a run has one hypothesis on it: the run does not panic (`runM … s = .ok (r, s')`); they hold
  for EVERY crypto record `K`, state `s`, message type and body.

  * `allowed_iff` — the table is exactly the set of steps of `AkeAbs.recvAke`: a row is in it iff some party with
    that `auth`/`enc`, some outcome `weWin` of the hash comparison and some abstract message of that kind make
    `recvAke` produce that `auth`/`enc`.  (`allowed_realised`: every row checked by `decide`.)
  * `processAKE_outcomes` — every run of `processAKE`: nothing is thrown, the AKE context exists afterwards, and the
    step is a completion (Reveal-Signature in awaitingRevealSig / Signature in awaitingSig; new state `none`,
    encrypted) or a quiet step: message state, peer key, key material, session id and role flag of an encrypted
    conversation untouched, no security event, and the new state is the old one, or `awaitingRevealSig` after a
    DH-Commit without error, or `none` after a DH-Commit with an error, or `awaitingSig` after a DH-Key in
    `awaitingDHKey` without error.  `processAKE_never_throws`.
  * `processAKE_skeleton_table` / `processAKE_skeleton` — the observed step is: no step; or a row of the table,
    i.e. exactly what `recvAke weWin p m` yields for some `weWin`, some party `p` with `p.auth = absAuth s.conv`,
    `p.enc = absEnc s.conv`, some `m` of the kind of `t`; or the RESET (DH-Commit, state `none` afterwards, error
    reported).  The model takes no other transition.
  * `processAKE_reset_witness` (finding) — the reset is real and is NOT a step of `recvAke`: from `awaitingDHKey`,
    a well-formed DH-Commit whose hash wins, random source failing: state `none`, error `shortRandom`;
    (awaitDHKey, commit, none) and (awaitSig, commit, none) are not rows of the table.
  * `processAKE_finishes_only_from` — if the run ends encrypted and anything security-relevant happened (hypothesis
    of `c01_paths`), the message was `reveal` in `awaitRevealSig` or `sig` in `awaitSig`, the AKE context is kept
    and `auth`/`enc` afterwards are those of `AkeAbs.finish p sess` (`none`, `true`).
    `processAKE_becomes_encrypted_only_from`: special case not-encrypted → encrypted.
  * `sendDHCommit_outcomes`, `sendDHCommit_skeleton` — `sendDHCommit` forgets the exchange in progress; when it
    returns the DH-Commit message, `auth`, `enc`, `hasAke`, `akeStamped` are those of `AkeAbs.startAKE p`
    (`awaitDHKey`, unchanged, true, false); when it fails the fresh AKE context is in state `none`.
  * `receiveQueryMessage_skeleton` — the query path: the AKE context is untouched (refused or ignored), or
    `sendDHCommit` ran — then `queryIgnored` (the condition under which `AkeAbs.recv` ignores a query: encrypted
    recently, or AKE context stamped recently) was false — with the two outcomes above.
  * converse direction: `processAKE_sig_taken_iff` — in `awaitingSig` a Signature message finishes the exchange
    IFF `SigGuards` (parses, both DH values stored, MAC ok, decrypts, parses, DSA signature valid);
    `processAKE_reveal_taken_only_if` — finishing from `awaitingRevealSig` implies `RespGuards` (parse, commitment
    opens, hash matches, in range, encrypted signature ok); `processAKE_key_taken_only_if` — moving from
    `awaitingDHKey` to `awaitingSig` implies the DH-Key message parses and `2 ≤ gy ≤ p − 2`.
    (The converses of the last two need, in addition, that the answer can be built: key, signing oracle, header.)
-/
import Proofs.AkeSkeleton
namespace Otr.C07Skel
open Otr

theorem allowed_realised : type_of% @Otr.allowed_realised := @Otr.allowed_realised
theorem allowed_iff : type_of% @Otr.allowed_iff := @Otr.allowed_iff
theorem recvAke_allowed : type_of% @Otr.recvAke_allowed := @Otr.recvAke_allowed
theorem processAKE_outcomes : type_of% @Otr.processAKE_outcomes := @Otr.processAKE_outcomes
theorem processAKE_never_throws : type_of% @Otr.processAKE_never_throws := @Otr.processAKE_never_throws
theorem processAKE_skeleton_table : type_of% @Otr.processAKE_skeleton_table := @Otr.processAKE_skeleton_table
theorem processAKE_skeleton : type_of% @Otr.processAKE_skeleton := @Otr.processAKE_skeleton
theorem processAKE_reset_witness : type_of% @Otr.processAKE_reset_witness := @Otr.processAKE_reset_witness
theorem processAKE_finishes_only_from : type_of% @Otr.processAKE_finishes_only_from := @Otr.processAKE_finishes_only_from
theorem processAKE_becomes_encrypted_only_from :
    type_of% @Otr.processAKE_becomes_encrypted_only_from := @Otr.processAKE_becomes_encrypted_only_from
theorem sendDHCommit_outcomes : type_of% @Otr.sendDHCommit_outcomes := @Otr.sendDHCommit_outcomes
theorem sendDHCommit_skeleton : type_of% @Otr.sendDHCommit_skeleton := @Otr.sendDHCommit_skeleton
theorem receiveQueryMessage_skeleton : type_of% @Otr.receiveQueryMessage_skeleton := @Otr.receiveQueryMessage_skeleton
theorem processAKE_sig_taken_iff : type_of% @Otr.processAKE_sig_taken_iff := @Otr.processAKE_sig_taken_iff
theorem processAKE_reveal_taken_only_if :
    type_of% @Otr.processAKE_reveal_taken_only_if := @Otr.processAKE_reveal_taken_only_if
theorem processAKE_key_taken_only_if : type_of% @Otr.processAKE_key_taken_only_if := @Otr.processAKE_key_taken_only_if


end Otr.C07Skel
