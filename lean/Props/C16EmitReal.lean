/-
  Props.C16EmitReal — `api_emits_only_allowed_version` (Props.C16Emit) for the executable cryptography `Crypto.real`:
  from any freshly created conversation whose preset version (if any) its policy allows, whatever any call of any API
  history hands out that is an armoured OTR message carries a version the policy allows. Hypothesis: `Nat.Prime dhP`.
-/
import Proofs.ApiReal2
namespace Otr.C16EmitReal
open Otr

theorem api_emits_only_allowed_version_real : type_of% @Otr.api_emits_only_allowed_version_real :=
  @Otr.api_emits_only_allowed_version_real

end Otr.C16EmitReal
