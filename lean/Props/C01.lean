/-
  Props.C01 — the key exchange authenticates the peer and both sides agree on the session.

  Decision logic, for every K, every state and every byte string (Proofs.AkeGuard):
  `c01_paths`: inside `processAKE` the conversation can become (or be re-established as) encrypted,
  or change its peer key, key material, session id of an encrypted session, or raise a security
  event, ONLY in state AWAITING_REVEALSIG on a Reveal-Signature message or AWAITING_SIG on a
  Signature message. `c01_guard_responder` / `c01_guard_initiator` / `c01_guard_encsig`: such a step
  succeeds only if ALL hold on the parsed message: the revealed g^x opens the commitment
  (`hash2 (ctr r encGx) = stored hash`), `2 ≤ g^x ≤ p−2` (resp. g^y, checked when the DH-Key arrived:
  `c01_guard_dhkey`), the MAC over the encrypted signature under m2(s) matches, the decrypted X
  parses as pubkey ‖ keyid ‖ 40-byte signature with nothing left over, and
  `dsaVerify pub (mac2 m1(s) (theirPub ‖ ourPub ‖ pub ‖ keyid)) sig`; conversely any failing check
  rejects (`c01_guard_encsig_rejects`) and leaves peer key, keys and message state untouched.
  Repaired code (`c01_processAKE_revealSig`, `recvRevealSig_answer_fails_keeps_theirKey`): a
  Reveal-Signature message that passes every check but whose Signature reply cannot be built (no
  long-term key, signing fails, no instance tag) is reported as an error with the authentication state
  unchanged, and the peer key of the conversation is what it was before — not the key of an exchange
  that did not complete.
  `c01_finish_responder` / `c01_finish_initiator` / `c01_dhkey_step`: after the finishing step the
  conversation reports exactly the verified key, the verified in-range DH value as the peer's
  current key, the signed key id, and `ssid = hash2(0x00 ‖ mpi(s))[0:8]` for s = theirPub^ourSecret.
  `c01_paths_keys_any` / `processAKE_strict_nonfinishing` (repaired code: no retransmission after an
  ignored message): the same for ANY change of the key context, counters and MAC bookkeeping included.
  Role flag (`sentRevealSig`, which half of the session id is highlighted; repaired code):
  `c01_role_kept_while_encrypted` / `c01_role_kept_processAKE` / `c01_role_pending_processAKE`: a key
  exchange started on an encrypted conversation and not (yet) finished leaves `sentRevealSig` and
  `ssid` of the established session exactly as they were — the DH-Key step only records the pending
  role in the AKE context (`ake.sentRevealSig = true`); `c01_paths` lists a change of the flag among
  the effects only a finishing step can have. `c01_role_on_finish`: `akeHasFinished` commits the
  pending pair (`ake.sentRevealSig`, `ake.ssid`) on a refresh and keeps the conversation's own pair
  otherwise; `c01_finish_responder` gives `sentRevealSig = false` for the side that received the
  Reveal-Signature message, `c01_finish_initiator` / `c01_dhkey_step` give `true` for the side that
  sent it.
  Ideal-crypto part (a valid DSA signature under an honest key was made by its owner, in this
  exchange because M_B binds both DH values; the commitment binds g^x) is the standard assumption, not
  a theorem: the `ake` profile's Go oracle places an active attacker between live conversations
  (mutation, truncation, duplication, reordering, cross-session replay, own-key man in the middle,
  out-of-range DH values) and checks after every delivery that an encrypted conversation reports the
  key of a party that derived the same SSID, with complementary highlight halves and mutual
  readability.
-/

import Proofs.AkeGuard
import Proofs.Fixes3
namespace Otr.C01
open Otr

theorem c01_paths : type_of% @Otr.c01_paths := @Otr.c01_paths

theorem c01_paths_keys : type_of% @Otr.c01_paths_keys := @Otr.c01_paths_keys

theorem processAKE_quiet : type_of% @Otr.processAKE_quiet := @Otr.processAKE_quiet

theorem c01_guard_encsig : type_of% @Otr.c01_guard_encsig := @Otr.c01_guard_encsig

theorem c01_guard_encsig_rejects : type_of% @Otr.c01_guard_encsig_rejects := @Otr.c01_guard_encsig_rejects

theorem c01_guard_encsig_throw : type_of% @Otr.c01_guard_encsig_throw := @Otr.c01_guard_encsig_throw

theorem c01_guard_responder : type_of% @Otr.c01_guard_responder := @Otr.c01_guard_responder

theorem c01_guard_responder_throw : type_of% @Otr.c01_guard_responder_throw := @Otr.c01_guard_responder_throw

theorem c01_guard_initiator : type_of% @Otr.c01_guard_initiator := @Otr.c01_guard_initiator

theorem c01_guard_initiator_throw : type_of% @Otr.c01_guard_initiator_throw := @Otr.c01_guard_initiator_throw

theorem c01_guard_dhkey : type_of% @Otr.c01_guard_dhkey := @Otr.c01_guard_dhkey

theorem c01_finish_responder : type_of% @Otr.c01_finish_responder := @Otr.c01_finish_responder

theorem c01_finish_initiator : type_of% @Otr.c01_finish_initiator := @Otr.c01_finish_initiator

theorem c01_dhkey_step : type_of% @Otr.c01_dhkey_step := @Otr.c01_dhkey_step

theorem c01_processAKE_sig : type_of% @Otr.c01_processAKE_sig := @Otr.c01_processAKE_sig

theorem c01_processAKE_revealSig : type_of% @Otr.c01_processAKE_revealSig := @Otr.c01_processAKE_revealSig

theorem c01_role_kept_while_encrypted : type_of% @Otr.c01_role_kept_while_encrypted := @Otr.c01_role_kept_while_encrypted

theorem c01_role_kept_processAKE : type_of% @Otr.c01_role_kept_processAKE := @Otr.c01_role_kept_processAKE

theorem c01_role_pending_processAKE : type_of% @Otr.c01_role_pending_processAKE := @Otr.c01_role_pending_processAKE

theorem c01_role_on_finish : type_of% @Otr.c01_role_on_finish := @Otr.c01_role_on_finish

/-- repaired code: only the two finishing combinations change the key context at all -/
theorem c01_paths_keys_any : type_of% @Otr.c01_paths_keys_any := @Otr.c01_paths_keys_any

/-- repaired code: strict frame outside the finishing combinations, whatever is queued -/
theorem processAKE_strict_nonfinishing : type_of% @Otr.processAKE_strict_nonfinishing := @Otr.processAKE_strict_nonfinishing

/-- repaired code (exact): the message is accepted, the reply cannot be built ⇒ error, state unchanged, the peer
    key is the one before the message -/
theorem recvRevealSig_answer_fails_keeps_theirKey :
    type_of% @Otr.recvRevealSig_answer_fails_keeps_theirKey := @Otr.recvRevealSig_answer_fails_keeps_theirKey

/-- the same read off any run -/
theorem recvRevealSig_answer_fails_theirKey :
    type_of% @Otr.recvRevealSig_answer_fails_theirKey := @Otr.recvRevealSig_answer_fails_theirKey

/-- the hypotheses hold together: a concrete accepted Reveal-Signature message (crypto record `Crypto.lax`) in a
    conversation without a long-term key -/
theorem laxRevealSig_accepted : type_of% @Otr.laxRevealSig_accepted := @Otr.laxRevealSig_accepted

end Otr.C01
