/-
  Props.C16Emit — C16, emission, completed (continuation of Props.C16Api): "a conversation never emits a message of
  a version its policy forbids" — for EVERY message any API call hands out, over all API histories.

  Vocabulary (Proofs.VersionEmit*, Proofs.VersionInv).
  `HasVer v raw`        `raw` starts with the two-byte protocol-version field of `v`.
  `armour raw`          "?OTR:" ‖ base64(raw) ‖ "." ; `decodeEnvelope (armour raw) = some raw`.
  `WireOf v raw y`      `y` is a wire form of `raw` in a conversation of version `v`: `armour raw`, or a fragment
                        `fragmentPrefix v j num its itr ‖ chunk ‖ ","` of it ("?OTR,…" for v2, "?OTR|…" for v3).
  `authStateOf c`       the authentication state `processAKE` dispatches on (`none` without an AKE context).
  `StoredVer c`         no exchange is in progress in a conversation without a version, and in AWAITING_SIG the
                        stored Reveal-Signature message (the one `recvDHKey` retransmits) starts with the field of
                        the committed version: `StoredVer.awaitingSig`.
  `EmitInv c`           `StoredVer c`, `VersionAllowed c` (the committed version, if any, is allowed by the
                        policies), and an encrypted conversation has a version.
  `ApiInv c`            `EmitInv c` and every queued injection is an error reply `?OTR Error: E<n>` (`IsErrReply`).
  `Emitted pol inj ver' y`  `y` was waiting in `inj`, or is an error reply, or is `queryMessage pol fq` for some text
                        `fq` (a query message offers exactly the versions `pol` allows: Props.C16
                        `extractVersions_queryMessage`), or `∃ v raw, ver' = some v ∧ allowsVersion pol v ∧
                        HasVer v raw ∧ WireOf v raw y`.
  `Handed call pol ver' y`  as `Emitted` without the injection case (they are error replies by `ApiInv`), plus,
                        for `Send m` only, the user's own text `m ‖ t` (t = whitespace tag or empty).
  `ApiCall.emit K call` the model computation of the call with its messages kept (`toSend` of `Receive`, the
                        messages of `Send`, `End`, the three SMP calls, the extra key, `sendtlvs`);
                        `ApiCall.run_eq_emit`: same state, same thrown error, same panic as `ApiCall.run`.

  Plain words, theorem by theorem (`K : Crypto` arbitrary; only (4) asks `CryptoOK K`, for termination):

  `emitInv_fresh`, `apiInv_fresh`   (1) the invariants hold of every conversation as created (no version, or a
                        preset version the policies allow).
  `apiCall_emitInv`     (1) every API call, whatever its arguments, randomness, signing oracle, clock, and whether
                        it returns or throws, keeps `ApiInv`.   `runApi_apiInv`: so does every history.
  `apiCall_storedVer`   (1) in the form asked: after any call from a state with the invariant, a stored
                        Reveal-Signature message starts with the version the conversation is committed to.  With
                        `runApi_version_sticky` (Props.C16Api) that version never changes afterwards.
  `processAKE_emits`    (2) from ANY state with `StoredVer`, for ANY message type and body: `processAKE` leaves the
                        version alone, EVERY message it hands back (D-H Key, D-H Commit re-sent, Reveal Signature,
                        the stored Reveal Signature retransmitted in AWAITING_SIG, Signature, the data messages
                        retransmitted after a completed exchange, the data message that reveals carried MAC keys)
                        starts with the version field of the committed version (`AllVer`), and `StoredVer` holds
                        afterwards.  Inside: a retransmitted message is never empty — the header that
                        `genDataMsgWithFlag` built is built again (`wrapMessageHeader_no_throw`, Go comment
                        "safe to ignore this error" proved).
  `processAKE_nt`       `processAKE` never throws: all its errors are returned as values.
  `receive_emits`       (3) every `Receive` from a state with `EmitInv`, every input, fragmentation on or off:
                        `EmitInv` afterwards, policies unchanged, every item of `toSend` is `Emitted` w.r.t. the
                        policies, the injections queued BEFORE the call and the version committed AFTER the call.
                        Covers the whitespace-tag start (`receiveTaggedPlaintext` → D-H Commit), the query answer,
                        the error restart (query message), `processAKE`, data-message replies (SMP, heartbeat),
                        reassembled fragments (recursion), and the roll-back of a tentatively committed version:
                        when the roll-back happens nothing built under that version is handed out.
  `emitted_armoured`    an `Emitted` item that starts with "?OTR:" was queued before, or is `armour raw` with
                        `HasVer v raw`, `v` committed and allowed, and `Receive`'s own decoder returns `raw`.
  `send_emits`          `Send`, every state: the user's text (+ whitespace tag), or `Emitted`.
  `apiCall_emits`       every API call from a state with `ApiInv`: every item handed out is `Handed`.
  `api_emits_only_allowed_version`  (4) from a fresh conversation, after ANY history, ANY further call: every item
                        is `Handed` w.r.t. the policies the conversation was created with; every item that starts
                        with "?OTR:" and is not the user's own `Send` text is `armour raw` where `raw` starts with
                        the version committed after the call, and the policies allow that version.
  `runApi_emits`        the same from any conversation satisfying `ApiInv`.
  Nothing is partial: fragmentation is covered (`WireOf`), so are thrown errors (the invariant is kept by them).
-/

import Proofs.VersionEmit2
namespace Otr.C16Emit
open Otr

theorem storedVer_awaitingSig : type_of% @Otr.StoredVer.awaitingSig := @Otr.StoredVer.awaitingSig
theorem emitInv_fresh : type_of% @Otr.EmitInv.fresh := @Otr.EmitInv.fresh
theorem apiInv_fresh : type_of% @Otr.ApiInv.fresh := @Otr.ApiInv.fresh
theorem apiCall_emitInv : type_of% @Otr.apiCall_emitInv := @Otr.apiCall_emitInv
theorem runApi_apiInv : type_of% @Otr.runApi_apiInv := @Otr.runApi_apiInv
theorem apiCall_storedVer : type_of% @Otr.apiCall_storedVer := @Otr.apiCall_storedVer
theorem processAKE_emits : type_of% @Otr.processAKE_emits := @Otr.processAKE_emits
theorem processAKE_nt : type_of% @Otr.processAKE_nt := @Otr.processAKE_nt
theorem wrapMessageHeader_no_throw : type_of% @Otr.wrapMessageHeader_no_throw := @Otr.wrapMessageHeader_no_throw
theorem fragEncode_wireOf : type_of% @Otr.fragEncode_wireOf := @Otr.fragEncode_wireOf
theorem receiveTaggedPlaintext_emits : type_of% @Otr.receiveTaggedPlaintext_emits := @Otr.receiveTaggedPlaintext_emits
theorem receiveErrorMessage_ret : type_of% @Otr.receiveErrorMessage_ret := @Otr.receiveErrorMessage_ret
theorem receive_emits : type_of% @Otr.receive_emits := @Otr.receive_emits
theorem emitted_armoured : type_of% @Otr.Emitted.armoured := @Otr.Emitted.armoured
theorem send_emits : type_of% @Otr.send_emits := @Otr.send_emits
theorem run_eq_emit : type_of% @Otr.ApiCall.run_eq_emit := @Otr.ApiCall.run_eq_emit
theorem apiCall_emits : type_of% @Otr.apiCall_emits := @Otr.apiCall_emits
theorem handed_armoured : type_of% @Otr.Handed.armoured := @Otr.Handed.armoured
theorem api_emits_only_allowed_version : type_of% @Otr.api_emits_only_allowed_version :=
  @Otr.api_emits_only_allowed_version
theorem runApi_emits : type_of% @Otr.runApi_emits := @Otr.runApi_emits

/-! ### non-vacuity -/

/-- hypotheses of (1)/(3)/(4): fresh conversations satisfy the invariant; so does one that awaits a D-H Key -/
example : ApiInv vFresh23 ∧ ApiInv vFresh2 ∧ ApiInv eAwaitingDHKey :=
  ⟨⟨⟨trivial, fun v hv => (by cases hv), fun h => (by cases h)⟩, fun y hy => (by cases hy)⟩,
   ⟨⟨trivial, fun v hv => (by cases hv), fun h => (by cases h)⟩, fun y hy => (by cases hy)⟩,
   ⟨⟨rfl, fun v hv => (by cases hv; decide), fun h => (by cases h)⟩, fun y hy => (by cases hy)⟩⟩

/-- … and the invariant is not void: a stored v3 Reveal-Signature message in a conversation committed to OTRv2
    violates `StoredVer` -/
example : ¬ StoredVer { version := some .v2, ake := some { state := .awaitingSig [0, 3, 0x11] } } := by
  rintro ⟨v, hv, hh⟩
  cases hv
  revert hh
  unfold HasVer
  decide

/-- (2)/(3), D-H Commit → D-H Key: the fresh conversation answers the v3 D-H Commit message with one armoured item
    whose first bytes are 0x00 0x03 0x0a, commits to OTRv3 and awaits the Reveal Signature message -/
example : (match runM (receive vCrypto (armour eCommitRaw)) ⟨vFresh23, eEnvKey, [], []⟩ with
    | .ok (.ok ⟨_, [y], none⟩, s') =>
      hasPrefix y msgMarker && ((decodeEnvelope y).map (·.take 3) == some [0, 3, 0x0a]) &&
        (s'.conv.version == some .v3) && (authStateOf s'.conv == .awaitingRevealSig)
    | _ => false) = true := by
  decide +kernel

/-- (1)/(2), D-H Key → Reveal Signature, stored and retransmitted: one armoured item starting 0x00 0x03 0x11; the
    same bytes are stored in AWAITING_SIG; a repeated D-H Key message makes the same item go out again -/
example : (match runM (receive eCrypto (armour eKeyRaw)) ⟨eAwaitingDHKey, eEnvSig, [], []⟩ with
    | .ok (.ok ⟨_, [y], none⟩, s') =>
      hasPrefix y msgMarker && ((decodeEnvelope y).map (·.take 3) == some [0, 3, 0x11]) &&
        (s'.conv.version == some .v3) &&
        (match authStateOf s'.conv with | .awaitingSig rs => decodeEnvelope y == some rs | _ => false) &&
        (match runM (receive eCrypto (armour eKeyRaw)) ⟨s'.conv, {}, [], []⟩ with
          | .ok (.ok ⟨_, [y2], none⟩, _) => y2 == y
          | _ => false)
    | _ => false) = true := by
  decide +kernel

/-- (3), the error restart: the query message of the policies, "?OTRv23?" -/
example : (match runM (receive vCrypto (strBytes "?OTR Error: x"))
      ⟨{ vFresh23 with policies := allowV2 + allowV3 + errorStartAKE }, {}, [], []⟩ with
    | .ok (.ok ⟨_, [y], none⟩, _) => y == strBytes "?OTRv23?"
    | _ => false) = true := by
  decide +kernel

/-- (4) through the API: `emit` of the call `Receive("?OTRv23?")` from the fresh conversation hands out one armoured
    item (the D-H Commit message) whose first two bytes are 0x00 0x03, the conversation being committed to OTRv3 -/
example : (match runM ((ApiCall.receive (strBytes "?OTRv23?")).emit vCrypto) ⟨vFresh23, vEnv, [], []⟩ with
    | .ok (.ok [y], s') =>
      hasPrefix y msgMarker && ((decodeEnvelope y).map (·.take 2) == some (be16 3)) && (s'.conv.version == some .v3)
    | _ => false) = true := by
  decide +kernel

end Otr.C16Emit
