package main

// Profile "life": random whole-conversation histories of two parties over two FIFO
// queues with an active attacker, all policies, both versions, fragmentation, SMP,
// extra key, End, clock jumps and randomness failures. Everything is derived from
// one PRNG so a trace replays exactly.

import (
	"fmt"
	"math/rand"

	otr3 "github.com/coyim/otr3"
)

type link struct {
	w        *world
	a, b     *party
	qab, qba [][]byte
	seenA    [][]byte // everything delivered to a, in order (for replay oracles)
}

func (l *link) enqueue(from *party, ms []otr3.ValidMessage) {
	for _, m := range ms {
		if from == l.a {
			l.qab = append(l.qab, append([]byte{}, m...))
		} else {
			l.qba = append(l.qba, append([]byte{}, m...))
		}
	}
}

func (l *link) deliver(toB bool) bool {
	if toB {
		if len(l.qab) == 0 {
			return false
		}
		m := l.qab[0]
		l.qab = l.qab[1:]
		_, ts, _, _ := l.w.recv(l.b, m)
		l.enqueue(l.b, ts)
	} else {
		if len(l.qba) == 0 {
			return false
		}
		m := l.qba[0]
		l.qba = l.qba[1:]
		l.seenA = append(l.seenA, m)
		_, ts, _, _ := l.w.recv(l.a, m)
		l.enqueue(l.a, ts)
	}
	return true
}

// deliver everything until both queues are empty (bounded)
func (l *link) settle(max int) {
	for i := 0; i < max && (len(l.qab) > 0 || len(l.qba) > 0); i++ {
		if len(l.qab) > 0 {
			l.deliver(true)
		}
		if len(l.qba) > 0 {
			l.deliver(false)
		}
	}
}

func (g *gen) text() []byte {
	switch g.r.Intn(12) {
	case 0:
		return []byte{}
	case 1:
		return []byte("?OTR hello")
	case 2:
		return []byte("with\x00nul")
	case 3:
		b := make([]byte, 200+g.r.Intn(400))
		for i := range b {
			b[i] = byte('a' + g.r.Intn(26))
		}
		return b
	case 4:
		return []byte("tab \t  \t\t\t\t \t \t \t   end")
	default:
		n := 1 + g.r.Intn(24)
		b := make([]byte, n)
		for i := range b {
			b[i] = byte(' ' + g.r.Intn(94))
		}
		return b
	}
}

func (g *gen) policySet(common bool) int {
	p := 0
	switch g.r.Intn(8) {
	case 0:
		p = 2
	case 1:
		p = 4
	case 2:
		if !common {
			p = 0
		} else {
			p = 6
		}
	default:
		p = 6
	}
	for _, bit := range []int{8, 16, 32, 64} {
		if g.r.Intn(3) == 0 {
			p |= bit
		}
	}
	return p
}

func (g *gen) fragSize() int {
	switch g.r.Intn(6) {
	case 0:
		return 40 + g.r.Intn(30)
	case 1:
		return 100 + g.r.Intn(200)
	case 2:
		return 1000
	default:
		return 0
	}
}

func (g *gen) lifeScenario(w *world, steps int) {
	a := w.newParty(partyCfg{policies: g.policySet(true), keyIdx: 0, fragSize: g.fragSize(), errh: g.r.Intn(2) == 0, friendly: []string{"", "", "hi there"}[g.r.Intn(3)]})
	b := w.newParty(partyCfg{policies: g.policySet(true), keyIdx: 1, fragSize: g.fragSize(), errh: g.r.Intn(2) == 0})
	l := &link{w: w, a: a, b: b}
	ps := []*party{a, b}

	// most scenarios start with an attempt to establish a session
	switch g.r.Intn(5) {
	case 0:
	case 1:
		l.enqueue(a, []otr3.ValidMessage{w.query(a)})
		l.enqueue(b, []otr3.ValidMessage{w.query(b)})
	default:
		l.enqueue(a, []otr3.ValidMessage{w.query(a)})
	}
	if g.r.Intn(3) != 0 {
		l.settle(12)
	}

	for i := 0; i < steps && !w.dead; i++ {
		p := ps[g.r.Intn(2)]
		// occasional randomness / signing failure on the next call
		if g.r.Intn(25) == 0 {
			p.rnd.failAt = p.rnd.reads + g.r.Intn(4)
		}
		if g.r.Intn(60) == 0 {
			p.rnd.shortAt = p.rnd.reads + g.r.Intn(3)
		}
		if g.r.Intn(80) == 0 && p.key != nil {
			p.key.failAt = p.key.calls
		}
		switch k := g.r.Intn(40); {
		case k < 10:
			ts, _ := w.send(p, g.text())
			l.enqueue(p, ts)
		case k < 22:
			l.deliver(g.r.Intn(2) == 0)
		case k < 24:
			w.tick([]int{45, 75, 120, 3600, 45, 75}[g.r.Intn(6)]) // no subset sum lies in (50 s, 60 s]: real elapsed time (seconds under load) must not carry the sum over the 60 s thresholds
		case k < 26:
			l.enqueue(p, []otr3.ValidMessage{w.query(p)})
		case k < 28:
			ts, _ := w.end(p)
			l.enqueue(p, ts)
		case k < 30:
			ts, _ := w.smpStart(p, []string{"", "", "question?"}[g.r.Intn(3)], []byte([]string{"secret", "secret", "other", ""}[g.r.Intn(4)]))
			l.enqueue(p, ts)
		case k < 32:
			ts, _ := w.smpSecret(p, []byte([]string{"secret", "secret", "other", ""}[g.r.Intn(4)]))
			l.enqueue(p, ts)
		case k < 33:
			ts, _ := w.smpAbort(p)
			l.enqueue(p, ts)
		case k < 34:
			_, ts, _ := w.extraKey(p, g.r.Uint32(), g.blob())
			l.enqueue(p, ts)
		case k < 35:
			w.info(p)
		case k < 36:
			l.settle(10)
		default:
			g.attack(l)
		}
	}
	l.settle(6)
	w.info(a)
	w.info(b)
}

// attacker actions on the queues
func (g *gen) attack(l *link) {
	q := &l.qab
	if g.r.Intn(2) == 0 {
		q = &l.qba
	}
	switch g.r.Intn(7) {
	case 0: // drop
		if len(*q) > 0 {
			*q = (*q)[1:]
		}
	case 1: // duplicate head
		if len(*q) > 0 {
			*q = append([][]byte{(*q)[0]}, *q...)
		}
	case 2: // mutate head (raw)
		if len(*q) > 0 {
			(*q)[0] = g.mutate((*q)[0])
		}
	case 3: // mutate head inside the base64 body
		if len(*q) > 0 {
			(*q)[0] = g.mutateEncoded((*q)[0])
		}
	case 4: // inject garbage / crafted
		*q = append([][]byte{g.garbage()}, *q...)
	case 5: // swap first two
		if len(*q) > 1 {
			(*q)[0], (*q)[1] = (*q)[1], (*q)[0]
		}
	case 6: // error message
		*q = append([][]byte{[]byte("?OTR Error: something")}, *q...)
	}
	g.dist["op:attack"]++
}

// decode "?OTR:<b64>." , mutate the binary, encode again
func (g *gen) mutateEncoded(m []byte) []byte {
	if len(m) < 7 || string(m[:5]) != "?OTR:" {
		return g.mutate(m)
	}
	res := otr3.VerifB64Decode(m[5 : len(m)-1])
	if len(res) < 6 || res[:5] != "some " {
		return g.mutate(m)
	}
	bin := unhex(res[5:])
	bin = g.mutate(bin)
	return append(append([]byte("?OTR:"), otr3.VerifB64Encode(bin)...), '.')
}

func unhex(s string) []byte {
	if s == "-" {
		return nil
	}
	b := make([]byte, len(s)/2)
	fmt.Sscanf(s, "%x", &b)
	return b
}

func (g *gen) garbage() []byte {
	switch g.r.Intn(8) {
	case 0:
		return []byte("?OTR:AAMD" + string(otr3.VerifB64Encode(g.blob())) + ".")
	case 1:
		return []byte("?OTR:AAID" + string(otr3.VerifB64Encode(g.blob())) + ".")
	case 2:
		return []byte("?OTR|00000200|00000100,00001,00002,abc,")
	case 3:
		return []byte("?OTR,00001,00001,?OTRv23?,")
	case 4:
		return append([]byte("?OTR:"), g.blobText()...)
	case 5:
		return []byte("?OTRv4?")
	case 6:
		return []byte("?OTR:AAEK")
	default:
		return g.blobText()
	}
}

func init() {
	profiles["life"] = func(seed int64, n int, out *emitter, extra map[string]interface{}) map[string]int {
		g := &gen{r: rand.New(rand.NewSource(seed)), out: out, dist: map[string]int{}}
		w := newWorld(g)
		for i := 0; i < n; i++ {
			w.parties = map[string]*party{}
			w.dead = false
			g.lifeScenario(w, 20+g.r.Intn(30))
		}
		extra["panics"] = panicCount
		return g.dist
	}
}
