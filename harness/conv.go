package main

// Conversation-level machinery: parties wrapping a real *otr3.Conversation with a
// logging randomness source, a signing-oracle key wrapper, event handlers and a
// virtual clock; every API call is written as a trace op with everything the
// model needs to replay it, and the implementation's observable result.

import (
	crand "crypto/rand"
	"encoding/hex"
	"fmt"
	"io"
	"math/rand"
	"strings"
	"time"

	otr3 "github.com/coyim/otr3"
)

// ---------- randomness source with logging and fault injection ----------

type logRand struct {
	history [][]byte // every successful read, kept for the memory oracles
	forced  [][]byte // outputs to hand out first (prefix of each read), for adversarial randomness
	r       *rand.Rand
	log     []string
	reads   int
	failAt  int // read index at which to fail (-1: never)
	shortAt int // read index at which to return a short read followed by an error (-1: never)
}

func (l *logRand) Read(p []byte) (int, error) {
	idx := l.reads
	l.reads++
	if idx == l.failAt {
		l.log = append(l.log, "FAIL")
		return 0, io.ErrUnexpectedEOF
	}
	if idx == l.shortAt && len(p) > 1 {
		n := len(p) / 2
		l.r.Read(p[:n])
		l.log = append(l.log, hex.EncodeToString(p[:n]))
		l.failAt = l.reads // the continuation read fails
		return n, nil
	}
	l.r.Read(p)
	if len(l.forced) > 0 {
		copy(p, l.forced[0])
		l.forced = l.forced[1:]
	}
	l.log = append(l.log, hex.EncodeToString(p))
	l.history = append(l.history, append([]byte{}, p...))
	return len(p), nil
}

func (l *logRand) drain() string {
	if len(l.log) == 0 {
		return "-"
	}
	s := strings.Join(l.log, ",")
	l.log = nil
	return s
}

// ---------- signing oracle ----------

type oracleKey struct {
	*otr3.DSAPrivateKey
	log    []string
	failAt int
	calls  int
}

func (k *oracleKey) Sign(_ io.Reader, hashed []byte) ([]byte, error) {
	idx := k.calls
	k.calls++
	if idx == k.failAt {
		k.log = append(k.log, hex.EncodeToString(hashed)+":FAIL")
		return nil, io.ErrUnexpectedEOF
	}
	sig, err := k.DSAPrivateKey.Sign(crand.Reader, hashed)
	if err != nil {
		panic(err)
	}
	k.log = append(k.log, hex.EncodeToString(hashed)+":"+hex.EncodeToString(sig))
	return sig, nil
}

func (k *oracleKey) drain() string {
	if len(k.log) == 0 {
		return "-"
	}
	s := strings.Join(k.log, ",")
	k.log = nil
	return s
}

var testKeys []*otr3.DSAPrivateKey

func loadKeys() {
	if testKeys != nil {
		return
	}
	for _, h := range testKeysHex {
		b, _ := hex.DecodeString(h)
		k := &otr3.DSAPrivateKey{}
		if _, ok := k.Parse(b); !ok {
			panic("bad test key")
		}
		testKeys = append(testKeys, k)
	}
}

// ---------- party ----------

type party struct {
	id     string
	c      *otr3.Conversation
	rnd    *logRand
	key    *oracleKey
	events []string
	keyIdx int
	// bookkeeping for oracles
	sent     [][]byte // texts passed to Send while encrypted (or queued)
	received [][]byte // plaintexts returned by Receive
	lastReal time.Time // wall clock at the start of the previous call (see world.sync)
	toldSecure bool          // the last security event said the conversation is private
	ssids    map[string]bool // every session id this conversation has derived so far (C01 oracle)
}

func (p *party) HandleMessageEvent(event otr3.MessageEvent, message []byte, err error, trace ...interface{}) {
	s := fmt.Sprintf("msg:%d", int(event))
	if message != nil {
		s += ":" + hx(message)
	}
	if err != nil {
		s += ":err"
	}
	p.events = append(p.events, s)
}
func (p *party) HandleSecurityEvent(event otr3.SecurityEvent) {
	p.events = append(p.events, fmt.Sprintf("sec:%d", int(event)))
	// what the user has been told: secure after GoneSecure / StillSecure, until GoneInsecure
	p.toldSecure = event != otr3.GoneInsecure
}
func (p *party) HandleSMPEvent(event otr3.SMPEvent, pct int, question string) {
	s := fmt.Sprintf("smp:%d:%d", int(event), pct)
	if question != "" {
		s += ":" + hx([]byte(question))
	}
	p.events = append(p.events, s)
}
func (p *party) ReceivedSymmetricKey(usage uint32, usageData []byte, symkey []byte) {
	p.events = append(p.events, fmt.Sprintf("key:%d:%s:%s", usage, hx(usageData), hex.EncodeToString(symkey)))
}
func (p *party) HandleErrorMessage(code otr3.ErrorCode) []byte {
	return []byte(fmt.Sprintf("E%d", int(code)))
}

// events of the most recent API call (for oracles)
var lastEvents string

func (p *party) drainEvents() string {
	s := "[" + strings.Join(p.events, ",") + "]"
	p.events = nil
	lastEvents = s
	return s
}

type world struct {
	dead    bool // a call panicked: the scenario stops (the implementation state is undefined after a panic)
	g       *gen
	parties map[string]*party
	keysOut bool
	nextID  int
}

func newWorld(g *gen) *world {
	loadKeys()
	return &world{g: g, parties: map[string]*party{}}
}

func (w *world) declareKeys() {
	if w.keysOut {
		return
	}
	w.keysOut = true
	for i, k := range testKeys {
		w.g.out.emit(fmt.Sprintf("key %d %x %x %x %x", i, k.PrivateKey.P.Bytes(), k.PrivateKey.Q.Bytes(), k.PrivateKey.G.Bytes(), k.PrivateKey.Y.Bytes()), "ok")
	}
}

type partyCfg struct {
	version  int // 0: none yet
	policies int
	keyIdx   int // -1: no keys
	fragSize int
	errh     bool
	friendly string
	tag      uint32 // preset own instance tag (0: generate)
}

func (w *world) newParty(cfg partyCfg) *party {
	w.declareKeys()
	id := fmt.Sprintf("c%d", w.nextID)
	w.nextID++
	var c *otr3.Conversation
	if cfg.version != 0 {
		c = otr3.NewConversationWithVersion(cfg.version)
	} else {
		c = &otr3.Conversation{}
	}
	p := &party{id: id, c: c, keyIdx: cfg.keyIdx}
	p.rnd = &logRand{r: rand.New(rand.NewSource(w.g.r.Int63())), failAt: -1, shortAt: -1}
	c.Rand = p.rnd
	c.Policies = 0
	verifSetPolicies(c, cfg.policies)
	if cfg.keyIdx >= 0 {
		p.key = &oracleKey{DSAPrivateKey: testKeys[cfg.keyIdx], failAt: -1}
		c.SetOurKeys([]otr3.PrivateKey{p.key})
	}
	c.SetFragmentSize(uint16(cfg.fragSize))
	c.SetMessageEventHandler(p)
	c.SetSecurityEventHandler(p)
	c.SetSMPEventHandler(p)
	c.SetReceivedKeyHandler(p)
	if cfg.errh {
		c.SetErrorMessageHandler(p)
	}
	if cfg.friendly != "" {
		c.SetFriendlyQueryMessage(cfg.friendly)
	}
	if cfg.tag != 0 {
		c.InitializeInstanceTag(cfg.tag)
	}
	e := 0
	if cfg.errh {
		e = 1
	}
	w.parties[id] = p
	w.g.out.emit(fmt.Sprintf("new %s %d %d %d %d %d %s %d", id, cfg.version, cfg.policies, cfg.keyIdx, cfg.fragSize, e, hx([]byte(cfg.friendly)), cfg.tag), "ok "+otr3.VerifSnapString(c))
	return p
}

func verifSetPolicies(c *otr3.Conversation, p int) {
	if p&2 != 0 {
		c.Policies.AllowV2()
	}
	if p&4 != 0 {
		c.Policies.AllowV3()
	}
	if p&8 != 0 {
		c.Policies.RequireEncryption()
	}
	if p&16 != 0 {
		c.Policies.SendWhitespaceTag()
	}
	if p&32 != 0 {
		c.Policies.WhitespaceStartAKE()
	}
	if p&64 != 0 {
		c.Policies.ErrorStartAKE()
	}
}

func (p *party) tail() string {
	s := " R:" + p.rnd.drain()
	if p.key != nil {
		s += " S:" + p.key.drain()
	} else {
		s += " S:-"
	}
	return s
}

func plainStr(b []byte) string {
	if b == nil {
		return "nil"
	}
	return hx(b)
}

func msgsStr(ms []otr3.ValidMessage) string {
	var s []string
	for _, m := range ms {
		s = append(s, hx(m))
	}
	return "[" + strings.Join(s, ",") + "]"
}

// guarded call: a Go panic becomes the result "PANIC"
var panicCount int

func guard(f func() string) (res string) {
	defer func() {
		if r := recover(); r != nil {
			res = "PANIC"
			panicCount++
		}
	}()
	return f()
}

// The library reads the wall clock, the model's clock only moves with `tick`. Before every call the
// real time that passed since this party's previous call began is cancelled (the stored time stamps
// are moved forward by it), so that what the library measures is the virtual time plus at most the
// duration of one call: a loaded machine must not carry an interval over a 60 s threshold.
func (w *world) sync(p *party) {
	now := time.Now()
	if !p.lastReal.IsZero() {
		otr3.VerifShiftClock(p.c, -now.Sub(p.lastReal))
	}
	p.lastReal = now
}

func (w *world) tick(d int) {
	for _, p := range w.parties {
		otr3.VerifShiftClock(p.c, time.Duration(d)*time.Second)
	}
	w.g.out.emit(fmt.Sprintf("tick %d", d), "ok")
}

func (w *world) recv(p *party, m []byte) (plain []byte, toSend []otr3.ValidMessage, err error, panicked bool) {
	w.sync(p)
	res := guard(func() string {
		plain, toSend, err = p.c.Receive(otr3.ValidMessage(m))
		return fmt.Sprintf("plain=%s send=%s err=%s", plainStr(plain), msgsStr(toSend), otr3.VerifErrClass(err))
	})
	panicked = res == "PANIC"
	if !panicked {
		res += " ev=" + p.drainEvents() + " " + otr3.VerifSnapString(p.c)
	} else {
		p.events = nil
		w.dead = true
	}
	w.g.out.emit(fmt.Sprintf("recv %s %s%s", p.id, hx(m), p.tail()), res)
	w.g.dist["op:recv"]++
	if !panicked {
		sn := otr3.VerifSnapshot(p.c)
		if p.ssids == nil {
			p.ssids = map[string]bool{}
		}
		p.ssids[string(sn.SSID)] = true
		if sn.AkeSSID != nil {
			p.ssids[string(sn.AkeSSID)] = true
		}
	}
	if plain != nil {
		p.received = append(p.received, plain)
	}
	return
}

func (w *world) send(p *party, m []byte) (toSend []otr3.ValidMessage, err error) {
	w.sync(p)
	res := guard(func() string {
		toSend, err = p.c.Send(otr3.ValidMessage(m))
		return fmt.Sprintf("send=%s err=%s", msgsStr(toSend), otr3.VerifErrClass(err))
	})
	if res != "PANIC" {
		res += " ev=" + p.drainEvents() + " " + otr3.VerifSnapString(p.c)
	} else {
		p.events = nil
		w.dead = true
	}
	w.g.out.emit(fmt.Sprintf("send %s %s%s", p.id, hx(m), p.tail()), res)
	w.g.dist["op:send"]++
	return
}

func (w *world) end(p *party) (toSend []otr3.ValidMessage, err error) {
	w.sync(p)
	res := guard(func() string {
		toSend, err = p.c.End()
		return fmt.Sprintf("send=%s err=%s", msgsStr(toSend), otr3.VerifErrClass(err))
	})
	if res != "PANIC" {
		res += " ev=" + p.drainEvents() + " " + otr3.VerifSnapString(p.c)
	} else {
		p.events = nil
		w.dead = true
	}
	w.g.out.emit(fmt.Sprintf("end %s%s", p.id, p.tail()), res)
	w.g.dist["op:end"]++
	return
}

func (w *world) smpStart(p *party, question string, secret []byte) (toSend []otr3.ValidMessage, err error) {
	w.sync(p)
	res := guard(func() string {
		toSend, err = p.c.StartAuthenticate(question, secret)
		return fmt.Sprintf("send=%s err=%s", msgsStr(toSend), otr3.VerifErrClass(err))
	})
	if res != "PANIC" {
		res += " ev=" + p.drainEvents() + " " + otr3.VerifSnapString(p.c)
	} else {
		p.events = nil
		w.dead = true
	}
	w.g.out.emit(fmt.Sprintf("smpstart %s %s %s%s", p.id, hx([]byte(question)), hx(secret), p.tail()), res)
	w.g.dist["op:smpstart"]++
	return
}

func (w *world) smpSecret(p *party, secret []byte) (toSend []otr3.ValidMessage, err error) {
	w.sync(p)
	res := guard(func() string {
		toSend, err = p.c.ProvideAuthenticationSecret(secret)
		return fmt.Sprintf("send=%s err=%s", msgsStr(toSend), otr3.VerifErrClass(err))
	})
	if res != "PANIC" {
		res += " ev=" + p.drainEvents() + " " + otr3.VerifSnapString(p.c)
	} else {
		p.events = nil
		w.dead = true
	}
	w.g.out.emit(fmt.Sprintf("smpsecret %s %s%s", p.id, hx(secret), p.tail()), res)
	w.g.dist["op:smpsecret"]++
	return
}

func (w *world) smpAbort(p *party) (toSend []otr3.ValidMessage, err error) {
	w.sync(p)
	res := guard(func() string {
		toSend, err = p.c.AbortAuthentication()
		return fmt.Sprintf("send=%s err=%s", msgsStr(toSend), otr3.VerifErrClass(err))
	})
	if res != "PANIC" {
		res += " ev=" + p.drainEvents() + " " + otr3.VerifSnapString(p.c)
	} else {
		p.events = nil
		w.dead = true
	}
	w.g.out.emit(fmt.Sprintf("smpabort %s%s", p.id, p.tail()), res)
	w.g.dist["op:smpabort"]++
	return
}

func (w *world) extraKey(p *party, usage uint32, data []byte) (key []byte, toSend []otr3.ValidMessage, err error) {
	w.sync(p)
	res := guard(func() string {
		key, toSend, err = p.c.UseExtraSymmetricKey(usage, data)
		return fmt.Sprintf("key=%s send=%s err=%s", hx(key), msgsStr(toSend), otr3.VerifErrClass(err))
	})
	if res != "PANIC" {
		res += " ev=" + p.drainEvents() + " " + otr3.VerifSnapString(p.c)
	} else {
		p.events = nil
		w.dead = true
	}
	w.g.out.emit(fmt.Sprintf("extrakey %s %d %s%s", p.id, usage, hx(data), p.tail()), res)
	w.g.dist["op:extrakey"]++
	return
}

func (w *world) query(p *party) []byte {
	q := p.c.QueryMessage()
	w.g.out.emit(fmt.Sprintf("query %s", p.id), hx(q))
	return q
}

// info: observable getters, compared too
func (w *world) info(p *party) {
	fp := "-"
	if k := p.c.GetTheirKey(); k != nil {
		fp = hx(k.Fingerprint())
	}
	parts, ix := p.c.SecureSessionID()
	w.g.out.emit(fmt.Sprintf("info %s", p.id), fmt.Sprintf("enc=%v fp=%s ssid=%s|%s ix=%d", p.c.IsEncrypted(), fp, parts[0], parts[1], ix))
}
