package main

// Profile "ake" (C01): an active attacker between live conversations during the key exchange.
// Scripts: byte/field mutation and truncation of one AKE message, duplication, reordering,
// replay of messages recorded from another session between the same long-term keys, an attacker
// E with its own DSA key acting as man in the middle, out-of-range DH values.
// Oracle (after every delivery): whenever a conversation is encrypted, the key it reports belongs
// to a party that derived the same session id in an exchange of its own (i.e. took part with the
// matching private key), and if both honest parties are encrypted from the same exchange they
// agree on SSID, highlight halves, fingerprints, and can read each other.

import (
	"bytes"
	"crypto/aes"
	"crypto/cipher"
	"crypto/hmac"
	"crypto/sha256"
	"fmt"
	"math/big"
	"math/rand"

	otr3 "github.com/coyim/otr3"
)

func fpOf(p *party) []byte { return testKeys[p.keyIdx].PublicKey().Fingerprint() }

func (g *gen) c01check(w *world, parties []*party, where string) {
	for _, x := range parties {
		if !x.c.IsEncrypted() {
			continue
		}
		olog.ok("C01")
		k := x.c.GetTheirKey()
		if k == nil {
			olog.viol("C01", "encrypted-without-peer-key", fmt.Sprintf("%s: %s is encrypted but reports no peer key", where, x.id))
			continue
		}
		fp := k.Fingerprint()
		var owner *party
		for _, p := range parties { // several instances may hold the same long-term key: prefer the one in this exchange
			if p != x && bytes.Equal(fpOf(p), fp) && (owner == nil || p.c.GetSSID() == x.c.GetSSID()) {
				owner = p
			}
		}
		if owner == nil {
			if bytes.Equal(fpOf(x), fp) {
				olog.viol("C01", "reports-own-key-as-peer", fmt.Sprintf("%s: %s reports its own key as the peer's", where, x.id))
			} else {
				olog.viol("C01", "unknown-peer-key", fmt.Sprintf("%s: %s is encrypted with a key nobody holds", where, x.id))
			}
			continue
		}
		sx, so := x.c.GetSSID(), owner.c.GetSSID()
		// while re-keying, one side completes the new exchange one message before the other: the
		// owner then still reports the old session but has derived the new one already
		pendingO, pendingX := otr3.VerifSnapshot(owner.c).AkeSSID, otr3.VerifSnapshot(x.c).AkeSSID
		// (an owner that has meanwhile ended the session or seen the peer end it has derived - and signed
		// for - this session all the same)
		// (an owner that has meanwhile moved on - ended the session, seen the peer end it, or replaced it
		// by an exchange with somebody else - has derived, and signed for, this session all the same)
		if sx != so && !(owner.c.IsEncrypted() && (bytes.Equal(pendingO, sx[:]) || bytes.Equal(pendingX, so[:]))) && !owner.ssids[string(sx[:])] {
			olog.viol("C01", "peer-key-owner-not-in-this-exchange", fmt.Sprintf("%s: %s is encrypted and reports the key of %s, but %s derived a different session (ssid %x vs %x)", where, x.id, owner.id, owner.id, sx, so))
		}
		if owner.c.IsEncrypted() && sx == so {
			_, ix := x.c.SecureSessionID()
			_, io := owner.c.SecureSessionID()
			if ix == io {
				olog.viol("C01", "highlight-halves-not-complementary", fmt.Sprintf("%s: %s and %s highlight the same SSID half", where, x.id, owner.id))
			}
			if ok := owner.c.GetTheirKey(); ok == nil || !bytes.Equal(ok.Fingerprint(), fpOf(x)) {
				olog.viol("C01", "fingerprints-do-not-cross-match", fmt.Sprintf("%s: %s reports %s's key but not vice versa", where, x.id, owner.id))
			}
		}
	}
}

// probe: both encrypted from one exchange must be able to read each other
func (g *gen) c01probe(w *world, a, b *party) {
	if !a.c.IsEncrypted() || !b.c.IsEncrypted() || a.c.GetSSID() != b.c.GetSSID() {
		return
	}
	for _, dir := range [][2]*party{{a, b}, {b, a}} {
		text := g.cleanText()
		ts, err := w.send(dir[0], text)
		if err != nil {
			olog.viol("C01", "cannot-send-after-ake", fmt.Sprintf("%s cannot send after a completed exchange: %v", dir[0].id, err))
			continue
		}
		got := false
		for _, t := range ts {
			p, _, _, _ := w.recv(dir[1], t)
			if bytes.Equal(p, text) {
				got = true
			}
		}
		if !got {
			olog.viol("C01", "cannot-read-each-other", fmt.Sprintf("%s does not read what %s sends after a completed exchange", dir[1].id, dir[0].id))
		}
	}
}

type akeNet struct {
	w        *world
	g        *gen
	a, b     *party
	qab, qba [][]byte
	all      []*party
	akeSeen  int // number of AKE messages delivered so far
	log      [][]byte
}

func isAKEWire(m []byte) bool {
	for _, p := range []string{"?OTR:AAMC", "?OTR:AAIC", "?OTR:AAMK", "?OTR:AAIK", "?OTR:AAMR", "?OTR:AAIR", "?OTR:AAMS", "?OTR:AAIS"} {
		if bytes.HasPrefix(m, []byte(p)) {
			return true
		}
	}
	return false
}

func (n *akeNet) push(from *party, ms []otr3.ValidMessage) {
	for _, m := range ms {
		if from == n.a {
			n.qab = append(n.qab, append([]byte{}, m...))
		} else {
			n.qba = append(n.qba, append([]byte{}, m...))
		}
	}
}

// deliver the head of a queue, letting `tamper` replace / multiply it
func (n *akeNet) step(toB bool, tamper func(k int, m []byte) [][]byte) bool {
	q, p := &n.qab, n.b
	if !toB {
		q, p = &n.qba, n.a
	}
	if len(*q) == 0 {
		return false
	}
	m := (*q)[0]
	*q = (*q)[1:]
	outs := [][]byte{m}
	if isAKEWire(m) {
		n.log = append(n.log, m)
		if tamper != nil {
			outs = tamper(n.akeSeen, m)
		}
		n.akeSeen++
	}
	for _, o := range outs {
		_, ts, _, pan := n.w.recv(p, o)
		if pan {
			olog.viol("C13", "receive-panics", fmt.Sprintf("Receive panicked on a tampered AKE message %.40q", o))
			return false
		}
		n.push(p, ts)
		n.g.c01check(n.w, n.all, fmt.Sprintf("after delivering AKE message %d", n.akeSeen))
	}
	return true
}

func (n *akeNet) run(tamper func(k int, m []byte) [][]byte) {
	for i := 0; i < 60 && (len(n.qab) > 0 || len(n.qba) > 0) && !n.w.dead; i++ {
		n.step(true, tamper)
		n.step(false, tamper)
	}
}

func (g *gen) newAkeNet(w *world, version int) *akeNet {
	w.parties = map[string]*party{}
	w.dead = false
	pol := 2
	if version == 3 {
		pol = 4
	}
	a := w.newParty(partyCfg{policies: pol, keyIdx: 0, errh: true})
	b := w.newParty(partyCfg{policies: pol, keyIdx: 1, errh: true})
	n := &akeNet{w: w, g: g, a: a, b: b, all: []*party{a, b}}
	n.push(a, []otr3.ValidMessage{w.query(a)})
	return n
}

// a DH-Key message carrying an arbitrary value, in the header format of the session
func dhKeyWire(version int, sender, receiver uint32, value []byte) []byte {
	hdr := []byte{0, byte(version), 0x0a}
	if version == 3 {
		hdr = append(hdr, byte(sender>>24), byte(sender>>16), byte(sender>>8), byte(sender), byte(receiver>>24), byte(receiver>>16), byte(receiver>>8), byte(receiver))
	}
	return encodeWire(append(hdr, otr3.AppendData(nil, value)...))
}

var groupP = unhexS("FFFFFFFFFFFFFFFFC90FDAA22168C234C4C6628B80DC1CD129024E088A67CC74020BBEA63B139B22514A08798E3404DDEF9519B3CD3A431B302B0A6DF25F14374FE1356D6D51C245E485B576625E7EC6F44C42E9A637ED6B0BFF5CB6F406B7EDEE386BFB5A899FA5AE9F24117C4B1FE649286651ECE45B3DC2007CB8A163BF0598DA48361C55D39A69163FA8FD24CF5F83655D23DCA3AD961C62F356208552BB9ED529077096966D670C354E4ABC9804F1746C08CA237327FFFFFFFFFFFFFFFF")

// a readable name for the boundary values used as D-H public values (anything else: its hexadecimal form)
func dhValueName(v []byte) string {
	if len(v) == 0 {
		return "(an MPI of length 0, read as 0)"
	}
	for d := -2; d <= 1; d++ {
		if bytes.Equal(v, addSmall(groupP, d)) {
			return fmt.Sprintf("%s (%x...%x, %d bytes)", []string{"p-2", "p-1", "p", "p+1"}[d+2], v[:4], v[len(v)-4:], len(v))
		}
	}
	return fmt.Sprintf("%x", v)
}

func unhexS(s string) []byte {
	b := make([]byte, len(s)/2)
	fmt.Sscanf(s, "%X", &b)
	return b
}

func addSmall(b []byte, d int) []byte { // b + d for small |d|, big endian
	out := append([]byte{}, b...)
	i := len(out) - 1
	c := d
	for i >= 0 && c != 0 {
		v := int(out[i]) + c
		c = 0
		for v < 0 {
			v += 256
			c--
		}
		for v > 255 {
			v -= 256
			c++
		}
		out[i] = byte(v)
		i--
	}
	return out
}

func (g *gen) akeScenario(w *world, recorded [][]byte) [][]byte {
	version := 2 + g.r.Intn(2)
	n := g.newAkeNet(w, version)
	kind := g.r.Intn(9)
	target := g.r.Intn(4) // which AKE message (commit, key, reveal, sig)
	g.dist[fmt.Sprintf("ake:kind%d", kind)]++
	var tamper func(k int, m []byte) [][]byte
	var rejectedFirst []byte // kind 6: the out-of-range value that was delivered (and refused) ahead of the genuine DH-Key message
	switch kind {
	case 0: // honest
	case 1: // flip a bit anywhere in the decoded message
		tamper = func(k int, m []byte) [][]byte {
			if k == target {
				return [][]byte{g.mutateEncodedAt(m, -1)}
			}
			return [][]byte{m}
		}
	case 2: // truncate
		tamper = func(k int, m []byte) [][]byte {
			if k == target {
				return [][]byte{g.truncateEncoded(m)}
			}
			return [][]byte{m}
		}
	case 3: // duplicate
		tamper = func(k int, m []byte) [][]byte {
			if k == target {
				return [][]byte{m, m}
			}
			return [][]byte{m}
		}
	case 4: // replay the corresponding message of an earlier session instead (and then the genuine one)
		tamper = func(k int, m []byte) [][]byte {
			if k == target && k < len(recorded) {
				if g.r.Intn(2) == 0 {
					return [][]byte{recorded[k]}
				}
				return [][]byte{recorded[k], m}
			}
			return [][]byte{m}
		}
	case 5: // flip in the tail (MAC / signature area)
		tamper = func(k int, m []byte) [][]byte {
			if k == target {
				return [][]byte{g.mutateEncodedAt(m, -2)}
			}
			return [][]byte{m}
		}
	case 6: // degenerate DH value in place of the DH-Key message
		tamper = func(k int, m []byte) [][]byte {
			if k == 1 {
				// (the DH-Key message travels from a to b: b, who sent the DH-Commit, is the one awaiting it)
				sa, sb := otr3.VerifSnapshot(n.a.c), otr3.VerifSnapshot(n.b.c)
				vals := [][]byte{{}, {1}, addSmall(groupP, -1), groupP, addSmall(groupP, 1), {0}, addSmall(groupP, -2)}
				v := vals[g.r.Intn(len(vals))]
				bad := dhKeyWire(version, sa.OurTag, sb.OurTag, v)
				ok := bytes.Equal(v, addSmall(groupP, -2))
				before := otr3.VerifSnapshot(n.b.c).AkeState
				_, ts, _, _ := w.recv(n.b, bad)
				after := otr3.VerifSnapshot(n.b.c).AkeState
				olog.ok("C01")
				if !ok && (after != before || len(ts) > 0 && !isErrorReply(ts[0])) {
					olog.viol("C01", "degenerate-dh-value-accepted", fmt.Sprintf("DH-Key with value %x moved the initiator from state %d to %d", v, before, after))
				}
				if ok {
					n.push(n.b, ts)
					return nil
				}
				rejectedFirst = v
				return [][]byte{m}
			}
			return [][]byte{m}
		}
	case 7: // reorder: hold one AKE message back and deliver it after the next
		var held []byte
		tamper = func(k int, m []byte) [][]byte {
			if k == target && held == nil {
				held = m
				return nil
			}
			if held != nil {
				h := held
				held = []byte{}
				if len(h) > 0 {
					return [][]byte{m, h}
				}
			}
			return [][]byte{m}
		}
	case 8: // attacker E with its own key in the middle: A talks to E1, E2 talks to B, E shuffles DH messages across
		g.mitmScenario(w, version)
		return nil
	}
	n.run(tamper)
	g.c01check(w, n.all, "at quiescence")
	g.c01probe(w, n.a, n.b)
	if kind == 0 {
		if !n.a.c.IsEncrypted() || !n.b.c.IsEncrypted() {
			olog.viol("C01", "honest-exchange-fails", "an untampered exchange did not complete")
		}
		return n.log
	}
	if rejectedFirst != nil {
		// a refused message is no step of the exchange: the genuine DH-Key message that follows completes it
		olog.ok("C01")
		if !n.a.c.IsEncrypted() || !n.b.c.IsEncrypted() {
			olog.viol("C01", "honest-exchange-fails", fmt.Sprintf("OTRv%d: the initiator refused a DH-Key message carrying the out-of-range value %s, then received the genuine DH-Key message of its peer: the untampered rest of the exchange did not complete (initiator encrypted: %v, peer encrypted: %v)", version, dhValueName(rejectedFirst), n.b.c.IsEncrypted(), n.a.c.IsEncrypted()))
		} else if n.a.c.GetSSID() != n.b.c.GetSSID() {
			olog.viol("C01", "ssid-differs", fmt.Sprintf("OTRv%d: after a refused DH-Key message carrying the out-of-range value %s and the genuine one both sides are encrypted but report session ids %x and %x", version, dhValueName(rejectedFirst), n.b.c.GetSSID(), n.a.c.GetSSID()))
		}
	}
	return nil
}


// an established session in which one side starts a new exchange that an attacker answers with a
// forged DH-Key (no keys needed) and which never completes, completes honestly afterwards, or is
// tampered with like a first exchange: what the session reports must stay that of the exchange
// it is encrypted from
func (g *gen) rekeyScenario(w *world) {
	version := 2 + g.r.Intn(2)
	n := g.newAkeNet(w, version)
	n.run(nil)
	if !n.a.c.IsEncrypted() || !n.b.c.IsEncrypted() || w.dead {
		return
	}
	g.dist["ake:rekey"]++
	w.tick(3600)
	v, o := n.a, n.b
	if g.r.Intn(2) == 0 {
		v, o = n.b, n.a
	}
	q := []byte("?OTRv2?")
	if version == 3 {
		q = []byte("?OTRv3?")
	}
	_, commit, _, pan := w.recv(v, q) // v starts a new exchange
	if pan || len(commit) == 0 {
		return
	}
	g.c01check(w, n.all, "after starting a new exchange inside a session")
	sv := otr3.VerifSnapshot(v.c)
	val := g.bytesN(192)
	val[0] &= 0x7f // in range
	forged := dhKeyWire(version, sv.TheirTag, sv.OurTag, val)
	_, reveal, _, pan := w.recv(v, forged)
	if pan {
		olog.viol("C13", "receive-panics", "Receive panicked on a forged DH-Key during re-keying")
		return
	}
	_ = reveal // goes nowhere: the attacker cannot continue
	g.c01check(w, n.all, "after a forged DH-Key answered a re-keying DH-Commit")
	g.c01probe(w, n.a, n.b)
	switch g.r.Intn(3) {
	case 0: // the exchange is simply never completed
	case 1: // the genuine peer then starts and completes an exchange of its own
		w.tick(3600)
		_, ts, _, _ := w.recv(o, q)
		n.push(o, ts)
		n.run(nil)
	case 2: // the original commit reaches the peer after all
		n.push(v, commit)
		n.run(nil)
	}
	g.c01check(w, n.all, "at quiescence after an attacked re-keying")
	g.c01probe(w, n.a, n.b)
}


// An out-of-range DH-Key message ahead of the genuine one. The initiator (awaiting the DH-Key message, in a
// first exchange or re-keying inside a session, either version) receives one to three DH-Key messages
// carrying 0, 1, p-1, p, p+1 or an empty value, with the instance tags of the exchange: each must be refused
// and must leave no trace, so that the GENUINE DH-Key message that follows completes the exchange with
// both sides agreeing - or, if an in-range value of the attacker's comes next, the initiator at least
// never derives the session from a refused value (the secrets 0, 1 and p-1, known to everybody).
func (g *gen) rejectedDHKeyScenario(w *world, idx int) {
	version := 2 + idx%2
	established := (idx/2)%2 == 1
	n := g.newAkeNet(w, version)
	fwd := func(to *party, ms []otr3.ValidMessage) (out []otr3.ValidMessage) {
		for _, m := range ms {
			if w.dead {
				return
			}
			_, ts, _, _ := w.recv(to, m)
			out = append(out, ts...)
		}
		return
	}
	q := []byte("?OTRv2?")
	if version == 3 {
		q = []byte("?OTRv3?")
	}
	var v, o *party // v starts the exchange (and awaits the DH-Key message), o is its genuine peer
	var commit []otr3.ValidMessage
	var oldSSID [8]byte
	if established {
		n.run(nil)
		if !n.a.c.IsEncrypted() || !n.b.c.IsEncrypted() || w.dead {
			return
		}
		w.tick(3600)
		v, o = n.a, n.b
		if g.r.Intn(2) == 0 {
			v, o = n.b, n.a
		}
		oldSSID = v.c.GetSSID()
		commit = fwd(v, []otr3.ValidMessage{q})
	} else {
		v, o = n.b, n.a
		commit = fwd(v, []otr3.ValidMessage{n.qab[0]}) // o's query message
		n.qab = nil
	}
	dhkey := fwd(o, commit)
	if w.dead || len(commit) == 0 || len(dhkey) == 0 {
		return
	}
	state := "in a first exchange"
	if established {
		state = "re-keying inside a session"
	}
	g.dist[fmt.Sprintf("ake:rejected-dh-key-first:OTRv%d:established=%v", version, established)]++
	pBig := new(big.Int).SetBytes(groupP)
	degenerate := map[string]string{}
	for name, s := range map[string]*big.Int{"0": big.NewInt(0), "1": big.NewInt(1), "p-1": new(big.Int).Sub(pBig, big.NewInt(1))} {
		degenerate[string(craftedAkeKeys(s).ssid)] = name
	}
	vals := [][]byte{{}, {0}, {1}, addSmall(groupP, -1), groupP, addSmall(groupP, 1)}
	g.r.Shuffle(len(vals), func(i, j int) { vals[i], vals[j] = vals[j], vals[i] })
	vals = vals[:1+g.r.Intn(3)]
	so, sv := otr3.VerifSnapshot(o.c), otr3.VerifSnapshot(v.c)
	var sent []string
	for _, val := range vals {
		sent = append(sent, dhValueName(val))
		before := otr3.VerifSnapString(v.c)
		_, ts, err, pan := w.recv(v, dhKeyWire(version, so.OurTag, sv.OurTag, val))
		if pan {
			olog.viol("C13", "receive-panics", fmt.Sprintf("Receive panicked on a DH-Key message carrying the value %x", val))
			return
		}
		olog.ok("C01")
		if after := otr3.VerifSnapString(v.c); err == nil || after != before || len(ts) > 1 || len(ts) == 1 && !isErrorReply(ts[0]) {
			olog.viol("C01", "degenerate-dh-value-accepted", fmt.Sprintf("OTRv%d, initiator %s: a DH-Key message carrying the out-of-range value %s was not simply refused (err=%v, %d messages to send, state before %q, after %q)", version, state, dhValueName(val), err, len(ts), before, after))
			return
		}
		if g.r.Intn(2) == 0 {
			fwd(o, ts) // the error message, if any, reaches the peer
		}
		g.c01check(w, n.all, "after a refused out-of-range DH-Key message")
	}
	what := fmt.Sprintf("OTRv%d, initiator %s: after DH-Key messages carrying the out-of-range values %v (each refused)", version, state, sent)
	degenerateSSID := func(when string) bool {
		olog.ok("C01")
		sn := otr3.VerifSnapshot(v.c)
		ssid := v.c.GetSSID()
		for _, id := range [][]byte{sn.AkeSSID, ssid[:]} {
			if name, bad := degenerate[string(id)]; bad && len(id) == 8 {
				olog.viol("C01", "degenerate-dh-value-accepted", fmt.Sprintf("%s and %s the initiator derives the session id %x, the one of the secret s = %s: the exchange runs on a refused value and its secret is known to everybody", what, when, id, name))
				return true
			}
		}
		return false
	}
	if g.r.Intn(4) == 0 {
		// the attacker's own in-range value comes next (it wins: the genuine one is then ignored, the
		// exchange cannot complete) - but not a refused value
		val := g.bytesN(192)
		val[0] &= 0x7f
		fwd(v, []otr3.ValidMessage{dhKeyWire(version, so.OurTag, sv.OurTag, val)})
		degenerateSSID(fmt.Sprintf("an in-range DH-Key message of the attacker's (value %x...)", val[:8]))
		g.c01check(w, n.all, what+" and an in-range one of the attacker's")
		g.c01probe(w, n.a, n.b)
		return
	}
	reveal := fwd(v, dhkey)
	degenerateSSID("the genuine DH-Key message of the peer")
	g.c01check(w, n.all, what+" and the genuine one")
	sig := fwd(o, reveal)
	g.c01check(w, n.all, what+", the genuine one and the Reveal Signature message")
	rest := fwd(v, sig)
	fwd(o, rest)
	g.c01check(w, n.all, what+" and the genuine rest of the exchange")
	olog.ok("C01")
	if w.dead {
		return
	}
	if !v.c.IsEncrypted() || !o.c.IsEncrypted() || established && (v.c.GetSSID() == oldSSID || o.c.GetSSID() == oldSSID) {
		olog.viol("C01", "honest-exchange-fails", fmt.Sprintf("%s the genuine DH-Key message and the untampered rest of the exchange did not bring up the new session (the initiator answered the DH-Key message with %d messages, the peer the Reveal Signature message with %d; initiator encrypted: %v, peer encrypted: %v, session ids %x and %x)", what, len(reveal), len(sig), v.c.IsEncrypted(), o.c.IsEncrypted(), v.c.GetSSID(), o.c.GetSSID()))
		return
	}
	if v.c.GetSSID() != o.c.GetSSID() {
		olog.viol("C01", "ssid-differs", fmt.Sprintf("%s and the genuine exchange both sides are encrypted but report session ids %x and %x", what, v.c.GetSSID(), o.c.GetSSID()))
	}
	g.c01probe(w, v, o)
}

// the wire form of a long-term public key (the private key's serialisation without its last MPI)
func pubWire(keyIdx int) []byte {
	k := testKeys[keyIdx]
	ser := k.Serialize()
	return append([]byte{}, ser[:len(ser)-4-len(k.X.Bytes())]...)
}

// A party M that takes part in the DH exchange honestly (so that encryption and MAC of its Reveal
// Signature message are genuine) but puts an arbitrary block where the signed identity belongs:
// against a fresh victim and against a victim that is in a session with someone else.
func (g *gen) forgedBlockScenario(w *world) {
	version := 2 + g.r.Intn(2)
	pol := 2
	q := []byte("?OTRv2?")
	if version == 3 {
		pol, q = 4, []byte("?OTRv3?")
	}
	established := g.r.Intn(2) == 0
	var v *party
	var all []*party
	var tag uint32
	if established {
		n := g.newAkeNet(w, version)
		n.run(nil)
		if !n.a.c.IsEncrypted() || !n.b.c.IsEncrypted() || w.dead {
			return
		}
		v = []*party{n.a, n.b}[g.r.Intn(2)]
		all = n.all
		w.tick(3600)
		tag = otr3.VerifSnapshot(v.c).TheirTag // under OTRv3 M has to speak as the instance v is bound to
	} else {
		w.parties = map[string]*party{}
		w.dead = false
		v = w.newParty(partyCfg{policies: pol, keyIdx: 0, errh: true})
		all = []*party{v}
	}
	m := w.newParty(partyCfg{policies: pol, keyIdx: 2, errh: true, tag: tag})
	all = append(all, m)
	_, commit, _, _ := w.recv(m, q)
	var dhkey, genuine []otr3.ValidMessage
	for _, x := range commit {
		_, ts, _, _ := w.recv(v, x)
		dhkey = append(dhkey, ts...)
	}
	for _, x := range dhkey {
		_, ts, _, _ := w.recv(m, x)
		genuine = append(genuine, ts...)
	}
	if w.dead || len(genuine) == 0 {
		return
	}
	kind := g.r.Intn(9)
	other := pubWire(1 + g.r.Intn(2)) // the key of somebody else (the victim holds key 0)
	var block []byte
	switch kind {
	case 0: // a complete public key and nothing else
		block = other
	case 1: // ... and fewer than four bytes
		block = append(other, g.bytesN(1+g.r.Intn(3))...)
	case 2: // unknown key type followed by enough bytes for a key id
		block = append([]byte{0, byte(1 + g.r.Intn(255))}, g.bytesN(4+g.r.Intn(60))...)
	case 3: // a DSA key cut short, followed by more bytes
		block = append(append([]byte{}, other[:2+g.r.Intn(len(other)-2)]...), g.bytesN(4+g.r.Intn(50))...)
	case 4: // somebody else's key, a key id and 40 bytes that are not their signature
		block = append(append(append([]byte{}, other...), 0, 0, 0, 1), g.bytesN(40)...)
	case 5:
		block = []byte{}
	case 6:
		block = g.bytesN(10 + g.r.Intn(300))
	case 7: // M's own key with a wrong signature
		block = append(append(pubWire(2), 0, 0, 0, 1), g.bytesN(40)...)
	default: // somebody else's key, key id, signature cut short
		block = append(append(append([]byte{}, other...), 0, 0, 0, 1), g.bytesN(g.r.Intn(40))...)
	}
	raw, ok := otr3.VerifCraftRevealSig(m.c, block)
	if !ok {
		return
	}
	g.dist[fmt.Sprintf("ake:forged-block:kind%d:established=%v", kind, established)]++
	where := fmt.Sprintf("after an authenticated Reveal Signature message with a forged signature block (kind %d, OTRv%d, victim in a session: %v)", kind, version, established)
	_, _, err, pan := w.recv(v, encodeWire(raw))
	olog.ok("C13")
	if pan {
		olog.viol("C13", "receive-panics:authenticated-signature-block", "Receive panicked "+where)
		return
	}
	olog.ok("C01")
	if err == nil && kind != 7 {
		// (kind 7 is rejected as well, it is listed apart only because the key is the sender's own)
	}
	if !established && v.c.IsEncrypted() {
		olog.viol("C01", "encrypted-by-forged-signature-block", "the victim is encrypted "+where)
	}
	g.c01check(w, all, where)
	// the genuine message afterwards: M is a legitimate (if unwanted) peer with its own key
	for _, x := range genuine {
		_, ts, _, _ := w.recv(v, x)
		for _, y := range ts {
			w.recv(m, y)
		}
	}
	// (the victim's former peer, if any, is now legitimately left behind: only v and M are compared)
	g.c01check(w, []*party{v, m}, "after the genuine Reveal Signature message that followed: "+where)
}


// a second session of the same two conversation objects: the first one is ended by one side (the
// other is then "finished" and may or may not call End itself), a new exchange follows at once
func (g *gen) secondSessionScenario(w *world) {
	version := 2 + g.r.Intn(2)
	n := g.newAkeNet(w, version)
	n.run(nil)
	if !n.a.c.IsEncrypted() || !n.b.c.IsEncrypted() || w.dead {
		return
	}
	e, o := n.a, n.b
	if g.r.Intn(2) == 0 {
		e, o = n.b, n.a
	}
	ts, _ := w.end(e)
	n.push(e, ts)
	n.run(nil)
	both := g.r.Intn(2) == 0
	if both {
		ts, _ = w.end(o)
		n.push(o, ts)
		n.run(nil)
	}
	if g.r.Intn(2) == 0 {
		w.tick(3600)
	}
	st := []*party{e, o}[g.r.Intn(2)]
	g.dist[fmt.Sprintf("ake:second-session:other-side-ended-too=%v", both)]++
	n.push(st, []otr3.ValidMessage{w.query(st)})
	n.run(nil)
	olog.ok("C01")
	if !n.a.c.IsEncrypted() || !n.b.c.IsEncrypted() {
		olog.viol("C01", "honest-exchange-fails", fmt.Sprintf("OTRv%d: a second session after the first was ended did not come up", version))
		return
	}
	g.c01check(w, n.all, "in a second session of the same conversations")
	if n.a.c.GetSSID() != n.b.c.GetSSID() {
		olog.viol("C01", "ssid-differs", fmt.Sprintf("OTRv%d: both sides are encrypted from the same exchange of a second session but report session ids %x and %x", version, n.a.c.GetSSID(), n.b.c.GetSSID()))
	}
	g.c01probe(w, n.a, n.b)
}


// the end of one session interleaved with the key exchange for the next: the peer ends the session, but
// its disconnect message is overtaken by its query and the exchange that follows, and arrives when
// the victim has already sent its Reveal Signature message
func (g *gen) delayedDisconnectScenario(w *world) {
	version := 2 + g.r.Intn(2)
	n := g.newAkeNet(w, version)
	n.run(nil)
	if !n.a.c.IsEncrypted() || !n.b.c.IsEncrypted() || w.dead {
		return
	}
	v, p := n.a, n.b
	if g.r.Intn(2) == 0 {
		v, p = n.b, n.a
	}
	w.tick(3600)
	disconnect, _ := w.end(p)
	q := w.query(p)
	fwd := func(to *party, ms []otr3.ValidMessage) (out []otr3.ValidMessage) {
		for _, m := range ms {
			_, ts, _, _ := w.recv(to, m)
			out = append(out, ts...)
		}
		return
	}
	commit := fwd(v, []otr3.ValidMessage{q})
	dhkey := fwd(p, commit)
	reveal := fwd(v, dhkey)
	g.c01check(w, n.all, "while re-keying with a peer whose disconnect message is still on its way")
	fwd(v, disconnect) // only now
	sig := fwd(p, reveal)
	fwd(v, sig)
	g.dist["ake:delayed-disconnect"]++
	where := "after a key exchange that overlapped the end of the previous session"
	g.c01check(w, n.all, where)
	olog.ok("C01")
	if v.c.IsEncrypted() && p.c.IsEncrypted() {
		if v.c.GetSSID() != p.c.GetSSID() {
			olog.viol("C01", "ssid-differs", fmt.Sprintf("OTRv%d: %s both sides are encrypted but report session ids %x and %x", version, where, v.c.GetSSID(), p.c.GetSSID()))
		}
		g.c01probe(w, v, p)
	}
}

// E holds key 2 and runs two honest library instances, e1 facing A and e2 facing B; besides relaying
// inside its own sessions it tries to splice messages of one exchange into the other.
func (g *gen) mitmScenario(w *world, version int) {
	w.parties = map[string]*party{}
	w.dead = false
	pol := 2
	if version == 3 {
		pol = 4
	}
	a := w.newParty(partyCfg{policies: pol, keyIdx: 0})
	b := w.newParty(partyCfg{policies: pol, keyIdx: 1})
	e1 := w.newParty(partyCfg{policies: pol, keyIdx: 2})
	e2 := w.newParty(partyCfg{policies: pol, keyIdx: 2})
	all := []*party{a, b, e1, e2}
	// A <-> e1 and e2 <-> B, started by A's and e2's queries
	type edge struct{ from, to *party }
	queues := map[edge][][]byte{}
	push := func(from, to *party, ms []otr3.ValidMessage) {
		for _, m := range ms {
			queues[edge{from, to}] = append(queues[edge{from, to}], append([]byte{}, m...))
		}
	}
	peer := map[*party]*party{a: e1, e1: a, e2: b, b: e2}
	push(a, e1, []otr3.ValidMessage{w.query(a)})
	push(e2, b, []otr3.ValidMessage{w.query(e2)})
	splice := g.r.Intn(3)
	for round := 0; round < 40 && !w.dead; round++ {
		progressed := false
		for _, e := range []edge{{a, e1}, {e1, a}, {e2, b}, {b, e2}} {
			q := queues[e]
			if len(q) == 0 {
				continue
			}
			m := q[0]
			queues[e] = q[1:]
			to := e.to
			// splice: hand B's messages to A (and vice versa) instead of E's own, for some message kinds
			if splice > 0 && isAKEWire(m) && g.r.Intn(3) == 0 {
				if e.from == b && splice == 1 {
					to = a
				} else if e.from == a && splice == 2 {
					to = b
				}
			}
			_, ts, _, pan := w.recv(to, m)
			if pan {
				olog.viol("C13", "receive-panics", "Receive panicked in the MITM scenario")
				return
			}
			push(to, peer[to], ts)
			g.c01check(w, all, "MITM scenario")
			progressed = true
		}
		if !progressed {
			break
		}
	}
	g.c01check(w, all, "MITM scenario at quiescence")
	// A must never end up believing it talks to B (or B to A): they never exchanged signatures of one exchange
	for _, x := range []*party{a, b} {
		if x.c.IsEncrypted() {
			other := b
			if x == b {
				other = a
			}
			if k := x.c.GetTheirKey(); k != nil && bytes.Equal(k.Fingerprint(), fpOf(other)) && x.c.GetSSID() != other.c.GetSSID() {
				olog.viol("C01", "mitm-wrong-peer-key", fmt.Sprintf("%s reports %s's key without a common exchange", x.id, other.id))
			}
		}
	}
}

// A third party with a key of its own runs an honest key exchange with a victim that is in a session
// with somebody else, and the victim's randomness source (or signing) fails at the moment it is to
// answer the Reveal Signature message: the exchange has not completed, so the victim must go on
// reporting the peer of the session it is in.
func (g *gen) thirdPartyUnderFailure(w *world, idx int) {
	version := 2 + idx%2
	n := g.newAkeNet(w, version)
	n.run(nil)
	if !n.a.c.IsEncrypted() || !n.b.c.IsEncrypted() || w.dead {
		return
	}
	w.tick(3600)
	v, o := n.a, n.b
	pol := 2
	if version == 3 {
		pol = 4
	}
	// (the third party knows the instance tag of the victim's peer: it was on the wire)
	m := w.newParty(partyCfg{policies: pol, keyIdx: 2, errh: true, tag: otr3.VerifSnapshot(o.c).OurTag})
	all := []*party{n.a, n.b, m}
	q := []byte("?OTRv2?")
	if version == 3 {
		q = []byte("?OTRv3?")
	}
	_, commit, _, pan := w.recv(m, q)
	if pan || len(commit) == 0 {
		return
	}
	_, dhkey, _, pan := w.recv(v, commit[0])
	if pan || len(dhkey) == 0 {
		return
	}
	_, reveal, _, pan := w.recv(m, dhkey[0])
	if pan || len(reveal) == 0 {
		return
	}
	j := (idx / 2) % 2
	mode := "randomness read"
	if j == 0 {
		v.key.failAt = v.key.calls
		mode = "signing"
	} else {
		v.rnd.failAt = v.rnd.reads
	}
	g.dist["ake:third-party-under-failure:"+mode]++
	_, _, err, pan := w.recv(v, reveal[0])
	v.rnd.failAt, v.key.failAt = -1, -1
	if pan {
		olog.viol("C13", "receive-panics", "Receive panicked on a Reveal Signature message while the randomness source failed")
		return
	}
	where := fmt.Sprintf("OTRv%d: after a third party's Reveal Signature message whose answer failed (%s, offset %d, err=%v)", version, mode, j, err)
	g.c01check(w, all, where)
	g.c01probe(w, n.a, n.b)
	g.c01check(w, all, where+", then traffic")
}

// ---------- a hand-made initiator ----------
//
// A peer M that owns a DSA key (test key 2) and writes its key exchange messages itself, so that it can
// commit to and reveal ANY value in place of g^x - something the library cannot be driven to do
// (p-1 is not a power of 2). M cannot know the secret exponent y of the victim, but for the values
// used here the "shared secret" (g^x)^y is one of at most two publicly computable numbers, and M
// simply tries them in turn: a Reveal Signature message that is refused leaves the victim waiting.

func aesCtrZero(key, data []byte) []byte {
	blk, err := aes.NewCipher(key)
	if err != nil {
		panic(err)
	}
	out := make([]byte, len(data))
	cipher.NewCTR(blk, make([]byte, aes.BlockSize)).XORKeyStream(out, data)
	return out
}

func hmac256(key, data []byte) []byte {
	m := hmac.New(sha256.New, key)
	m.Write(data)
	return m.Sum(nil)
}

func akeHeader(version int, typ byte, sender, receiver uint32) []byte {
	hdr := []byte{0, byte(version), typ}
	if version == 3 {
		hdr = otr3.AppendWord(otr3.AppendWord(hdr, sender), receiver)
	}
	return hdr
}

// the keys both sides derive from the secret s: ssid, (c, m1, m2) for the Reveal Signature message,
// (c', m1', m2') for the Signature message
type craftedKeys struct {
	ssid          []byte
	c, m1, m2     []byte
	c2, m1b, m2b  []byte
}

func craftedAkeKeys(s *big.Int) craftedKeys {
	sec := otr3.AppendMPI(nil, s)
	h := func(b byte) []byte {
		x := sha256.Sum256(append([]byte{b}, sec...))
		return x[:]
	}
	return craftedKeys{ssid: h(0)[:8], c: h(1)[:16], c2: h(1)[16:], m1: h(2), m2: h(3), m1b: h(4), m2b: h(5)}
}

// DH-Commit committing to the value gx
func craftedCommit(version int, sender, receiver uint32, r []byte, gx *big.Int) []byte {
	mpi := otr3.AppendMPI(nil, gx)
	hash := sha256.Sum256(mpi)
	body := otr3.AppendData(otr3.AppendData(akeHeader(version, 0x02, sender, receiver), aesCtrZero(r, mpi)), hash[:])
	return encodeWire(body)
}

// Reveal Signature message revealing r, signed with test key `keyIdx`, all keys derived from s
func craftedRevealSig(version int, sender, receiver uint32, r []byte, gx, gy, s *big.Int, keyIdx int, rnd *rand.Rand) []byte {
	k := craftedAkeKeys(s)
	pub := pubWire(keyIdx)
	mb := hmac256(k.m1, otr3.AppendWord(append(otr3.AppendMPI(otr3.AppendMPI(nil, gx), gy), pub...), 1))
	sig, err := testKeys[keyIdx].Sign(rnd, mb)
	if err != nil {
		panic(err)
	}
	xb := aesCtrZero(k.c, append(otr3.AppendWord(append([]byte{}, pub...), 1), sig...))
	enc := otr3.AppendData(nil, xb)
	body := append(otr3.AppendData(akeHeader(version, 0x11, sender, receiver), r), enc...)
	return encodeWire(append(body, hmac256(k.m2, enc)[:20]...))
}

// sender instance tag and value of a DH-Key message
func readDHKey(version int, m []byte) (tag uint32, gy *big.Int, ok bool) {
	bin := decodeWire(m)
	off := 3
	if version == 3 {
		off = 11
	}
	if len(bin) < off+4 || bin[0] != 0 || int(bin[1]) != version || bin[2] != 0x0a {
		return 0, nil, false
	}
	if version == 3 {
		tag = uint32(bin[3])<<24 | uint32(bin[4])<<16 | uint32(bin[5])<<8 | uint32(bin[6])
	}
	rest, gy, ok := otr3.ExtractMPI(bin[off:])
	return tag, gy, ok && len(rest) == 0
}

// is m a Signature message whose MAC is the one of the keys derived from s?
func isSignatureUnder(version int, m []byte, k craftedKeys) bool {
	bin := decodeWire(m)
	off := 3
	if version == 3 {
		off = 11
	}
	if len(bin) < off+4+20 || bin[2] != 0x12 {
		return false
	}
	enc, mac := bin[off:len(bin)-20], bin[len(bin)-20:]
	return hmac.Equal(hmac256(k.m2b, enc)[:20], mac)
}

// The hand-made initiator against a fresh victim and against a victim that is in a session with
// somebody else, revealing in turn (random order) the values 0, 1, p-1, p, p+1 - which must be refused -
// and 2, p-2, the smallest and the largest legal value - which must complete the exchange (M is a
// legitimate peer with a key of its own; this also shows that M's messages are well-formed).
func (g *gen) craftedInitiatorScenario(w *world, idx int) {
	version := 2 + idx%2
	established := (idx/2)%2 == 1
	const mKey = 2
	pBig := new(big.Int).SetBytes(groupP)
	var v *party
	var others []*party // the victim and the peer of its session, as long as that session is the one that must persist
	var mTag uint32
	if established {
		n := g.newAkeNet(w, version)
		n.run(nil)
		if !n.a.c.IsEncrypted() || !n.b.c.IsEncrypted() || w.dead {
			return
		}
		v = []*party{n.a, n.b}[g.r.Intn(2)]
		others = n.all
		w.tick(3600)
		mTag = otr3.VerifSnapshot(v.c).TheirTag // under OTRv3 M has to speak as the instance v is bound to
	} else {
		w.parties = map[string]*party{}
		w.dead = false
		pol := 2
		if version == 3 {
			pol = 4
		}
		v = w.newParty(partyCfg{policies: pol, keyIdx: 0, errh: true})
		others = []*party{v}
	}
	if version == 3 && mTag == 0 {
		mTag = uint32(0x100 + g.r.Intn(0x7fffff00))
	}
	g.dist[fmt.Sprintf("ake:crafted-initiator:OTRv%d:established=%v", version, established)]++
	signRnd := rand.New(rand.NewSource(g.r.Int63()))
	type val struct {
		name  string
		gx    *big.Int
		legal bool
	}
	d := func(k int64) *big.Int { return new(big.Int).Add(pBig, big.NewInt(k)) }
	vals := []val{{"0", big.NewInt(0), false}, {"1", big.NewInt(1), false}, {"p-1", d(-1), false}, {"p", d(0), false}, {"p+1", d(1), false},
		{"2", big.NewInt(2), true}, {"p-2", d(-2), true}}
	g.r.Shuffle(len(vals), func(i, j int) { vals[i], vals[j] = vals[j], vals[i] })
	state := "fresh"
	if established {
		state = "in a session with somebody else"
	}
	for _, x := range vals {
		if w.dead {
			return
		}
		r := g.bytesN(16)
		_, ts, _, pan := w.recv(v, craftedCommit(version, mTag, 0, r, x.gx))
		if pan {
			olog.viol("C13", "receive-panics", fmt.Sprintf("Receive panicked on a hand-made DH-Commit for g^x = %s", x.name))
			return
		}
		var vTag uint32
		var gy *big.Int
		for _, t := range ts {
			if tag, y, ok := readDHKey(version, t); ok {
				vTag, gy = tag, y
			}
		}
		olog.ok("C01")
		if gy == nil {
			// (nothing about g^x can be checked yet: a DH-Commit is always answered)
			olog.viol("C01", "honest-exchange-fails", fmt.Sprintf("OTRv%d, victim %s: a hand-made DH-Commit (for g^x = %s) was not answered with a DH-Key message", version, state, x.name))
			continue
		}
		// (g^x)^y for the unknown y of the victim: g^x is 0, 1, -1, 2 or -2 modulo p, and 2 is the generator
		var cands []*big.Int
		switch red := new(big.Int).Mod(x.gx, pBig); {
		case red.Sign() == 0:
			cands = []*big.Int{big.NewInt(0)}
		case red.Cmp(big.NewInt(1)) == 0:
			cands = []*big.Int{big.NewInt(1)}
		case red.Cmp(d(-1)) == 0:
			cands = []*big.Int{big.NewInt(1), d(-1)}
		case red.Cmp(big.NewInt(2)) == 0:
			cands = []*big.Int{gy}
		default:
			cands = []*big.Int{gy, new(big.Int).Sub(pBig, gy)}
		}
		if g.r.Intn(2) == 0 && len(cands) == 2 {
			cands[0], cands[1] = cands[1], cands[0]
		}
		accepted := false
		for _, s := range cands {
			wasEnc, ssidBefore := v.c.IsEncrypted(), v.c.GetSSID()
			_, ts, _, pan := w.recv(v, craftedRevealSig(version, mTag, vTag, r, x.gx, gy, s, mKey, signRnd))
			if pan {
				olog.viol("C13", "receive-panics", fmt.Sprintf("Receive panicked on a hand-made Reveal Signature message for g^x = %s", x.name))
				return
			}
			k := craftedAkeKeys(s)
			accepted = v.c.IsEncrypted() && (!wasEnc || v.c.GetSSID() != ssidBefore)
			if !x.legal {
				olog.ok("C01")
				if accepted {
					fp := []byte{}
					if tk := v.c.GetTheirKey(); tk != nil {
						fp = tk.Fingerprint()
					}
					olog.viol("C01", "degenerate-dh-value-accepted", fmt.Sprintf("OTRv%d, victim %s: after a DH-Commit committing to g^x = %s (%x) and a Reveal Signature message revealing it, signed by the sender's own key and keyed with s = %x, the victim reports itself encrypted (session id %x, peer fingerprint %x): the session secret is known to everybody", version, state, x.name, x.gx.Bytes(), s.Bytes(), v.c.GetSSID(), fp))
				}
			} else if accepted {
				// M is a genuine peer here: what the victim reports must be M's key and the session of this exchange
				ssid := v.c.GetSSID()
				tk := v.c.GetTheirKey()
				if tk == nil || !bytes.Equal(tk.Fingerprint(), testKeys[mKey].PublicKey().Fingerprint()) {
					olog.viol("C01", "unknown-peer-key", fmt.Sprintf("OTRv%d, victim %s: after a complete exchange with a hand-made initiator (g^x = %s) the victim does not report the initiator's key", version, state, x.name))
				}
				if !bytes.Equal(ssid[:], k.ssid) {
					olog.viol("C01", "ssid-differs", fmt.Sprintf("OTRv%d, victim %s: after a complete exchange with a hand-made initiator (g^x = %s) the victim reports session id %x, the initiator derives %x", version, state, x.name, ssid, k.ssid))
				}
				answered := false
				for _, t := range ts {
					answered = answered || isSignatureUnder(version, t, k)
				}
				if !answered {
					olog.viol("C01", "honest-exchange-fails", fmt.Sprintf("OTRv%d, victim %s: the victim accepted the Reveal Signature message of a hand-made initiator (g^x = %s) but did not answer with a Signature message authenticated with the keys of the exchange", version, state, x.name))
				}
			}
			if accepted {
				others = nil // the session with M has replaced whatever the victim was in
				break
			}
			if others != nil {
				g.c01check(w, others, fmt.Sprintf("after a refused hand-made Reveal Signature message (g^x = %s)", x.name))
			}
		}
		if x.legal {
			olog.ok("C01")
			if !accepted {
				olog.viol("C01", "honest-exchange-fails", fmt.Sprintf("OTRv%d, victim %s: a hand-made but correct exchange with g^x = %s (a legal value) did not complete", version, state, x.name))
			}
		}
	}
}

func init() {
	profiles["ake"] = func(seed int64, n int, out *emitter, extra map[string]interface{}) map[string]int {
		g := &gen{r: rand.New(rand.NewSource(seed)), out: out, dist: map[string]int{}}
		olog = &oracleLog{checked: map[string]int{}, out: out}
		w := newWorld(g)
		var recorded [][]byte
		for i := 0; i < n; i++ {
			if i%6 == 5 {
				g.rekeyScenario(w)
				continue
			}
			if i%6 == 3 {
				g.forgedBlockScenario(w)
				continue
			}
			if i%12 == 1 {
				g.secondSessionScenario(w)
				continue
			}
			if i%12 == 7 {
				g.delayedDisconnectScenario(w)
				continue
			}
			if i%12 == 10 {
				g.thirdPartyUnderFailure(w, i/12)
				continue
			}
			if i%12 == 4 {
				g.craftedInitiatorScenario(w, i/12)
				continue
			}
			if i%12 == 8 {
				// (an additional scenario with a random stream of its own: the streams of the others stay as they were)
				saved := g.r
				g.r = rand.New(rand.NewSource(seed*1000003 + int64(i)))
				g.rejectedDHKeyScenario(w, i/12)
				g.r = saved
			}
			if rec := g.akeScenario(w, recorded); rec != nil && len(rec) >= 4 {
				recorded = rec
			}
		}
		extra["panics"] = panicCount
		olog.export(extra)
		return g.dist
	}
}
