package main

// Profile "conc" (C20): independent conversation pairs on goroutines, each compared with the same
// pair run alone; meant to be run from the race-detector build (otrh-race). Uses a self-contained
// runner (no shared harness state) so that every race the detector reports is the library's.

import (
	"bytes"
	"os"
	crand "crypto/rand"
	"fmt"
	"io"
	"math/big"
	"math/rand"
	"runtime"
	"strings"
	"sync"
	"time"

	otr3 "github.com/coyim/otr3"
)

type seedReader struct{ r *rand.Rand }

func (s *seedReader) Read(p []byte) (int, error) { s.r.Read(p); return len(p), nil }

// The randomness source of a conversation of an ordinary pair: the seeded stream, plus a call back
// after a read has been delivered (set by the pair's own goroutine around one library call, nil
// otherwise). The bytes delivered never depend on it; it only decides WHEN the library gets to use
// them - a user supplied source may be slow, and other conversations of the process go on meanwhile.
type gateReader struct {
	in    io.Reader
	reads int
	after func(read int) // read: 0 for the first read since the call back was set
}

func (g *gateReader) Read(p []byte) (int, error) {
	n, err := g.in.Read(p)
	if g.after != nil {
		k := g.reads
		g.reads++
		g.after(k)
	}
	return n, err
}

// how a pair is lined up with the other pairs of the process (alone: concAlone, nothing waits)
type concSync struct {
	barrier     func() // everybody, the pair with the wide key included
	pairBarrier func() // the ordinary pairs only
	// the chain of a round: the pairs in some order; each one starts its answer when the one before it
	// is in the middle of its own, and goes on with its own when the one after it is through
	waitPrev func(round int) // returns when the previous pair of the chain is inside its answer (or gives none)
	inside   func(round int) // this pair is inside its answer: a read of its randomness source has just been served
	waitNext func(round int) // returns when the next pair of the chain is through its answer (or gives none)
	answered func(round int) // this pair is through its answer of that round (or gives none)
	// the nested rounds are also started one pair after the other, in the opposite order: the first pair
	// to answer is the last one to call StartAuthenticate
	waitStart func(round int) // returns when the next pair of the chain has made its call of StartAuthenticate (or makes none)
	started   func(round int) // this pair has made its call of StartAuthenticate of that round (or makes none)
}

var concAlone = concSync{func() {}, func() {}, func(int) {}, func(int) {}, func(int) {}, func(int) {}, func(int) {}, func(int) {}}

// What the user of the process types in once and the application keeps in one place: the passphrase
// she authenticates her peers with. Per SMP phase there is ONE buffer for all calls of
// StartAuthenticate and another one (same text) for all calls of ProvideAuthenticationSecret, handed
// as they are to every conversation of the run - in the concurrent runs all pairs share them, a pair
// run alone gets its own with the same content. The same goes for the usage data of the extra
// symmetric key. The library only ever has to read them.
type concSecrets struct {
	loopStart, loopAnswer   []byte   // the SMP runs in the middle of the traffic
	lineStart, lineAnswer   []byte   // the SMP run after the first barrier
	roundStart, roundAnswer [][]byte // the SMP rounds after the key files
	usage                   []byte   // UseExtraSymmetricKey
}

func newConcSecrets() *concSecrets {
	fresh := func(s string) []byte { return append(make([]byte, 0, len(s)), s...) }
	cs := &concSecrets{loopStart: fresh("the passphrase of the user"), loopAnswer: fresh("the passphrase of the user"),
		lineStart: fresh("one more secret of the user"), lineAnswer: fresh("one more secret of the user"),
		usage: fresh("file transfer 7 of the user")}
	for k := 0; k < concFreeRounds+concChainRounds; k++ {
		cs.roundStart = append(cs.roundStart, fresh(fmt.Sprintf("secret %d of the user", k)))
		cs.roundAnswer = append(cs.roundAnswer, fresh(fmt.Sprintf("secret %d of the user", k)))
	}
	return cs
}

// Every byte slice handed to the library stays the caller's: after the call it must hold what was
// passed in (the library works on copies; a buffer an application shares between its conversations
// is state shared between them as soon as the library writes to it). One per pair and run, filled in
// by the pair's goroutine only and read when that is through.
type concBufs struct {
	checked int
	hits    []string
	kept    []keptOutput
}

// a message the library handed out (the slice itself, not a copy) and what it held at that moment
type keptOutput struct {
	label     string
	buf, orig []byte
}

// what Send / Receive hand out belongs to the caller: it is kept by reference and looked at again when every
// conversation of the process has finished (recheck)
func (cb *concBufs) keep(label string, buf []byte) {
	cb.kept = append(cb.kept, keptOutput{label, buf, append([]byte{}, buf...)})
}

func (cb *concBufs) recheck() (changed []string) {
	for _, k := range cb.kept {
		cb.checked++
		if !bytes.Equal(k.buf, k.orig) {
			changed = append(changed, fmt.Sprintf("%s: the message of %d bytes handed out as %.48q reads %.48q after the other conversations have run", k.label, len(k.orig), k.orig, k.buf))
		}
	}
	return
}

// to be called before the library call; the function returned, after it
func (cb *concBufs) hold(call, conv string, buf []byte) func() {
	before := append([]byte{}, buf...)
	return func() {
		cb.checked++
		if !bytes.Equal(buf, before) {
			k := 0
			for k < len(buf) && buf[k] == before[k] {
				k++
			}
			cb.hits = append(cb.hits, fmt.Sprintf("%s of conversation %s: the caller's buffer of %d bytes was passed in as %.40q and holds %.40q after the call (first difference at byte %d)", call, conv, len(before), before, buf, k))
		}
	}
}

// SMP runs after the key files: concFreeRounds in which all pairs answer at the same moment, then
// concChainRounds in which the answers are nested one inside the other
const concFreeRounds, concChainRounds = 2, 2

// DSA signing draws a non-deterministic number of bytes from its randomness source; it gets its own,
// so that the conversation's seeded stream (and with it every DH key) is reproducible
type concKey struct{ *otr3.DSAPrivateKey }

func (k *concKey) Sign(_ io.Reader, hashed []byte) ([]byte, error) {
	return k.DSAPrivateKey.Sign(crand.Reader, hashed)
}

type concParty struct {
	c   *otr3.Conversation
	log *[]string
	tag string
}

func (p *concParty) HandleMessageEvent(event otr3.MessageEvent, message []byte, err error, trace ...interface{}) {
	*p.log = append(*p.log, fmt.Sprintf("%s msg:%d:%x", p.tag, int(event), message))
}
func (p *concParty) HandleSecurityEvent(event otr3.SecurityEvent) {
	*p.log = append(*p.log, fmt.Sprintf("%s sec:%d", p.tag, int(event)))
}
func (p *concParty) HandleSMPEvent(event otr3.SMPEvent, pct int, question string) {
	*p.log = append(*p.log, fmt.Sprintf("%s smp:%d:%d", p.tag, int(event), pct))
}
func (p *concParty) HandleErrorMessage(code otr3.ErrorCode) []byte {
	// short and specific to this pair: whatever another conversation writes into memory shared with
	// this one shows up as a foreign text
	return []byte(fmt.Sprintf("E%d%s", int(code), p.tag))
}

// one pair doing handshake, traffic, errors, SMP, fragmentation and teardown; the transcript
// contains everything that is deterministic given the seed (DSA signatures are not: wire bytes omitted)
func concRun(seed int64, sy concSync, sec *concSecrets) ([]string, []otr3.ValidMessage, *concBufs) {
	barrier := sy.barrier
	bufs := &concBufs{}
	r := rand.New(rand.NewSource(seed))
	var log []string
	pairTag := fmt.Sprintf("%x", uint32(seed)&0xffff)
	mk := func(tag string, keyIdx int, frag uint16) *concParty {
		tag += pairTag
		c := &otr3.Conversation{}
		c.Rand = &gateReader{in: &seedReader{rand.New(rand.NewSource(r.Int63()))}}
		c.Policies.AllowV2()
		c.Policies.AllowV3()
		c.Policies.SendWhitespaceTag()
		c.Policies.ErrorStartAKE()
		k := *testKeys[keyIdx] // each pair works on its own copy of the long-term key
		c.SetOurKeys([]otr3.PrivateKey{&concKey{&k}})
		c.SetFragmentSize(frag)
		p := &concParty{c: c, log: &log, tag: tag}
		c.SetMessageEventHandler(p)
		c.SetSecurityEventHandler(p)
		c.SetSMPEventHandler(p)
		c.SetErrorMessageHandler(p)
		return p
	}
	a, b := mk("A", 0, uint16([]int{0, 120, 300}[r.Intn(3)])), mk("B", 1, 0)
	var qab, qba [][]byte
	// every stored time stamp is made "long ago" before each call, so that the transcript does not
	// depend on how fast this goroutine happens to run (60 s windows of heartbeat / repeated query)
	age := func() {
		otr3.VerifShiftClock(a.c, 2*time.Hour)
		otr3.VerifShiftClock(b.c, 2*time.Hour)
	}
	push := func(from *concParty, ms []otr3.ValidMessage) {
		for _, m := range ms {
			if from == a {
				qab = append(qab, append([]byte{}, m...))
			} else {
				qba = append(qba, append([]byte{}, m...))
			}
		}
	}
	deliver := func(toB bool) {
		q, p := &qab, b
		if !toB {
			q, p = &qba, a
		}
		if len(*q) == 0 {
			return
		}
		m := (*q)[0]
		*q = (*q)[1:]
		age()
		same := bufs.hold("Receive", p.tag, m)
		plain, ts, err := p.c.Receive(m)
		same()
		log = append(log, fmt.Sprintf("%s recv plain=%x err=%s %s", p.tag, plain, otr3.VerifErrClass(err), otr3.VerifSnapString(p.c)))
		push(p, ts)
	}
	settle := func() {
		for i := 0; i < 400 && (len(qab) > 0 || len(qba) > 0); i++ {
			deliver(true)
			deliver(false)
		}
	}
	push(a, []otr3.ValidMessage{a.c.QueryMessage()})
	settle()
	for i := 0; i < 12; i++ {
		p := []*concParty{a, b}[r.Intn(2)]
		switch r.Intn(9) {
		case 0, 1, 2, 3:
			txt := make([]byte, 5+r.Intn(300))
			for j := range txt {
				txt[j] = byte('a' + r.Intn(26))
			}
			age()
			same := bufs.hold("Send", p.tag, txt)
			ts, err := p.c.Send(txt)
			same()
			log = append(log, fmt.Sprintf("%s send n=%d err=%s", p.tag, len(ts), otr3.VerifErrClass(err)))
			push(p, ts)
		case 4:
			settle()
		case 5:
			same := bufs.hold("StartAuthenticate (secret)", p.tag, sec.loopStart)
			ts, err := p.c.StartAuthenticate("", sec.loopStart)
			same()
			log = append(log, fmt.Sprintf("%s smpstart err=%s", p.tag, otr3.VerifErrClass(err)))
			push(p, ts)
			settle()
			o := a
			if p == a {
				o = b
			}
			same = bufs.hold("ProvideAuthenticationSecret", o.tag, sec.loopAnswer)
			ts, err = o.c.ProvideAuthenticationSecret(sec.loopAnswer)
			same()
			log = append(log, fmt.Sprintf("%s smpsecret err=%s", o.tag, otr3.VerifErrClass(err)))
			push(o, ts)
			settle()
		case 6:
			// damage a message in flight: the receiver answers with an error message
			if len(qab) > 0 && bytes.HasPrefix(qab[0], []byte("?OTR:")) && len(qab[0]) > 40 {
				qab[0][30] ^= 1
			}
			deliver(true)
		case 7:
			ts, err := p.c.End()
			log = append(log, fmt.Sprintf("%s end err=%s", p.tag, otr3.VerifErrClass(err)))
			push(p, ts)
			settle()
			push(p, []otr3.ValidMessage{p.c.QueryMessage()})
			settle()
		default:
			deliver(r.Intn(2) == 0)
		}
	}
	settle()
	// the extra symmetric key, its usage data in a buffer all conversations of the user are given
	if a.c.IsEncrypted() && b.c.IsEncrypted() {
		age()
		same := bufs.hold("UseExtraSymmetricKey (usage data)", a.tag, sec.usage)
		key, ts, err := a.c.UseExtraSymmetricKey(7, sec.usage)
		same()
		log = append(log, fmt.Sprintf("%s extrakey %x n=%d err=%s", a.tag, key, len(ts), otr3.VerifErrClass(err)))
		push(a, ts)
		settle()
	}
	// messages handed out by Send under a fragment size that is legal but leaves no room for a single payload
	// byte (the message is then handed out whole): kept by reference, delivered at once, and compared with what
	// they were when every conversation of the process has finished
	if a.c.IsEncrypted() && b.c.IsEncrypted() {
		b.c.SetFragmentSize(uint16(1 + r.Intn(17)))
		for k := 0; k < 3; k++ {
			age()
			txt := []byte(fmt.Sprintf("whole %d of pair %s", k, pairTag))
			ts, err := b.c.Send(txt)
			log = append(log, fmt.Sprintf("%s send under a degenerate fragment size n=%d err=%s", b.tag, len(ts), otr3.VerifErrClass(err)))
			for _, m := range ts {
				bufs.keep(fmt.Sprintf("Send of conversation %s with fragment size below the header length", b.tag), m)
			}
			push(b, ts)
			settle()
		}
		b.c.SetFragmentSize(0)
	}
	// error replies: the slices returned by Receive are kept (not copied) and looked at again at the
	// end - a reply must not change after it has been handed out, whatever other conversations do
	var held []otr3.ValidMessage
	for k := 0; k < 12; k++ {
		if !a.c.IsEncrypted() || !b.c.IsEncrypted() {
			break
		}
		age()
		txt := []byte(fmt.Sprintf("text %d of pair %s", k, pairTag))
		same := bufs.hold("Send", a.tag, txt)
		ts, _ := a.c.Send(txt)
		same()
		for j, m := range ts {
			if j == 0 && len(m) > 60 {
				m[len(m)-12] ^= 1 // inside the base64 text of the message or of its first fragment
			}
			age()
			same := bufs.hold("Receive", b.tag, m)
			_, back, err := b.c.Receive(m)
			same()
			log = append(log, fmt.Sprintf("%s recv damaged err=%s n=%d", b.tag, otr3.VerifErrClass(err), len(back)))
			held = append(held, back...)
		}
	}
	// fingerprints and an SMP run while every other pair does the same (the barrier lines the
	// goroutines up): anything computed through state shared between conversations shows up as a
	// wrong fingerprint or a failed authentication
	barrier()
	if a.c.IsEncrypted() && b.c.IsEncrypted() {
		var first string
		wrong := 0
		for k := 0; k < 3000; k++ {
			fp := fmt.Sprintf("%x|%x", a.c.GetTheirKey().Fingerprint(), b.c.GetTheirKey().Fingerprint())
			if k == 0 {
				first = fp
			} else if fp != first {
				wrong++
			}
		}
		log = append(log, fmt.Sprintf("fingerprints %s, %d of 3000 repetitions differ", first, wrong))
		same := bufs.hold("StartAuthenticate (secret)", a.tag, sec.lineStart)
		ts, err := a.c.StartAuthenticate("", sec.lineStart)
		same()
		log = append(log, fmt.Sprintf("%s smpstart err=%s", a.tag, otr3.VerifErrClass(err)))
		push(a, ts)
		settle()
		same = bufs.hold("ProvideAuthenticationSecret", b.tag, sec.lineAnswer)
		ts, err = b.c.ProvideAuthenticationSecret(sec.lineAnswer)
		same()
		log = append(log, fmt.Sprintf("%s smpsecret err=%s", b.tag, otr3.VerifErrClass(err)))
		push(b, ts)
		settle()
	}
	// key files read at the same time by every pair (each its own file, with its own account names)
	barrier()
	{
		acct := func(i int) kfAcct {
			k := testKeys[i]
			return kfAcct{name: []byte(fmt.Sprintf("account-%d-of-pair-%s-%s", i, pairTag, strings.Repeat(pairTag, 20))), proto: []byte("prpl-" + pairTag),
				p: k.PrivateKey.P, q: k.PrivateKey.Q, g: k.PrivateKey.G, y: k.PrivateKey.Y, x: k.X}
		}
		file := append(kfLibotrFile(acct(0))[:0:0], []byte("(privkeys\n")...)
		for i := 0; i < 2; i++ {
			one := kfLibotrFile(acct(i))
			one = one[len("(privkeys\n") : len(one)-2]
			file = append(file, one...)
		}
		file = append(file, []byte(")\n")...)
		wrong, failed := 0, 0
		for k := 0; k < 150; k++ {
			as, err := otr3.ImportKeys(bytes.NewReader(file))
			if err != nil || len(as) != 2 {
				failed++
				continue
			}
			for i, a := range as {
				want := acct(i)
				kk, ok := a.Key.(*otr3.DSAPrivateKey)
				if a.Name != string(want.name) || a.Protocol != string(want.proto) || !ok || kk.X.Cmp(want.x) != 0 || kk.PrivateKey.Y.Cmp(want.y) != 0 {
					wrong++
				}
			}
		}
		log = append(log, fmt.Sprintf("key file imports: %d failed, %d accounts differ from the file", failed, wrong))
	}
	// More SMP runs, the secrets equal on both sides, lined up with the other pairs at the very point where
	// the answer (ProvideAuthenticationSecret: the second message and its seven secret exponents) is made:
	//   - rounds in which all pairs call ProvideAuthenticationSecret at the same moment, straight after a
	//     barrier, their randomness sources giving way to the other goroutines after every read;
	//   - rounds in which the answers are nested: this pair's randomness source serves the read for the
	//     first or the second exponent and then takes its time - the next pair of the chain makes its whole
	//     answer meanwhile (in the middle of which the pair after it makes its own, and so on).
	// Conversations that share nothing cannot tell any of this from running alone.
	for round := 0; round < concFreeRounds+concChainRounds; round++ {
		chain := round >= concFreeRounds
		starter, answerer := a, b
		if r.Intn(2) == 1 {
			starter, answerer = b, a
		}
		slowRead := r.Intn(2)
		ok := a.c.IsEncrypted() && b.c.IsEncrypted()
		if chain {
			sy.waitStart(round)
		}
		if ok {
			age()
			same := bufs.hold("StartAuthenticate (secret)", starter.tag, sec.roundStart[round])
			ts, err := starter.c.StartAuthenticate("", sec.roundStart[round])
			same()
			sy.started(round)
			log = append(log, fmt.Sprintf("%s smpstart round %d err=%s", starter.tag, round, otr3.VerifErrClass(err)))
			push(starter, ts)
			settle()
		}
		sy.started(round)
		if chain {
			sy.waitPrev(round)
		} else {
			sy.pairBarrier()
		}
		var ts []otr3.ValidMessage
		if ok {
			g := answerer.c.Rand.(*gateReader)
			g.reads = 0
			if chain {
				g.after = func(k int) {
					if k == slowRead {
						sy.inside(round)
						sy.waitNext(round)
					}
				}
			} else {
				g.after = func(int) { runtime.Gosched() }
			}
			age()
			var err error
			same := bufs.hold("ProvideAuthenticationSecret", answerer.tag, sec.roundAnswer[round])
			ts, err = answerer.c.ProvideAuthenticationSecret(sec.roundAnswer[round])
			same()
			g.after = nil
			how := "at the same moment as the other pairs"
			if chain {
				how = fmt.Sprintf("the next pair answering while read %d of the randomness source returns", slowRead)
			}
			log = append(log, fmt.Sprintf("%s smpsecret round %d (%s) err=%s n=%d", answerer.tag, round, how, otr3.VerifErrClass(err), len(ts)))
		}
		sy.answered(round)
		if ok {
			push(answerer, ts)
			settle()
		}
	}
	return log, held, bufs
}

// One more pair, of a different kind: one side's long-term key comes from a libotr key file (ImportKeys
// does not look at sizes) and has a q of 224 or 256 bits. The signature format of the protocol has room
// for a 160 bit q only, so the key exchange is refused with an error at the point where that side has
// to sign - and that is all: nobody else in the process may notice. The first attempts are made before
// the barrier that precedes the SMP runs of the ordinary pairs (every one of those runs comes after
// them), the others while these runs are under way.
func concWideRun(seed int64, barrier func()) ([]string, *concBufs) {
	r := rand.New(rand.NewSource(seed))
	var log []string
	bufs := &concBufs{}
	pairTag := fmt.Sprintf("w%x", uint32(seed)&0xffff)
	attempt := func(k int) {
		bits := []uint{224, 256}[r.Intn(2)]
		wideSigns := []string{"reveal-signature", "signature"}[r.Intn(2)]
		full := testKeys[0]
		q := new(big.Int).Lsh(big.NewInt(1), bits-1)
		q.Add(q, big.NewInt(int64(1+2*r.Intn(500))))
		file := kfLibotrFile(kfAcct{name: []byte("wide-" + pairTag), proto: []byte("prpl-" + pairTag),
			p: full.PrivateKey.P, q: q, g: full.PrivateKey.G, y: full.PrivateKey.Y, x: full.X})
		as, err := otr3.ImportKeys(bytes.NewReader(file))
		if err != nil || len(as) != 1 {
			log = append(log, fmt.Sprintf("attempt %d: key file with a q of %d bits not imported (%d accounts, err=%s)", k, bits, len(as), otr3.VerifErrClass(err)))
			return
		}
		wide, ok := as[0].Key.(*otr3.DSAPrivateKey)
		if !ok || wide.PrivateKey.Q.Cmp(q) != 0 {
			log = append(log, fmt.Sprintf("attempt %d: imported key differs from the file", k))
			return
		}
		mk := func(tag string, key *otr3.DSAPrivateKey) *concParty {
			c := &otr3.Conversation{}
			c.Rand = &seedReader{rand.New(rand.NewSource(r.Int63()))}
			c.Policies.AllowV3()
			c.SetOurKeys([]otr3.PrivateKey{&concKey{key}})
			p := &concParty{c: c, log: &log, tag: tag + pairTag}
			c.SetMessageEventHandler(p)
			c.SetSecurityEventHandler(p)
			c.SetSMPEventHandler(p)
			c.SetErrorMessageHandler(p)
			return p
		}
		ord := *testKeys[1]
		x, y := mk("X", wide), mk("Y", &ord)
		log = append(log, fmt.Sprintf("attempt %d: X has an imported DSA key with q = %x (%d bits) and is the one to send the %s message", k, q, bits, wideSigns))
		from, to := x, y // the one who asks receives the D-H Commit and signs second
		if wideSigns == "reveal-signature" {
			from, to = y, x
		}
		ms := []otr3.ValidMessage{from.c.QueryMessage()}
		failed := false
		for i := 0; i < 8 && len(ms) > 0; i++ {
			var nx []otr3.ValidMessage
			for _, m := range ms {
				otr3.VerifShiftClock(to.c, 2*time.Hour)
				same := bufs.hold("Receive", to.tag, m)
				plain, ts, err := to.c.Receive(m)
				same()
				failed = failed || err != nil
				log = append(log, fmt.Sprintf("%s recv plain=%x err=%s n=%d %s", to.tag, plain, otr3.VerifErrClass(err), len(ts), otr3.VerifSnapString(to.c)))
				nx = append(nx, ts...)
			}
			ms = nx
			from, to = to, from
		}
		log = append(log, fmt.Sprintf("attempt %d: refused with an error: %v, encrypted: %v/%v", k, failed, x.c.IsEncrypted(), y.c.IsEncrypted()))
	}
	for k := 0; k < 2; k++ {
		attempt(k)
	}
	barrier()
	for k := 2; k < 8; k++ {
		attempt(k)
	}
	barrier()
	return log, bufs
}

// what the replies handed out earlier look like now
func heldLines(held []otr3.ValidMessage) []string {
	var out []string
	for i, m := range held {
		out = append(out, fmt.Sprintf("held reply %d: %q", i, m))
	}
	return out
}

// the SMP events of a transcript ("A smp:<event>:<percent>"), in order
func smpLines(ls []string) string {
	var out []string
	for _, l := range ls {
		if i := strings.Index(l, " smp:"); i >= 0 && i < 12 && !strings.Contains(l, "recv") {
			out = append(out, l)
		}
	}
	return strings.Join(out, ",")
}

func firstLine(ls []string) string {
	if len(ls) == 0 {
		return "<nothing>"
	}
	return ls[0]
}

func init() {
	profiles["conc"] = func(seed int64, n int, out *emitter, extra map[string]interface{}) map[string]int {
		loadKeys()
		olog = &oracleLog{checked: map[string]int{}, out: out}
		dist := map[string]int{}
		// package-level slices used as append prefixes must have no spare capacity
		for name, lc := range otr3.VerifPkgSlices() {
			olog.ok("C20")
			if lc[0] != lc[1] {
				olog.viol("C20", "package-slice-with-spare-capacity:"+name, fmt.Sprintf("package-level slice %s has len %d and cap %d: append(%s, …) writes shared memory", name, lc[0], lc[1], name))
			}
		}
		// the byte slices handed to the library, as found after each call
		report := func(run string, cb *concBufs) {
			if cb == nil {
				return
			}
			olog.checked["C20"] += cb.checked
			dist["conc:caller-buffers-checked"] += cb.checked
			for _, h := range cb.hits {
				olog.viol("C20", "caller-buffer-modified", fmt.Sprintf("%s: %s", run, h))
			}
			for _, h := range cb.recheck() {
				olog.viol("C20", "handed-out-message-modified", fmt.Sprintf("%s: %s", run, h))
			}
		}
		solo := make([][]string, n)
		for i := 0; i < n; i++ {
			// alone: the replies are looked at again before any other conversation exists; the buffers with
			// the secrets are this pair's own
			lg, held, cb := concRun(seed*100000+int64(i), concAlone, newConcSecrets())
			report(fmt.Sprintf("pair %d (seed %d) run alone", i, seed*100000+int64(i)), cb)
			solo[i] = append(lg, heldLines(held)...)
			for _, l := range solo[i] {
				if strings.HasPrefix(l, "held reply") || strings.Contains(l, "recv damaged") {
					if os.Getenv("VERIF_DEBUG") != "" && i == 0 {
						fmt.Fprintln(os.Stderr, l[:min(len(l), 90)])
					}
				}
				if strings.HasPrefix(l, "held reply") {
					dist["conc:held-error-replies"]++
					if strings.Contains(l, "?OTR Error") {
						dist["conc:held-error-replies:error-message"]++
					}
				}
			}
		}
		wideSeed := seed*100000 + 99999
		var wide [2][]string
		for round := 0; round < 2; round++ {
			conc := make([][]string, n+1) // the last one is the pair with the wide key
			heldAll := make([][]otr3.ValidMessage, n)
			bufsAll := make([]*concBufs, n+1)
			shared := newConcSecrets() // one set of buffers for all pairs of this run
			var wg sync.WaitGroup
			// barriers: everybody waits until all participants have arrived (one that panicked before has
			// arrived as well, see the deferred call)
			mkBarrier := func(total int) (arrive, leave func()) {
				var bmu sync.Mutex
				bcond := sync.NewCond(&bmu)
				waiting, generation, gone := 0, 0, 0 // gone: participants that are through (or panicked) and will never arrive again
				arrive = func() {
					bmu.Lock()
					defer bmu.Unlock()
					gen := generation
					waiting++
					if waiting+gone >= total {
						waiting = 0
						generation++
						bcond.Broadcast()
						return
					}
					for gen == generation {
						bcond.Wait()
					}
				}
				leave = func() {
					bmu.Lock()
					gone++
					if waiting > 0 && waiting+gone >= total {
						waiting = 0
						generation++
						bcond.Broadcast()
					}
					bmu.Unlock()
				}
				return
			}
			barrier, leaveAll := mkBarrier(n + 1)
			pairBarrier, leavePairs := mkBarrier(n)
			// the chains of the nested rounds (a different pair is the innermost one in every round); every
			// channel is closed by its own pair only, at the latest when its goroutine ends
			const smpRounds = concFreeRounds + concChainRounds
			insideCh, answeredCh := make([][]chan struct{}, n), make([][]chan struct{}, n)
			insideDone, answeredDone := make([][]bool, n), make([][]bool, n)
			startedCh, startedDone := make([][]chan struct{}, n), make([][]bool, n)
			for i := 0; i < n; i++ {
				insideDone[i], answeredDone[i], startedDone[i] = make([]bool, smpRounds), make([]bool, smpRounds), make([]bool, smpRounds)
				for k := 0; k < smpRounds; k++ {
					startedCh[i] = append(startedCh[i], make(chan struct{}))
					insideCh[i] = append(insideCh[i], make(chan struct{}))
					answeredCh[i] = append(answeredCh[i], make(chan struct{}))
				}
			}
			syncOf := func(i int) concSync {
				pos := func(round int) int { return (i + round + int(seed)) % n }
				at := func(round, p int) int { return ((p-round-int(seed))%n + n) % n } // the pair at place p of the chain
				inside := func(round int) {
					if !insideDone[i][round] {
						insideDone[i][round] = true
						close(insideCh[i][round])
					}
				}
				return concSync{
					barrier:     barrier,
					pairBarrier: pairBarrier,
					waitPrev: func(round int) {
						if p := pos(round); p > 0 {
							<-insideCh[at(round, p-1)][round]
						}
					},
					inside: inside,
					waitNext: func(round int) {
						if p := pos(round); p < n-1 {
							<-answeredCh[at(round, p+1)][round]
						}
					},
					answered: func(round int) {
						inside(round)
						if !answeredDone[i][round] {
							answeredDone[i][round] = true
							close(answeredCh[i][round])
						}
					},
					waitStart: func(round int) {
						if p := pos(round); p < n-1 {
							<-startedCh[at(round, p+1)][round]
						}
					},
					started: func(round int) {
						if !startedDone[i][round] {
							startedDone[i][round] = true
							close(startedCh[i][round])
						}
					},
				}
			}
			for i := 0; i <= n; i++ {
				wg.Add(1)
				go func(i int) {
					defer wg.Done()
					defer func() {
						if r := recover(); r != nil {
							conc[i] = []string{fmt.Sprint("PANIC ", r)}
						}
					}()
					// whether it is through or panicked: the others must not wait for this pair any more
					defer leaveAll()
					if i == n {
						conc[i], bufsAll[i] = concWideRun(wideSeed, barrier)
					} else {
						sy := syncOf(i)
						defer func() {
							leavePairs()
							for k := 0; k < smpRounds; k++ {
								sy.started(k)
								sy.answered(k)
							}
						}()
						conc[i], heldAll[i], bufsAll[i] = concRun(seed*100000+int64(i), sy, shared)
					}
				}(i)
			}
			wg.Wait()
			for i := 0; i <= n; i++ {
				who := fmt.Sprintf("pair %d (seed %d) in concurrent run %d, every secret in one buffer per role given to all %d pairs", i, seed*100000+int64(i), round, n)
				if i == n {
					who = fmt.Sprintf("pair with the imported wide-q key (seed %d) in concurrent run %d", wideSeed, round)
				}
				report(who, bufsAll[i])
			}
			wide[round] = conc[n]
			conc = conc[:n]
			// concurrently: the replies are looked at again when all conversations are done
			for i := 0; i < n; i++ {
				if len(conc[i]) != 1 || !strings.HasPrefix(conc[i][0], "PANIC") {
					conc[i] = append(conc[i], heldLines(heldAll[i])...)
				}
			}
			if os.Getenv("VERIF_DEBUG") != "" {
				for _, l := range conc[0] {
					if strings.HasPrefix(l, "held reply") {
						fmt.Fprintln(os.Stderr, "CONC", l[:min(len(l), 90)])
					}
				}
			}
			for i := 0; i < n; i++ {
				olog.ok("C20")
				dist["conc:pairs"]++
				dist["conc:transcript-lines"] += len(conc[i])
				if strings.Join(conc[i], "\n") != strings.Join(solo[i], "\n") {
					k := 0
					for k < len(conc[i]) && k < len(solo[i]) && conc[i][k] == solo[i][k] {
						k++
					}
					a, b := "<end>", "<end>"
					if k < len(solo[i]) {
						a = solo[i][k]
					}
					if k < len(conc[i]) {
						b = conc[i][k]
					}
					smp := ""
					if sa, sb := smpLines(solo[i]), smpLines(conc[i]); sa != sb {
						smp = fmt.Sprintf(" [SMP events of the pair (secrets equal) alone: %.400s | concurrently: %.400s]", sa, sb)
					}
					olog.viol("C20", "concurrent-run-differs-from-solo", fmt.Sprintf("pair %d (seed %d): line %d alone: %.200s | concurrently: %.200s%s (in the concurrent run there is one more pair, in which a conversation with an imported DSA key whose q has 224 or 256 bits has its key exchange refused: %.200s)", i, seed*100000+int64(i), k, a, b, smp, firstLine(wide[round])))
				}
			}
		}
		// the pair with the wide key alone (after everybody else: the ordinary pairs ran alone in a process
		// that had not seen such a key yet)
		{
			alone, cb := concWideRun(wideSeed, func() {})
			report(fmt.Sprintf("pair with the imported wide-q key (seed %d) run alone", wideSeed), cb)
			refused := 0
			for _, l := range alone {
				if strings.Contains(l, "refused with an error: true, encrypted: false/false") {
					refused++
				}
			}
			dist["conc:wide-q-key-exchanges-refused"] += refused
			for round := 0; round < 2; round++ {
				olog.ok("C20")
				dist["conc:pairs"]++
				dist["conc:transcript-lines"] += len(wide[round])
				if strings.Join(wide[round], "\n") != strings.Join(alone, "\n") {
					k := 0
					for k < len(wide[round]) && k < len(alone) && wide[round][k] == alone[k] {
						k++
					}
					a, b := "<end>", "<end>"
					if k < len(alone) {
						a = alone[k]
					}
					if k < len(wide[round]) {
						b = wide[round][k]
					}
					olog.viol("C20", "concurrent-run-differs-from-solo", fmt.Sprintf("pair with the imported wide-q key (seed %d): line %d alone: %.200s | concurrently: %.200s", wideSeed, k, a, b))
				}
			}
		}
		out.emit("tick 0", "ok") // keep the ops file non-empty for the driver
		extra["pairs"] = n
		olog.export(extra)
		return dist
	}
}
