package main

// Profile "lifecycle" (C18, C03): whole-session lifecycle histories on a reliable network under
// random policy sets: start / complete / abandon AKE, Send, End, peer End, peer error message,
// refresh while encrypted. Oracles: security events exactly on the transitions of IsEncrypted;
// Send refuses in the finished state; each text is transmitted at most once (plus at most one
// marked resend), queued texts exactly once and in order; no text that was due for encryption
// ever appears on the wire in readable form (raw, inside base64 armour, across fragments).

import (
	"bytes"
	"fmt"
	"math/rand"
	"strings"

	otr3 "github.com/coyim/otr3"
)

type lcSide struct {
	p       *party
	pol     int
	wire    [][]byte // everything this side ever emitted, in order
	secrets []lcSecret
	queued  [][]byte // texts queued under require-encryption, in order
	// C03, keystream: every data message of the current session of this side by (sender key id,
	// recipient key id, counter); the AES-CTR key depends on the key ids only, the counter is the nonce
	ctrs map[[3]uint64]lcData
	// C03/C18, kept by the harness from the public API alone: the peer ended the conversation (a Receive
	// took IsEncrypted from true to false) and since then neither End was called nor a key exchange
	// completed — the conversation is finished whatever the library's own state variable says
	peerEnded bool
}

type lcData struct {
	whole []byte // the encoded message (fragments reassembled)
	kind  string
}

type lcSecret struct {
	text []byte
	from int // index into wire at the time of the Send
	why  string
}

type lcLink struct {
	*link
	sa, sb    *lcSide
	delivered map[string]int // plaintexts returned by either Receive
	order     [][]byte       // delivery order at each side is checked through `queued`
	g         *gen
	op        string // what the next call is, for the descriptions ("" = Receive)
	hist      string // directed scenarios: the history so far, for the descriptions
}

// C03 "decipherable only with the session's DH secrets": AES-CTR under a key that is a function of
// the two DH keys named by the key ids, with the message counter as nonce. Two different data messages
// of one sender under the same (sender key id, recipient key id, counter) share the keystream: the XOR
// of the two ciphertexts is the XOR of the two plaintexts, no secret needed. A completed key exchange
// (GoneSecure / StillSecure, new session id) starts new DH keys and restarts ids and counter.
func (ll *lcLink) keystream(p *party, op string, ts []otr3.ValidMessage, evs string, newSSID bool, waiting [][]byte) {
	s := ll.side(p)
	rekeyed := strings.Contains(evs, "sec:1") || strings.Contains(evs, "sec:2") || newSSID
	if rekeyed || s.ctrs == nil {
		s.ctrs = map[[3]uint64]lcData{}
	}
	if op == "" {
		op = "reply of Receive"
		if rekeyed {
			op = "released by the Receive that completed the key exchange"
			if len(waiting) > 0 {
				op += fmt.Sprintf(" (%d text(s) waiting: %.40q)", len(waiting), waiting)
			}
		}
	}
	n := 0
	for _, whole := range reassembleAll(ts) {
		sk, rk, ctr, ok := otr3.VerifDataIDs(whole)
		if !ok {
			continue
		}
		n++
		olog.ok("C03")
		k := [3]uint64{uint64(sk), uint64(rk), ctr}
		kind := fmt.Sprintf("data message #%d %s", n, op)
		if old, dup := s.ctrs[k]; dup {
			if !bytes.Equal(old.whole, whole) {
				d := 0
				for d < len(old.whole) && d < len(whole) && old.whole[d] == whole[d] {
					d++
				}
				olog.viol("C03", "keystream-reused", fmt.Sprintf("%s (policies %d) emitted two different data messages under sender key id %d, recipient key id %d, counter %d in one session: [%s] %.24q.. (%d bytes) and [%s] %.24q.. (%d bytes), first difference at byte %d (%.16q / %.16q) - same AES-CTR keystream, the XOR of the ciphertexts is the XOR of the plaintexts", p.id, s.pol, sk, rk, ctr, old.kind, old.whole, len(old.whole), kind, whole, len(whole), d, old.whole[d:], whole[d:]))
			}
			continue
		}
		s.ctrs[k] = lcData{append([]byte{}, whole...), kind}
	}
}

func (ll *lcLink) side(p *party) *lcSide {
	if p == ll.a {
		return ll.sa
	}
	return ll.sb
}

// run one API call on p with the security-event oracle around it
func (ll *lcLink) call(p *party, f func() ([]otr3.ValidMessage, []byte)) []otr3.ValidMessage {
	before := p.c.IsEncrypted()
	pre := otr3.VerifSnapshot(p.c)
	op := ll.op
	ll.op = ""
	ts, plain := f()
	after := p.c.IsEncrypted()
	evs := lastEvents
	ll.keystream(p, op, ts, evs, !bytes.Equal(pre.SSID, otr3.VerifSnapshot(p.c).SSID), pre.Resend)
	olog.ok("C18")
	gs, gi, ss := strings.Contains(evs, "sec:1"), strings.Contains(evs, "sec:0"), strings.Contains(evs, "sec:2")
	desc := fmt.Sprintf("%s: encrypted %v -> %v with events %s", p.id, before, after, evs)
	if !before && after != gs && !ll.w.dead {
		olog.viol("C18", "gone-secure-event-mismatch", desc)
	}
	if before && !after != gi && !ll.w.dead {
		olog.viol("C18", "gone-insecure-event-mismatch", desc)
	}
	if gs && !(!before && after) || gi && !(before && !after) || ss && !(before && after) {
		olog.viol("C18", "security-event-without-transition", desc)
	}
	s := ll.side(p)
	if after {
		s.peerEnded = false
	} else if before && op == "" && !ll.w.dead {
		s.peerEnded = true
	}
	for _, t := range ts {
		s.wire = append(s.wire, append([]byte{}, t...))
	}
	if plain != nil {
		ll.delivered[string(plain)]++
		// queued texts of the peer must come out in order
		peer := ll.sb
		if p == ll.b {
			peer = ll.sa
		}
		for i, q := range peer.queued {
			if bytes.Equal(q, plain) {
				if i != 0 {
					olog.viol("C18", "queued-out-of-order", fmt.Sprintf("queued text %q delivered before %d earlier queued text(s)", plain, i))
				}
				peer.queued = append(peer.queued[:i:i], peer.queued[i+1:]...)
				break
			}
		}
	}
	ll.enqueue(p, ts)
	return ts
}

func (ll *lcLink) sendText(p *party, text []byte) {
	s := ll.side(p)
	st := otr3.VerifSnapshot(p.c).MsgState
	enabled := s.pol&6 != 0
	why, note := "", ""
	switch {
	case !enabled:
	case st == 1:
		why = "encrypted"
	case st == 2 || s.peerEnded:
		why = "finished"
		if st != 2 {
			note = fmt.Sprintf(" (the peer ended the conversation; since then no End and no completed key exchange on %s, policies %d; its msgState reads %d)", p.id, s.pol, st)
		}
	case st == 0 && s.pol&8 != 0:
		why = "require-encryption"
	}
	from := len(s.wire)
	var err error
	ll.op = fmt.Sprintf("of Send(%.40q) while %s", text, map[bool]string{true: why, false: "not due for encryption"}[why != ""])
	ts := ll.call(p, func() ([]otr3.ValidMessage, []byte) {
		var ts []otr3.ValidMessage
		ts, err = ll.w.send(p, text)
		return ts, nil
	})
	if why != "" {
		s.secrets = append(s.secrets, lcSecret{text, from, why + note})
	}
	if why == "finished" {
		olog.ok("C18")
		if err == nil {
			olog.viol("C18", "send-accepted-while-finished", fmt.Sprintf("%s: Send(%.40q) succeeded in the finished state%s", p.id, text, note))
		}
		for _, t := range ts {
			if !isErrorReply(t) {
				olog.viol("C18", "send-emits-while-finished", fmt.Sprintf("%s: Send(%.40q) in the finished state%s emitted %.60q", p.id, text, note, t))
			}
		}
		// C03: "Send emits no form of the text at all"
		olog.ok("C03")
		var out [][]byte
		for _, t := range ts {
			out = append(out, t)
		}
		if where := leaks(text, out); where != "" && len(text) > 0 {
			olog.viol("C03", "send-emits-while-finished", fmt.Sprintf("%s%s: Send(%q) while finished%s returned err=%v and the text %s", ll.hist, p.id, text, note, err, where))
		}
	}
	if why == "require-encryption" && err == nil {
		s.queued = append(s.queued, text)
	}
}

func (ll *lcLink) endSession(p *party) {
	ll.op = "of End"
	ll.call(p, func() ([]otr3.ValidMessage, []byte) { ts, _ := ll.w.end(p); return ts, nil })
	ll.side(p).peerEnded = false
}

func (ll *lcLink) deliverOne(toB bool) bool {
	q, p := &ll.qab, ll.b
	if !toB {
		q, p = &ll.qba, ll.a
	}
	if len(*q) == 0 {
		return false
	}
	m := (*q)[0]
	*q = (*q)[1:]
	ll.call(p, func() ([]otr3.ValidMessage, []byte) {
		plain, ts, _, _ := ll.w.recv(p, m)
		return ts, plain
	})
	return true
}

func (ll *lcLink) settle() {
	for i := 0; i < 3000 && (len(ll.qab) > 0 || len(ll.qba) > 0) && !ll.w.dead; i++ {
		ll.deliverOne(true)
		ll.deliverOne(false)
	}
}

// is `text` readable in the wire messages ms (raw, inside base64 bodies, across fragments)?
func leaks(text []byte, ms [][]byte) string {
	var vm []otr3.ValidMessage
	for _, m := range ms {
		if bytes.Contains(m, text) {
			return fmt.Sprintf("raw in %.50q", m)
		}
		vm = append(vm, otr3.ValidMessage(m))
	}
	for _, whole := range reassembleAll(vm) {
		if bytes.Contains(whole, text) {
			return fmt.Sprintf("across fragments of %.40q", whole)
		}
		if bin := decodeWire(whole); bin != nil && bytes.Contains(bin, text) {
			return fmt.Sprintf("inside the base64 body of %.40q", whole)
		}
	}
	return ""
}

// how often was `text` handed to the receiving user with the resend mark — once or several times over
// ("[resent] [resent] x" is a second retransmission of x) — and how often with more than one mark
func resentCopies(delivered map[string]int, text []byte) (marked, deep int) {
	for k, n := range delivered {
		depth := 0
		for strings.HasPrefix(k, "[resent] ") && k != string(text) {
			k = k[len("[resent] "):]
			depth++
		}
		if depth > 0 && k == string(text) {
			marked += n
			if depth > 1 {
				deep += n
			}
		}
	}
	return
}

func (g *gen) lifecycleScenario(w *world, steps int) {
	w.parties = map[string]*party{}
	w.dead = false
	common := []int{2, 4, 6}[g.r.Intn(3)]
	extraBits := func() int {
		p := 0
		for _, b := range []int{8, 16, 32, 64} {
			if g.r.Intn(3) == 0 {
				p |= b
			}
		}
		return p
	}
	pa, pb := common|extraBits(), common|extraBits()
	a := w.newParty(partyCfg{policies: pa, keyIdx: 0, fragSize: g.fragSize(), errh: g.r.Intn(2) == 0})
	b := w.newParty(partyCfg{policies: pb, keyIdx: 1, fragSize: g.fragSize(), errh: g.r.Intn(2) == 0})
	ll := &lcLink{link: &link{w: w, a: a, b: b}, sa: &lcSide{p: a, pol: pa}, sb: &lcSide{p: b, pol: pb}, delivered: map[string]int{}, g: g}
	ps := []*party{a, b}
	for i := 0; i < steps && !w.dead; i++ {
		p := ps[g.r.Intn(2)]
		switch k := g.r.Intn(30); {
		case k < 10:
			ll.sendText(p, g.lcText())
		case k < 18:
			ll.deliverOne(g.r.Intn(2) == 0)
		case k < 21:
			ll.settle()
		case k < 23:
			ll.endSession(p)
		case k < 25:
			q := w.query(p)
			ll.side(p).wire = append(ll.side(p).wire, q)
			ll.enqueue(p, []otr3.ValidMessage{q})
		case k < 27:
			w.tick([]int{45, 75, 120, 3600}[g.r.Intn(4)])
		default:
			// the peer reports that it could not read our last message
			ll.call(p, func() ([]otr3.ValidMessage, []byte) {
				plain, ts, _, _ := w.recv(p, []byte("?OTR Error: unreadable"))
				return ts, plain
			})
		}
	}
	ll.settle()
	// transmission discipline, counted where it matters: at the receiving user
	for _, s := range []*lcSide{ll.sa, ll.sb} {
		for _, sec := range s.secrets {
			olog.ok("C18")
			olog.ok("C03")
			n := ll.delivered[string(sec.text)]
			r, deep := resentCopies(ll.delivered, sec.text)
			if deep > 0 {
				olog.viol("C18", "text-resent-twice", fmt.Sprintf("text %q (sent while %s) was delivered %d times, %d times as resent, of which %d times with the resend mark more than once", sec.text, sec.why, n, r, deep))
			} else if n > 1 || r > 1 {
				olog.viol("C18", "text-transmitted-more-than-once", fmt.Sprintf("text %q (sent while %s) was delivered %d times and %d times as resent", sec.text, sec.why, n, r))
			}
			if where := leaks(sec.text, s.wire[sec.from:]); where != "" {
				olog.viol("C03", "text-readable-on-the-wire", fmt.Sprintf("text %q passed to Send while %s appears %s", sec.text, sec.why, where))
			}
		}
	}
}

// C03 (keystream) / C18: texts passed to Send under requireEncryption before there is a session are
// queued; the key exchange completes and releases them; one more Send follows before the peer has
// said anything (no key rotation in between), then ordinary traffic in both directions
func (g *gen) queuedThenSend(w *world) {
	w.parties = map[string]*party{}
	w.dead = false
	common := []int{2, 4, 6}[g.r.Intn(3)]
	pa, pb := common|8, common
	for _, b := range []int{16, 32, 64} {
		if g.r.Intn(3) == 0 {
			pa |= b
		}
		if g.r.Intn(3) == 0 {
			pb |= b
		}
	}
	a := w.newParty(partyCfg{policies: pa, keyIdx: 0, fragSize: g.fragSize(), errh: g.r.Intn(2) == 0})
	b := w.newParty(partyCfg{policies: pb, keyIdx: 1, fragSize: g.fragSize(), errh: g.r.Intn(2) == 0})
	ll := &lcLink{link: &link{w: w, a: a, b: b}, sa: &lcSide{p: a, pol: pa}, sb: &lcSide{p: b, pol: pb}, delivered: map[string]int{}, g: g}
	queued := 1 + g.r.Intn(3)
	g.dist[fmt.Sprintf("lifecycle-queued-then-send:%d-queued", queued)]++
	for i := 0; i < queued; i++ {
		ll.sendText(a, g.lcText())
	}
	// run the key exchange up to the call in which a goes secure (and releases the queue) ...
	for i := 0; i < 200 && !a.c.IsEncrypted() && (len(ll.qab) > 0 || len(ll.qba) > 0) && !w.dead; i++ {
		if !ll.deliverOne(i%2 == 0) {
			ll.deliverOne(i%2 != 0)
		}
	}
	// ... and send right away, once or twice, before anything else reaches either side
	for i := 1 + g.r.Intn(2); i > 0 && !w.dead; i-- {
		ll.sendText(a, g.lcText())
	}
	ll.settle()
	for i := g.r.Intn(3); i > 0 && !w.dead; i-- {
		ll.sendText([]*party{a, b}[g.r.Intn(2)], g.lcText())
		if g.r.Intn(2) == 0 {
			ll.settle()
		}
	}
	ll.settle()
	for _, s := range []*lcSide{ll.sa, ll.sb} {
		for _, sec := range s.secrets {
			olog.ok("C18")
			olog.ok("C03")
			n := ll.delivered[string(sec.text)]
			r, _ := resentCopies(ll.delivered, sec.text)
			if n > 1 || r > 1 {
				olog.viol("C18", "text-transmitted-more-than-once", fmt.Sprintf("queued-then-send: text %q (sent while %s) was delivered %d times and %d times as resent", sec.text, sec.why, n, r))
			}
			if where := leaks(sec.text, s.wire[sec.from:]); where != "" {
				olog.viol("C03", "text-readable-on-the-wire", fmt.Sprintf("queued-then-send: text %q passed to Send while %s appears %s", sec.text, sec.why, where))
			}
		}
	}
}

// C03 / C18: the peer ends the conversation (we are finished), carries on in plaintext and — its policy
// SEND_WHITESPACE_TAG — tags that text; our policy WHITESPACE_START_AKE answers the tag with a D-H Commit.
// Until that key exchange has completed, or the user has called End, the conversation is still the one the
// peer ended: Send refuses and emits nothing of the text. Send is tried right after the D-H Commit went
// out and again after each further message of the handshake.
func (g *gen) peerEndsThenTag(w *world, k int) {
	w.parties = map[string]*party{}
	w.dead = false
	base := []int{2, 4, 6}[k%3]
	pa, pb := base|16, base|32 // a: the peer that ends and tags; b: we
	if g.r.Intn(3) == 0 {
		pa |= 32
	}
	if g.r.Intn(3) == 0 {
		pa |= 64
	}
	if g.r.Intn(3) == 0 {
		pb |= 16
	}
	if g.r.Intn(3) == 0 {
		pb |= 64
	}
	a := w.newParty(partyCfg{policies: pa, keyIdx: 0, fragSize: g.fragSize(), errh: g.r.Intn(2) == 0})
	b := w.newParty(partyCfg{policies: pb, keyIdx: 1, fragSize: g.fragSize(), errh: g.r.Intn(2) == 0})
	ll := &lcLink{link: &link{w: w, a: a, b: b}, sa: &lcSide{p: a, pol: pa}, sb: &lcSide{p: b, pol: pb}, delivered: map[string]int{}, g: g}
	// first conversation: from a query of either side, or from a's tagged plaintext
	start := g.r.Intn(3)
	switch start {
	case 0, 1:
		p := []*party{a, b}[start]
		q := w.query(p)
		ll.side(p).wire = append(ll.side(p).wire, q)
		ll.enqueue(p, []otr3.ValidMessage{q})
	default:
		ll.sendText(a, g.cleanText())
	}
	ll.settle()
	if !a.c.IsEncrypted() || !b.c.IsEncrypted() || w.dead {
		g.dist["lifecycle-peer-ends-then-tag:no-first-session"]++
		return
	}
	for i := g.r.Intn(3); i > 0; i-- {
		ll.sendText([]*party{a, b}[g.r.Intn(2)], g.lcText())
		ll.settle()
	}
	ll.endSession(a)
	ll.settle()
	if g.r.Intn(2) == 0 {
		ll.sendText(b, g.lcText()) // plainly finished: refused
	}
	tagged := g.cleanText()
	ll.sendText(a, tagged)
	hist := fmt.Sprintf("peer-ends-then-tag (allowed versions mask %d, our policies %d, peer policies %d; first session started by %s): encrypted, the peer ended, its tagged plaintext %.24q arrived", base, pb, pa, []string{"the peer's query", "our query", "the peer's whitespace tag"}[start], tagged)
	ll.hist = hist + ": "
	// the tagged plaintext reaches us: the D-H Commit goes out
	sent := len(ll.sb.wire)
	ll.deliverOne(true)
	if len(ll.sb.wire) == sent || b.c.IsEncrypted() || w.dead {
		g.dist["lifecycle-peer-ends-then-tag:no-commit"]++
		return
	}
	g.dist["lifecycle-peer-ends-then-tag:send-after-commit"]++
	ll.hist = hist + ", our D-H Commit went out: "
	ll.sendText(b, g.lcText())
	ended := false
	if g.r.Intn(5) == 0 {
		// the user gives the old conversation up: plaintext from here on, by the user's own decision
		ll.endSession(b)
		ll.hist = hist + ", our D-H Commit went out, End was called: "
		ll.sendText(b, g.lcText())
		ended = true
		g.dist["lifecycle-peer-ends-then-tag:user-ends-midway"]++
	}
	// the rest of the handshake, one wire message at a time; a Send after each of our handshake messages
	for i, msgs := 0, 0; i < 400 && !b.c.IsEncrypted() && (len(ll.qab) > 0 || len(ll.qba) > 0) && !w.dead; i++ {
		if len(ll.qba) > 0 {
			ll.deliverOne(false)
			if !ended && g.r.Intn(4) == 0 {
				ll.hist = hist + fmt.Sprintf(", our D-H Commit went out, %d more message(s) of ours followed, the exchange has not completed: ", msgs)
				ll.sendText(b, g.lcText())
			}
			continue
		}
		sent = len(ll.sb.wire)
		ll.deliverOne(true)
		if b.c.IsEncrypted() {
			break
		}
		if len(ll.sb.wire) > sent {
			msgs++
		}
		if !ended && (len(ll.sb.wire) > sent || g.r.Intn(3) == 0) {
			ll.hist = hist + fmt.Sprintf(", our D-H Commit went out, %d more message(s) of ours followed, the exchange has not completed: ", msgs)
			ll.sendText(b, g.lcText())
			g.dist["lifecycle-peer-ends-then-tag:send-during-handshake"]++
		}
	}
	ll.hist = ""
	if b.c.IsEncrypted() {
		g.dist["lifecycle-peer-ends-then-tag:second-session"]++
	}
	// the new conversation (if any): ordinary traffic
	for i := 1 + g.r.Intn(2); i > 0 && !w.dead; i-- {
		ll.sendText([]*party{b, a}[g.r.Intn(2)], g.lcText())
		ll.settle()
	}
	ll.settle()
	for _, s := range []*lcSide{ll.sa, ll.sb} {
		for _, sec := range s.secrets {
			olog.ok("C18")
			olog.ok("C03")
			n := ll.delivered[string(sec.text)]
			r, _ := resentCopies(ll.delivered, sec.text)
			if n > 1 || r > 1 {
				olog.viol("C18", "text-transmitted-more-than-once", fmt.Sprintf("%s: text %q (sent while %s) was delivered %d times and %d times as resent", hist, sec.text, sec.why, n, r))
			}
			if where := leaks(sec.text, s.wire[sec.from:]); where != "" {
				olog.viol("C03", "text-readable-on-the-wire", fmt.Sprintf("%s; then %s's text %q passed to Send while %s appears %s", hist, s.p.id, sec.text, sec.why, where))
			}
		}
	}
}

// short directed histories around the retransmission state machine: every sequence over a small
// alphabet of lifecycle operations (sampled in the quick tier, enumerated in the thorough tier)
func (g *gen) lifecycleMotif(w *world, seq []int, reqEnc bool, version int) {
	g.lifecycleMotifKey(w, seq, reqEnc, version)
}

// runs the history, the final probe send and the oracles; returns the abstract state reached BEFORE the probe
func (g *gen) lifecycleMotifKey(w *world, seq []int, reqEnc bool, version int) string {
	base := 2
	if version == 3 {
		base = 4
	}
	pa := base | 64
	if reqEnc {
		pa |= 8
	}
	return g.lifecycleMotifPol(w, seq, reqEnc, pa, base)
}

// the same under given policy sets: pa for the side that acts (a), pb for its peer
func (g *gen) lifecycleMotifPol(w *world, seq []int, reqEnc bool, pa, pb int) string {
	w.parties = map[string]*party{}
	w.dead = false
	a := w.newParty(partyCfg{policies: pa, keyIdx: 0, errh: true})
	b := w.newParty(partyCfg{policies: pb, keyIdx: 1, errh: true})
	ll := &lcLink{link: &link{w: w, a: a, b: b}, sa: &lcSide{p: a, pol: pa}, sb: &lcSide{p: b, pol: pb}, delivered: map[string]int{}, g: g}
	ll.hist = fmt.Sprintf("history %v (policies %d, peer %d): ", seq, pa, pb)
	q := w.query(a)
	ll.sa.wire = append(ll.sa.wire, q)
	ll.enqueue(a, []otr3.ValidMessage{q})
	ll.settle()
	for _, op := range seq {
		if w.dead {
			break
		}
		switch op {
		case 0:
			ll.sendText(a, g.lcText())
		case 1:
			ll.call(a, func() ([]otr3.ValidMessage, []byte) {
				plain, ts, _, _ := w.recv(a, []byte("?OTR Error: unreadable"))
				return ts, plain
			})
		case 2:
			ll.endSession(a)
		case 3:
			ll.endSession(b)
		case 4:
			ll.settle()
		case 5:
			ll.sendText(b, g.lcText())
		case 6:
			w.tick(120)
		case 7:
			// the peer's text and ours cross: its message reaches us, whatever we answer to it is still
			// on its way when our user sends
			ll.sendText(b, g.lcText())
			ll.deliverOne(false)
			ll.sendText(a, g.lcText())
		}
	}
	ll.settle()
	key := lcAbstract(a, b)
	if w.dead {
		key = ""
	}
	ll.sendText(a, g.lcText())
	ll.settle()
	defer func() {}()
	for _, s := range []*lcSide{ll.sa, ll.sb} {
		for _, sec := range s.secrets {
			olog.ok("C18")
			olog.ok("C03")
			n := ll.delivered[string(sec.text)]
			r, deep := resentCopies(ll.delivered, sec.text)
			if deep > 0 {
				olog.viol("C18", "text-resent-twice", fmt.Sprintf("history %v (requireEncryption=%v): text %q (sent while %s) was delivered %d times, %d times as resent, of which %d times with the resend mark more than once", seq, reqEnc, sec.text, sec.why, n, r, deep))
			} else if n > 1 || r > 1 || n+r > 1 && sec.why != "encrypted" {
				olog.viol("C18", "text-transmitted-more-than-once", fmt.Sprintf("history %v (requireEncryption=%v): text %q (sent while %s) was delivered %d times and %d times as resent", seq, reqEnc, sec.text, sec.why, n, r))
			}
			if where := leaks(sec.text, s.wire[sec.from:]); where != "" {
				olog.viol("C03", "text-readable-on-the-wire", fmt.Sprintf("history %v (policies %d, peer %d): text %q passed to Send while %s appears %s", seq, pa, pb, sec.text, sec.why, where))
			}
		}
	}
	return key
}

// abstract view of a two-party state used to steer the exploration of lifecycle histories
func lcAbstract(a, b *party) string {
	f := func(p *party) string {
		s := otr3.VerifSnapshot(p.c)
		rs := len(s.Resend)
		if rs > 2 {
			rs = 2
		}
		return fmt.Sprintf("%d/%d/%d/%d/%v", s.MsgState, s.MayRetx, rs, s.Whitespace, s.HasAke)
	}
	return f(a) + "|" + f(b)
}

// breadth-first exploration of operation sequences (network settles after every operation), extending
// only sequences that reached a not yet seen abstract state: systematic cover of the lifecycle /
// retransmission state machine instead of sampling it
func (g *gen) lifecycleBFS(w *world, budget int, reqEnc bool, version int, ws bool) int {
	type node struct{ seq []int }
	seen := map[string]bool{}
	frontier := []node{{nil}}
	runs := 0
	ops := []int{0, 1, 2, 3, 5, 6}
	if ws {
		// whitespace tags: the peer tags its plaintext, we answer a tag with a key exchange; and the
		// peer's text may cross with ours (7), so that a Send falls into a key exchange under way
		ops = []int{3, 7, 0, 1, 2, 5, 6}
	}
	for len(frontier) > 0 && runs < budget {
		var next []node
		for _, nd := range frontier {
			for _, op := range ops {
				if runs >= budget {
					break
				}
				seq := append(append([]int{}, nd.seq...), op)
				full := make([]int, 0, 2*len(seq))
				for _, o := range seq {
					full = append(full, o, 4)
				}
				var key string
				if ws {
					base := map[int]int{2: 2, 3: 4}[version]
					pa := base | 64 | 32
					if reqEnc {
						pa |= 8
					}
					key = g.lifecycleMotifPol(w, full, reqEnc, pa, base|16)
				} else {
					key = g.lifecycleMotifKey(w, full, reqEnc, version)
				}
				runs++
				if key != "" && !seen[key] {
					seen[key] = true
					next = append(next, node{seq})
				}
			}
		}
		frontier = next
	}
	g.dist[fmt.Sprintf("lifecycle-bfs:abstract-states(req=%v,v%d%s)", reqEnc, version, map[bool]string{true: ",whitespace"}[ws])] = len(seen)
	return runs
}


// C20 / C18: an EMPTY text is queued under required encryption; the randomness source fails in the very call that
// completes the key exchange (the session is encrypted, the release of the queue is skipped); the peer — restarted —
// reports a message unreadable and the key exchange this triggers retransmits the empty text with the resend mark.
// The mark must arrive as it is, and (generic check in main.go) no package level value may have changed: with an
// empty text `append(prefix, text...)` is the package-level prefix itself, and whoever erases "the marked copy"
// erases the prefix for every conversation of the process.
func (g *gen) emptyQueuedResent(w *world, k int) {
	w.parties = map[string]*party{}
	w.dead = false
	version := 2 + k%2
	pol := 2
	if version == 3 {
		pol = 4
	}
	a := w.newParty(partyCfg{policies: pol | 8 | 64, keyIdx: 0, errh: true})
	b := w.newParty(partyCfg{policies: pol, keyIdx: 1, errh: true})
	l := &link{w: w, a: a, b: b}
	g.dist["lifecycle-empty-queued-resent"]++
	w.send(a, []byte{}) // queued; the query it returns is lost
	// the peer asks first, so that a is the side that completes the exchange on the Signature message
	l.enqueue(b, []otr3.ValidMessage{w.query(b)})
	// run the key exchange until b is encrypted and its Signature message is the next thing a receives
	for i := 0; i < 40 && !b.c.IsEncrypted() && !w.dead; i++ {
		if !l.deliver(true) {
			l.deliver(false)
		}
	}
	if !b.c.IsEncrypted() || a.c.IsEncrypted() || len(l.qba) == 0 || w.dead {
		g.dist["lifecycle-empty-queued-resent:no-handshake"]++
		return
	}
	a.rnd.failAt = a.rnd.reads // the draw of the next DH key after the exchange has completed
	l.deliver(false)
	a.rnd.failAt = -1
	if !a.c.IsEncrypted() || w.dead {
		g.dist["lifecycle-empty-queued-resent:not-encrypted-after-failure"]++
		return
	}
	bTag := otr3.VerifSnapshot(b.c).OurTag
	b2 := w.newParty(partyCfg{policies: pol, keyIdx: 1, errh: true, tag: bTag})
	l2 := &link{w: w, a: a, b: b2}
	w.tick(75)
	_, back, _, _ := w.recv(a, []byte("?OTR Error: You sent an encrypted message, but we are not in a private conversation"))
	l2.enqueue(a, back)
	l2.settle(60)
	if w.dead || !a.c.IsEncrypted() || !b2.c.IsEncrypted() {
		g.dist["lifecycle-empty-queued-resent:no-second-exchange"]++
		return
	}
	olog.ok("C18")
	olog.ok("C20")
	for _, p := range b2.received {
		if len(p) > 0 && !bytes.Equal(p, []byte("[resent] ")) && bytes.Count(p, []byte{0}) == len(p) {
			olog.viol("C20", "resend-mark-erased", fmt.Sprintf("OTRv%d: the retransmission of an empty text reached the peer as %q instead of \"[resent] \"", version, p))
		}
	}
	// a second, unrelated pair of the same process: its retransmission must carry the mark
	g.peerRestart(w)
}

// C18 / C13: the randomness source fails exactly in the call that receives the peer's disconnect, and that
// message asks for a key rotation (the peer has seen our newest key). The message is authentic and accepted:
// whatever the rotation does, the conversation has ended — it must not stay encrypted towards a peer that left.
func (g *gen) disconnectUnderRandFailure(w *world, k int) {
	w.parties = map[string]*party{}
	w.dead = false
	version := 2 + k%2
	pol := 2
	if version == 3 {
		pol = 4
	}
	a := w.newParty(partyCfg{policies: pol, keyIdx: 0, errh: k%4 < 2})
	b := w.newParty(partyCfg{policies: pol, keyIdx: 1, errh: true})
	l := &link{w: w, a: a, b: b}
	l.enqueue(b, []otr3.ValidMessage{w.query(b)})
	l.settle(40)
	if !a.c.IsEncrypted() || !b.c.IsEncrypted() || w.dead {
		return
	}
	g.dist["lifecycle-disconnect-under-rand-failure"]++
	// a few rounds so that the peer's next message acknowledges our newest key (a rotation is due on receipt)
	for i := 0; i < 1+k%3; i++ {
		ts, _ := w.send(a, g.cleanText())
		l.enqueue(a, ts)
		l.settle(10)
		if i < k%3 {
			ts, _ = w.send(b, g.cleanText())
			l.enqueue(b, ts)
			l.settle(10)
		}
	}
	ts, _ := w.end(b)
	l.enqueue(b, ts)
	a.rnd.failAt = a.rnd.reads
	l.settle(5)
	a.rnd.failAt = -1
	if w.dead {
		return
	}
	olog.ok("C18")
	olog.ok("C13")
	if a.c.IsEncrypted() {
		olog.viol("C18", "peer-disconnect-lost", fmt.Sprintf("OTRv%d: the peer ended the conversation; the call that received its disconnect message could not draw randomness for the key rotation the message asked for; the conversation is still encrypted (towards a peer that has left)", version))
		olog.viol("C13", "randomness-failure-loses-disconnect", fmt.Sprintf("OTRv%d: a failing randomness read while the peer's disconnect is received leaves the conversation encrypted", version))
	}
}

// C18: the randomness source fails in the very call that completes the key exchange (the side is encrypted, GoneSecure
// was raised, but it may hold no key to send with until the peer speaks). Whatever else fails, End() ends the
// conversation: not encrypted afterwards, and Send follows the plaintext policy again (the text goes out as it is).
// Sweep: the d-th delivery to a, the j-th randomness read of that call; the combinations that leave a encrypted with
// an error returned are the ones judged.
func (g *gen) endAfterFailedCompletion(w *world, k int) {
	version := 2 + k%2
	pol := 2
	if version == 3 {
		pol = 4
	}
	for d := 0; d < 3; d++ {
		for j := 0; j < 3; j++ {
			w.parties = map[string]*party{}
			w.dead = false
			a := w.newParty(partyCfg{policies: pol, keyIdx: 0, errh: (k+j)%2 == 0})
			b := w.newParty(partyCfg{policies: pol, keyIdx: 1, errh: true})
			l := &link{w: w, a: a, b: b}
			if (k/2)%2 == 0 {
				l.enqueue(b, []otr3.ValidMessage{w.query(b)}) // a completes on the Signature message
			} else {
				l.enqueue(a, []otr3.ValidMessage{w.query(a)}) // a completes on the Reveal Signature message
			}
			toA := 0
			var failedErr error
			for i := 0; i < 40 && (len(l.qab) > 0 || len(l.qba) > 0) && !w.dead; i++ {
				if len(l.qab) > 0 {
					l.deliver(true)
				}
				if len(l.qba) > 0 {
					if toA == d {
						a.rnd.failAt = a.rnd.reads + j
						m := l.qba[0]
						l.qba = l.qba[1:]
						_, ts, err, _ := w.recv(a, m)
						l.enqueue(a, ts)
						failedErr = err
						a.rnd.failAt = -1
						toA++
						break
					}
					l.deliver(false)
					toA++
				}
			}
			if w.dead || failedErr == nil || !a.c.IsEncrypted() {
				continue
			}
			g.dist["lifecycle-end-after-failed-completion"]++
			w.end(a)
			olog.ok("C18")
			if a.c.IsEncrypted() {
				olog.viol("C18", "end-leaves-session-open", fmt.Sprintf("OTRv%d: the randomness source failed in the call that completed the key exchange (delivery %d to this side, read %d of the call: %v); the side is encrypted; End() was called and the conversation is still encrypted", version, d, j, failedErr))
				continue
			}
			text := g.cleanText()
			ts, err := w.send(a, text)
			if err != nil || len(ts) != 1 || !bytes.HasPrefix(ts[0], text) {
				olog.viol("C18", "send-after-end-not-plain", fmt.Sprintf("OTRv%d: after End() (following a key exchange whose completing call could not draw randomness) Send(%q) returned %d messages, err %v — the plaintext policy says the text goes out as it is", version, text, len(ts), err))
			}
		}
	}
}

// C18: the peer loses its state (the client was restarted; same key, same instance tag), reports our
// last message unreadable, and the key exchange this triggers brings the message to it once, marked
func (g *gen) peerRestart(w *world) {
	w.parties = map[string]*party{}
	w.dead = false
	version := 2 + g.r.Intn(2)
	pol := 2
	if version == 3 {
		pol = 4
	}
	a := w.newParty(partyCfg{policies: pol | 64, keyIdx: 0, errh: true})
	b := w.newParty(partyCfg{policies: pol, keyIdx: 1, errh: true})
	l := &link{w: w, a: a, b: b}
	l.enqueue(a, []otr3.ValidMessage{w.query(a)})
	l.settle(40)
	if !a.c.IsEncrypted() || !b.c.IsEncrypted() || w.dead {
		return
	}
	ts, _ := w.send(a, g.cleanText())
	l.enqueue(a, ts)
	l.settle(10)
	bTag := otr3.VerifSnapshot(b.c).OurTag
	b2 := w.newParty(partyCfg{policies: pol, keyIdx: 1, errh: true, tag: bTag})
	l2 := &link{w: w, a: a, b: b2}
	w.tick(75)
	text := g.cleanText()
	ts, _ = w.send(a, text)
	l2.enqueue(a, ts)
	l2.settle(10)
	// (the library itself stays silent about a data message it has no session for; other clients
	// answer with an error message, which is what a receives here)
	_, back, _, _ := w.recv(a, []byte("?OTR Error: You sent an encrypted message, but we are not in a private conversation"))
	l2.enqueue(a, back)
	l2.settle(60)
	olog.ok("C18")
	want := append([]byte("[resent] "), text...)
	marked, unmarked := 0, 0
	for _, p := range b2.received {
		if bytes.Equal(p, want) {
			marked++
		}
		if bytes.Equal(p, text) {
			unmarked++
		}
	}
	if !a.c.IsEncrypted() || !b2.c.IsEncrypted() {
		olog.viol("C07", "exchange-does-not-complete", fmt.Sprintf("OTRv%d: after the peer restarted and reported a message unreadable the key exchange did not complete", version))
		return
	}
	if marked != 1 || unmarked != 0 {
		olog.viol("C18", "unreadable-message-not-resent-once", fmt.Sprintf("OTRv%d: the peer restarted, reported %q unreadable and a new key exchange completed; it was handed the marked text %d times and the unmarked text %d times", version, text, marked, unmarked))
		return
	}
	// the retransmission consumed what was remembered: further error reports, each followed by a
	// completed refresh of the keys, bring nothing of it to the peer again (a does not Send meanwhile)
	cycles := 1 + g.r.Intn(2)
	for cy := 1; cy <= cycles && !w.dead; cy++ {
		// (a query right after a key exchange is ignored for a minute)
		wait := []int{75, 90, 120, 3600}[g.r.Intn(4)]
		w.tick(wait)
		peerSpoke := g.r.Intn(3) == 0
		if peerSpoke {
			ts, _ := w.send(b2, g.cleanText())
			l2.enqueue(b2, ts)
			l2.settle(10)
		}
		before := len(b2.received)
		ssidBefore := otr3.VerifSnapshot(a.c).SSID
		report := []string{"?OTR Error: unreadable", "?OTR Error: You sent an encrypted message, but we are not in a private conversation"}[g.r.Intn(2)]
		_, back, _, _ := w.recv(a, []byte(report))
		l2.enqueue(a, back)
		l2.settle(60)
		if w.dead {
			return
		}
		olog.ok("C18")
		refreshed := a.c.IsEncrypted() && b2.c.IsEncrypted() && !bytes.Equal(otr3.VerifSnapshot(a.c).SSID, ssidBefore)
		var again [][]byte
		for _, p := range b2.received[before:] {
			if bytes.HasSuffix(p, text) {
				again = append(again, p)
			}
		}
		if len(again) > 0 {
			olog.viol("C18", "text-resent-twice", fmt.Sprintf("OTRv%d: Send(%q) once; the restarted peer reported it unreadable, the keys were refreshed and it received %q; %d s later (peer sent a text in between: %v, no Send by the local user) error report no. %d %q arrived (keys refreshed again: %v) and the peer was handed %q on top", version, text, want, wait, peerSpoke, cy+1, report, refreshed, again))
			return
		}
	}
}

func init() {
	profiles["lifecyclebfs"] = func(seed int64, n int, out *emitter, extra map[string]interface{}) map[string]int {
		g := &gen{r: rand.New(rand.NewSource(seed)), out: out, dist: map[string]int{}}
		olog = &oracleLog{checked: map[string]int{}, out: out}
		w := newWorld(g)
		for i := 0; i < 2+n/100; i++ {
			g.queuedThenSend(w)
		}
		runs := g.lifecycleBFS(w, n/2, true, 3, false)
		runs += g.lifecycleBFS(w, n/4, false, 3, false)
		runs += g.lifecycleBFS(w, n/4, true, 2, false)
		runs += g.lifecycleBFS(w, 10+n/30, false, 2+int(seed&1), true)
		extra["histories"] = runs
		extra["panics"] = panicCount
		olog.export(extra)
		return g.dist
	}
	profiles["lifecyclex"] = func(seed int64, n int, out *emitter, extra map[string]interface{}) map[string]int {
		g := &gen{r: rand.New(rand.NewSource(seed)), out: out, dist: map[string]int{}}
		olog = &oracleLog{checked: map[string]int{}, out: out}
		w := newWorld(g)
		// all sequences of length L over 7 operations, L as large as the budget n allows
		L := 1
		for p := 7; p*7 <= n/2 && L < 6; p *= 7 {
			L++
		}
		count := 0
		var rec func(seq []int)
		rec = func(seq []int) {
			if len(seq) == L {
				g.lifecycleMotif(w, seq, count%2 == 0, 2+count%2)
				g.lifecycleMotif(w, seq, count%2 == 1, 2+(count/2)%2)
				count++
				return
			}
			for op := 0; op < 7; op++ {
				rec(append(append([]int{}, seq...), op))
			}
		}
		rec(nil)
		extra["exhaustive_history_length"] = L
		extra["histories"] = count * 2
		extra["panics"] = panicCount
		olog.export(extra)
		return g.dist
	}
	profiles["lifecycle"] = func(seed int64, n int, out *emitter, extra map[string]interface{}) map[string]int {
		g := &gen{r: rand.New(rand.NewSource(seed)), out: out, dist: map[string]int{}}
		olog = &oracleLog{checked: map[string]int{}, out: out}
		w := newWorld(g)
		for i := 0; i < n; i++ {
			g.lifecycleScenario(w, 30+g.r.Intn(50))
			if i%3 == 0 {
				g.peerRestart(w)
			}
			if i%2 == 0 {
				g.queuedThenSend(w)
			}
			// plus sampled directed histories of length 4..6
			for k := 0; k < 3; k++ {
				seq := make([]int, 4+g.r.Intn(3))
				for j := range seq {
					seq[j] = g.r.Intn(7)
				}
				g.lifecycleMotif(w, seq, g.r.Intn(2) == 0, 2+g.r.Intn(2))
			}
		}
		// directed: Send while our answer to the whitespace tag of a peer that ended the conversation is
		// under way (after the random part, whose draws stay what they were)
		for k := 0; k < 3+n/5; k++ {
			g.peerEndsThenTag(w, k)
		}
		for k := 0; k < 2+n/8; k++ {
			g.emptyQueuedResent(w, k)
		}
		for k := 0; k < 4+n/4; k++ {
			g.disconnectUnderRandFailure(w, k)
		}
		for k := 0; k < 4; k++ {
			g.endAfterFailedCompletion(w, k)
		}
		extra["panics"] = panicCount
		olog.export(extra)
		return g.dist
	}
}

// texts for lifecycle histories: mostly ordinary, sometimes starting like an OTR message (a query, an
// error, an encoded message, a fragment) — what the user types is user text whatever it looks like
func (g *gen) lcText() []byte {
	if g.r.Intn(7) != 0 {
		return g.cleanText()
	}
	pre := []string{"?OTRv3? ", "?OTRv23? ", "?OTR? ", "?OTR?v2? ", "?OTRv2? ", "?OTR Error: ", "?OTR:AAMD", "?OTR|00000100|00000101,00001,00002,", "?OTR,00001,00002,", "?OTR "}[g.r.Intn(10)]
	return append([]byte(pre), g.cleanText()...)
}
