package main

// Profile "lifecycle" (C18, C03): whole-session lifecycle histories on a reliable network under
// random policy sets: start / complete / abandon AKE, Send, End, peer End, peer error message,
// refresh while encrypted. Oracles: security events exactly on the transitions of IsEncrypted;
// Send refuses in the finished state; each text is transmitted at most once (plus at most one
// marked resend), queued texts exactly once and in order; no text that was due for encryption
// ever appears on the wire in readable form (raw, inside base64 armour, across fragments).

import (
	"bytes"
	"fmt"
	"math/rand"
	"strings"

	otr3 "github.com/coyim/otr3"
)

type lcSide struct {
	p       *party
	pol     int
	wire    [][]byte // everything this side ever emitted, in order
	secrets []lcSecret
	queued  [][]byte // texts queued under require-encryption, in order
}

type lcSecret struct {
	text []byte
	from int // index into wire at the time of the Send
	why  string
}

type lcLink struct {
	*link
	sa, sb    *lcSide
	delivered map[string]int // plaintexts returned by either Receive
	order     [][]byte       // delivery order at each side is checked through `queued`
	g         *gen
}

func (ll *lcLink) side(p *party) *lcSide {
	if p == ll.a {
		return ll.sa
	}
	return ll.sb
}

// run one API call on p with the security-event oracle around it
func (ll *lcLink) call(p *party, f func() ([]otr3.ValidMessage, []byte)) []otr3.ValidMessage {
	before := p.c.IsEncrypted()
	ts, plain := f()
	after := p.c.IsEncrypted()
	evs := lastEvents
	olog.ok("C18")
	gs, gi, ss := strings.Contains(evs, "sec:1"), strings.Contains(evs, "sec:0"), strings.Contains(evs, "sec:2")
	desc := fmt.Sprintf("%s: encrypted %v -> %v with events %s", p.id, before, after, evs)
	if !before && after != gs && !ll.w.dead {
		olog.viol("C18", "gone-secure-event-mismatch", desc)
	}
	if before && !after != gi && !ll.w.dead {
		olog.viol("C18", "gone-insecure-event-mismatch", desc)
	}
	if gs && !(!before && after) || gi && !(before && !after) || ss && !(before && after) {
		olog.viol("C18", "security-event-without-transition", desc)
	}
	s := ll.side(p)
	for _, t := range ts {
		s.wire = append(s.wire, append([]byte{}, t...))
	}
	if plain != nil {
		ll.delivered[string(plain)]++
		// queued texts of the peer must come out in order
		peer := ll.sb
		if p == ll.b {
			peer = ll.sa
		}
		for i, q := range peer.queued {
			if bytes.Equal(q, plain) {
				if i != 0 {
					olog.viol("C18", "queued-out-of-order", fmt.Sprintf("queued text %q delivered before %d earlier queued text(s)", plain, i))
				}
				peer.queued = append(peer.queued[:i:i], peer.queued[i+1:]...)
				break
			}
		}
	}
	ll.enqueue(p, ts)
	return ts
}

func (ll *lcLink) sendText(p *party, text []byte) {
	s := ll.side(p)
	st := otr3.VerifSnapshot(p.c).MsgState
	enabled := s.pol&6 != 0
	why := ""
	switch {
	case !enabled:
	case st == 1:
		why = "encrypted"
	case st == 2:
		why = "finished"
	case st == 0 && s.pol&8 != 0:
		why = "require-encryption"
	}
	from := len(s.wire)
	var err error
	ts := ll.call(p, func() ([]otr3.ValidMessage, []byte) {
		var ts []otr3.ValidMessage
		ts, err = ll.w.send(p, text)
		return ts, nil
	})
	if why != "" {
		s.secrets = append(s.secrets, lcSecret{text, from, why})
	}
	if why == "finished" {
		olog.ok("C18")
		if err == nil {
			olog.viol("C18", "send-accepted-while-finished", fmt.Sprintf("%s: Send succeeded in the finished state", p.id))
		}
		for _, t := range ts {
			if !isErrorReply(t) {
				olog.viol("C18", "send-emits-while-finished", fmt.Sprintf("%s: Send in the finished state emitted %.60q", p.id, t))
			}
		}
	}
	if why == "require-encryption" && err == nil {
		s.queued = append(s.queued, text)
	}
}

func (ll *lcLink) deliverOne(toB bool) bool {
	q, p := &ll.qab, ll.b
	if !toB {
		q, p = &ll.qba, ll.a
	}
	if len(*q) == 0 {
		return false
	}
	m := (*q)[0]
	*q = (*q)[1:]
	ll.call(p, func() ([]otr3.ValidMessage, []byte) {
		plain, ts, _, _ := ll.w.recv(p, m)
		return ts, plain
	})
	return true
}

func (ll *lcLink) settle() {
	for i := 0; i < 3000 && (len(ll.qab) > 0 || len(ll.qba) > 0) && !ll.w.dead; i++ {
		ll.deliverOne(true)
		ll.deliverOne(false)
	}
}

// is `text` readable in the wire messages ms (raw, inside base64 bodies, across fragments)?
func leaks(text []byte, ms [][]byte) string {
	var vm []otr3.ValidMessage
	for _, m := range ms {
		if bytes.Contains(m, text) {
			return fmt.Sprintf("raw in %.50q", m)
		}
		vm = append(vm, otr3.ValidMessage(m))
	}
	for _, whole := range reassembleAll(vm) {
		if bytes.Contains(whole, text) {
			return fmt.Sprintf("across fragments of %.40q", whole)
		}
		if bin := decodeWire(whole); bin != nil && bytes.Contains(bin, text) {
			return fmt.Sprintf("inside the base64 body of %.40q", whole)
		}
	}
	return ""
}

func (g *gen) lifecycleScenario(w *world, steps int) {
	w.parties = map[string]*party{}
	w.dead = false
	common := []int{2, 4, 6}[g.r.Intn(3)]
	extraBits := func() int {
		p := 0
		for _, b := range []int{8, 16, 32, 64} {
			if g.r.Intn(3) == 0 {
				p |= b
			}
		}
		return p
	}
	pa, pb := common|extraBits(), common|extraBits()
	a := w.newParty(partyCfg{policies: pa, keyIdx: 0, fragSize: g.fragSize(), errh: g.r.Intn(2) == 0})
	b := w.newParty(partyCfg{policies: pb, keyIdx: 1, fragSize: g.fragSize(), errh: g.r.Intn(2) == 0})
	ll := &lcLink{link: &link{w: w, a: a, b: b}, sa: &lcSide{p: a, pol: pa}, sb: &lcSide{p: b, pol: pb}, delivered: map[string]int{}, g: g}
	ps := []*party{a, b}
	for i := 0; i < steps && !w.dead; i++ {
		p := ps[g.r.Intn(2)]
		switch k := g.r.Intn(30); {
		case k < 10:
			ll.sendText(p, g.cleanText())
		case k < 18:
			ll.deliverOne(g.r.Intn(2) == 0)
		case k < 21:
			ll.settle()
		case k < 23:
			ll.call(p, func() ([]otr3.ValidMessage, []byte) { ts, _ := w.end(p); return ts, nil })
		case k < 25:
			q := w.query(p)
			ll.side(p).wire = append(ll.side(p).wire, q)
			ll.enqueue(p, []otr3.ValidMessage{q})
		case k < 27:
			w.tick([]int{31, 61, 120, 3600}[g.r.Intn(4)])
		default:
			// the peer reports that it could not read our last message
			ll.call(p, func() ([]otr3.ValidMessage, []byte) {
				plain, ts, _, _ := w.recv(p, []byte("?OTR Error: unreadable"))
				return ts, plain
			})
		}
	}
	ll.settle()
	// transmission discipline, counted where it matters: at the receiving user
	for _, s := range []*lcSide{ll.sa, ll.sb} {
		for _, sec := range s.secrets {
			olog.ok("C18")
			olog.ok("C03")
			n := ll.delivered[string(sec.text)]
			r := ll.delivered["[resent] "+string(sec.text)]
			if n > 1 || r > 1 {
				olog.viol("C18", "text-transmitted-more-than-once", fmt.Sprintf("text %q (sent while %s) was delivered %d times and %d times as resent", sec.text, sec.why, n, r))
			}
			if where := leaks(sec.text, s.wire[sec.from:]); where != "" {
				olog.viol("C03", "text-readable-on-the-wire", fmt.Sprintf("text %q passed to Send while %s appears %s", sec.text, sec.why, where))
			}
		}
	}
}

func init() {
	profiles["lifecycle"] = func(seed int64, n int, out *emitter, extra map[string]interface{}) map[string]int {
		g := &gen{r: rand.New(rand.NewSource(seed)), out: out, dist: map[string]int{}}
		olog = &oracleLog{checked: map[string]int{}, out: out}
		w := newWorld(g)
		for i := 0; i < n; i++ {
			g.lifecycleScenario(w, 30+g.r.Intn(50))
		}
		extra["panics"] = panicCount
		olog.export(extra)
		return g.dist
	}
}
