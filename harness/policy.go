package main

// Profile "policy" (C16): the two-party outcome over pairs of policy sets and offer forms,
// and byte-exact pass-through of plain text.

import (
	"bytes"
	"fmt"
	"math/rand"

	otr3 "github.com/coyim/otr3"
)

func allowedVersions(p int) []int {
	var v []int
	if p&2 != 0 {
		v = append(v, 2)
	}
	if p&4 != 0 {
		v = append(v, 3)
	}
	return v
}

func maxCommon(pa, pb int) int {
	if pa&4 != 0 && pb&4 != 0 {
		return 3
	}
	if pa&2 != 0 && pb&2 != 0 {
		return 2
	}
	return 0
}

func versionAllowed(p *party, pol int, where string) {
	v := otr3.VerifSnapshot(p.c).Version
	if v == 0 {
		return
	}
	if v == 2 && pol&2 == 0 || v == 3 && pol&4 == 0 {
		olog.viol("C16", "forbidden-version-committed", fmt.Sprintf("%s: conversation with policy %d committed to version %d", where, pol, v))
	}
}

// version field of an encoded message, 0 if not an encoded message
func wireVersion(m []byte) int {
	bin := decodeWire(m)
	if len(bin) < 3 {
		return 0
	}
	return int(bin[0])<<8 | int(bin[1])
}

// Versions offered by a query message as the protocol document reads it: "?OTR", an optional '?'
// (version 1), an optional 'v' followed by the version characters up to the FIRST question mark;
// everything behind that question mark is text for the human and offers nothing. Bit 1<<v for v in
// 1..3; other version characters are unknown versions. (A list that is not closed at all is read
// to the end of the message, which is what the library has always done.)
func specQueryOffer(m []byte) int {
	if !bytes.HasPrefix(m, []byte("?OTR")) {
		return 0
	}
	rest := m[4:]
	mask := 0
	if len(rest) > 0 && rest[0] == '?' {
		mask |= 1 << 1
		rest = rest[1:]
	}
	if len(rest) > 0 && rest[0] == 'v' {
		for _, c := range rest[1:] {
			if c == '?' {
				break
			}
			if c == '2' || c == '3' {
				mask |= 1 << uint(c-'0')
			}
		}
	}
	return mask
}

// texts for the human behind a query: version digits in them, question marks behind those
var queryTrailers = []string{
	"Do you have OTR 3 yet? It is much better.",
	"Is version 2 fine with you? Mine is old.",
	"OTR 2 or 3? See https://otr.cypherpunks.ca/ for a plugin",
	"3?",
	"2?",
	"v23?",
	"I like number 3",
	"call me at 322-2323, ok?",
	"hi there",
	"what?",
}

// White space a text may begin with behind a whitespace tag without being part of the tag: its
// first 8 bytes hold at least one byte that is neither blank nor tab. Mostly whole groups of 8 bytes
// (white space characters of one to three bytes in UTF-8, never split at the 8 byte boundary).
func (g *gen) whiteLead() []byte {
	pure := func(b []byte) bool {
		for _, c := range b {
			if c != ' ' && c != '\t' {
				return false
			}
		}
		return true
	}
	runes := []string{" ", " ", "\t", "\n", "\r", "\v", "\f", "\u0085", "\u00a0", "\u2003", "\u3000"}
	group := func() []byte {
		switch g.r.Intn(6) {
		case 0:
			return []byte("\n       ")
		case 1:
			return []byte("\r\n      ")
		case 2:
			return []byte("\n\t\t\t\t\t\t\t")
		case 3:
			return []byte("\n\u3000\u3000 ")
		}
		var b []byte
		for len(b) < 8 {
			if s := runes[g.r.Intn(len(runes))]; len(b)+len(s) <= 8 {
				b = append(b, s...)
			}
		}
		return b
	}
	var lead []byte
	for len(lead) == 0 || pure(lead[:8]) {
		lead = group()
	}
	switch g.r.Intn(6) {
	case 0: // a second group, of any kind
		lead = append(lead, group()...)
	case 1: // not a whole group
		lead = lead[:1+g.r.Intn(7)]
		if pure(lead) {
			lead[0] = '\n'
		}
	}
	return lead
}

func (g *gen) policyScenario(w *world, pa, pb int, form int) {
	w.parties = map[string]*party{}
	w.dead = false
	friendly := ""
	if form == 1 && g.r.Intn(4) != 0 {
		friendly = queryTrailers[g.r.Intn(len(queryTrailers))]
	}
	a := w.newParty(partyCfg{policies: pa, keyIdx: 0, friendly: friendly})
	b := w.newParty(partyCfg{policies: pb, keyIdx: 1})
	l := &link{w: w, a: a, b: b}
	text := g.cleanText()
	if g.r.Intn(3) == 0 {
		text = append(text, []byte(" with spaces\tand tabs ")...)
	}
	if g.r.Intn(3) == 0 {
		// lengths around the size classes of the allocator (a copy of the text has spare capacity
		// there, which matters to anything that appends to it)
		n := []int{257, 289, 321, 513, 577, 641, 705, 1025}[g.r.Intn(8)] + g.r.Intn(40)
		text = make([]byte, n)
		for i := range text {
			text[i] = byte('a' + g.r.Intn(26))
		}
	}
	olog.ok("C16")
	checkWire := func(p *party, pol int, ms []otr3.ValidMessage) {
		for _, m := range reassembleAll(ms) {
			if v := wireVersion(m); v != 0 && (v == 2 && pol&2 == 0 || v == 3 && pol&4 == 0 || v != 2 && v != 3) {
				olog.viol("C16", "forbidden-version-emitted", fmt.Sprintf("%s with policy %d emitted a message of version %d", p.id, pol, v))
			}
		}
	}
	// set once an offer has gone to B: B speaks no version that was not in it
	offerMask, offerDesc := -1, ""
	checkOffered := func(ms []otr3.ValidMessage) {
		if offerMask < 0 {
			return
		}
		for _, m := range reassembleAll(ms) {
			if v := wireVersion(m); v != 0 && (v > 3 || offerMask&(1<<uint(v)) == 0) {
				olog.viol("C16", "version-not-offered", fmt.Sprintf("offer %s answered by policy %d with a version %d message", offerDesc, pb, v))
			}
		}
	}
	run := func() {
		for i := 0; i < 40 && (len(l.qab) > 0 || len(l.qba) > 0) && !w.dead; i++ {
			if len(l.qab) > 0 {
				m := l.qab[0]
				l.qab = l.qab[1:]
				_, ts, _, _ := w.recv(b, m)
				checkWire(b, pb, ts)
				checkOffered(ts)
				l.enqueue(b, ts)
				versionAllowed(b, pb, "after receive")
			}
			if len(l.qba) > 0 {
				m := l.qba[0]
				l.qba = l.qba[1:]
				_, ts, _, _ := w.recv(a, m)
				checkWire(a, pa, ts)
				l.enqueue(a, ts)
				versionAllowed(a, pa, "after receive")
			}
		}
	}
	switch form {
	case 0: // plain text first
		ts, err := w.send(a, text)
		checkWire(a, pa, ts)
		if pa&6 == 0 {
			if err != nil || len(ts) != 1 || !bytes.Equal(ts[0], text) {
				olog.viol("C16", "disabled-send-not-passthrough", fmt.Sprintf("policy %d: Send(%q) = %q, %v", pa, text, ts, err))
			}
		}
		if pa&8 == 0 || pa&6 == 0 {
			// not held back: B must see exactly the text
			for _, m := range ts {
				plain, back, _, _ := w.recv(b, m)
				checkWire(b, pb, back)
				l.enqueue(b, back)
				if pb&6 == 0 {
					if !bytes.Equal(plain, m) {
						olog.viol("C16", "disabled-receive-not-passthrough", fmt.Sprintf("policy %d: Receive(%q) = %q", pb, m, plain))
					}
				} else if !bytes.Equal(plain, text) {
					olog.viol("C16", "plaintext-altered", fmt.Sprintf("policies %d -> %d: sent %q, delivered %q", pa, pb, text, plain))
				}
			}
		} else {
			l.enqueue(a, ts)
		}
		run()
		// a whitespace tag offer to a peer that starts the AKE on tags must end in the highest common version
		if pa&6 != 0 && pa&16 != 0 && pa&8 == 0 && pb&32 != 0 {
			if mc := maxCommon(pa, pb); mc != 0 {
				va, vb := otr3.VerifSnapshot(a.c).Version, otr3.VerifSnapshot(b.c).Version
				if !a.c.IsEncrypted() || !b.c.IsEncrypted() || va != mc || vb != mc {
					olog.viol("C16", "wrong-version-negotiated", fmt.Sprintf("whitespace tag offer, policies %d/%d share version %d but ended encA=%v encB=%v versions %d/%d", pa, pb, mc, a.c.IsEncrypted(), b.c.IsEncrypted(), va, vb))
				}
			}
		}
	case 1: // explicit query
		q := w.query(a)
		offerMask, offerDesc = specQueryOffer(q), fmt.Sprintf("%q", q)
		if pa&6 != 0 && offerMask != pa&6<<1 {
			olog.viol("C16", "query-offers-other-versions", fmt.Sprintf("policy %d wrote the query %q, which offers the versions in mask %d", pa, q, offerMask))
		}
		l.enqueue(a, []otr3.ValidMessage{q})
		run()
		mc := maxCommon(pa, pb)
		ea, eb := a.c.IsEncrypted(), b.c.IsEncrypted()
		if mc != 0 {
			va, vb := otr3.VerifSnapshot(a.c).Version, otr3.VerifSnapshot(b.c).Version
			if !ea || !eb || va != mc || vb != mc {
				olog.viol("C16", "wrong-version-negotiated", fmt.Sprintf("query %q, policies %d/%d share version %d but ended encA=%v encB=%v versions %d/%d", q, pa, pb, mc, ea, eb, va, vb))
			}
		} else if ea || eb {
			olog.viol("C16", "encrypted-without-common-version", fmt.Sprintf("query %q, policies %d/%d", q, pa, pb))
		}
	case 3: // a tagged plaintext written by somebody else: version tags in any order, unknown tags among them
		hdr := " \t  \t\t\t\t \t \t \t  "
		tags := map[int]string{1: " \t \t  \t ", 2: "  \t\t  \t ", 3: "  \t\t  \t\t", 9: "\t\t\t\t    ", 8: " \t\t\t\t\t\t "}
		order := []int{1, 2, 3, 9, 8}
		g.r.Shuffle(len(order), func(i, j int) { order[i], order[j] = order[j], order[i] })
		order = order[:1+g.r.Intn(len(order))]
		// half of the time exactly what the protocol document prescribes to a sender: the base, then
		// the version 1 indication if version 1 is offered ("must come before all other whitespace
		// tags"), then version 2, then version 3 - what libotr writes
		specOrder := g.r.Intn(2) == 0
		if specOrder {
			order = order[:0]
			if g.r.Intn(3) != 0 {
				order = append(order, 1)
			}
			k := g.r.Intn(4)
			if len(order) == 0 && k == 0 {
				k = 1 + g.r.Intn(3)
			}
			if k&1 != 0 {
				order = append(order, 2)
			}
			if k&2 != 0 {
				order = append(order, 3)
			}
		}
		// "this tag may occur anywhere in the message": for the prescribed tags also between two
		// pieces of the text that end and begin with a visible character
		head, tail := text, []byte(nil)
		if specOrder && g.r.Intn(3) == 0 {
			cut := 1 + g.r.Intn(len(text)-1)
			head, tail = text[:cut], text[cut:]
			if ws := func(c byte) bool { return c == ' ' || c == '\t' }; ws(head[len(head)-1]) || ws(tail[0]) {
				head, tail = text, nil
			}
		}
		// the text behind the tag begins with white space that is NOT a further version indication
		// (those are groups of 8 blanks and tabs only): a line break and the indentation of the next
		// line, CR LF, form feeds, no-break and ideographic spaces. It belongs to the text - also when
		// bytes that look like a version indication follow it.
		if g.r.Intn(5) < 2 {
			cut := 1 + g.r.Intn(len(text))
			for cut > 1 && (text[cut-1] == ' ' || text[cut-1] == '\t') {
				cut--
			}
			lead := g.whiteLead()
			if len(lead)%8 == 0 && g.r.Intn(2) == 0 {
				lead = append(lead, tags[2+g.r.Intn(2)]...)
			}
			head = text[:cut]
			tail = append(lead, text[cut:]...)
			text = append(append([]byte{}, head...), tail...)
			g.dist["policy_white_lead"]++
		}
		m := append(append([]byte{}, head...), []byte(hdr)...)
		offered := 0
		for _, v := range order {
			m = append(m, []byte(tags[v])...)
			if v == 2 || v == 3 {
				offered |= 1 << uint(v)
			}
		}
		m = append(m, tail...)
		plain, ts, _, _ := w.recv(b, m)
		checkWire(b, pb, ts)
		versionAllowed(b, pb, fmt.Sprintf("tagged plaintext with tags %v", order))
		if pb&6 != 0 && !bytes.Equal(plain, text) {
			olog.viol("C16", "plaintext-altered", fmt.Sprintf("policy %d: message %q (text %q with the tag header and version tags %v put in front of its last %d bytes) was delivered as %q", pb, m, text, order, len(tail), plain))
		}
		want := 0
		if pb&32 != 0 {
			switch {
			case pb&4 != 0 && offered&8 != 0:
				want = 3
			case pb&2 != 0 && offered&4 != 0:
				want = 2
			}
		}
		got := 0
		for _, t := range reassembleAll(ts) {
			if v := wireVersion(t); v != 0 {
				got = v
			}
		}
		if got != want {
			olog.viol("C16", "wrong-version-negotiated", fmt.Sprintf("policy %d, tagged plaintext %q offering tags %v (the %d bytes behind them are text): answered with a version %d message, expected version %d (0 = none)", pb, m, order, len(tail), got, want))
		}
		if specOrder && pb&6 != 0 {
			// a message an independent implementation of the protocol document writes: read correctly
			olog.ok("C10")
			if !bytes.Equal(plain, text) {
				olog.viol("C10", "spec-whitespace-tag-misread", fmt.Sprintf("policy %d: message %q (text %q, %d bytes of it behind the tag; tag = base followed by the indications of versions %v in the prescribed order) was delivered as %q", pb, m, text, len(tail), order, plain))
			}
			if got != want {
				olog.viol("C10", "spec-whitespace-tag-misread", fmt.Sprintf("policy %d: message %q (tag = base followed by the indications of versions %v in the prescribed order) was answered with a version %d D-H Commit, expected version %d (0 = none)", pb, m, order, got, want))
			}
		}
	default: // odd offer forms straight into B, with and without a text for the human behind them
		offers := []string{"?OTRv4?", "?OTR?v2?", "?OTRv23x?", "?OTR?", "?OTRv?", "?OTRv32?", "?OTR?v?", "?OTRv9923?", "?OTRv2", "?OTRv3? hi",
			"?OTRv2?", "?OTRv3?", "?OTR?v3?", "?OTRv23?", "?OTR?v23?", "?OTRvx?", "?OTRv2?", "?OTRv3?"}
		m := []byte(offers[g.r.Intn(len(offers))])
		if m[len(m)-1] == '?' && g.r.Intn(3) != 0 {
			if g.r.Intn(4) != 0 {
				m = append(m, ' ')
			}
			m = append(m, queryTrailers[g.r.Intn(len(queryTrailers))]...)
		}
		offerMask, offerDesc = specQueryOffer(m), fmt.Sprintf("%q", m)
		_, ts, _, _ := w.recv(b, m)
		checkWire(b, pb, ts)
		checkOffered(ts)
		versionAllowed(b, pb, fmt.Sprintf("offer %q", m))
		if pb&6 != 0 {
			want := 0
			switch {
			case pb&4 != 0 && offerMask&8 != 0:
				want = 3
			case pb&2 != 0 && offerMask&4 != 0:
				want = 2
			}
			got := 0
			for _, t := range reassembleAll(ts) {
				if v := wireVersion(t); v != 0 {
					got = v
				}
			}
			if got != want {
				olog.viol("C16", "wrong-version-negotiated", fmt.Sprintf("policy %d, offer %q: answered with a version %d message, expected version %d (0 = none)", pb, m, got, want))
			}
		}
	}
}

func init() {
	profiles["policy"] = func(seed int64, n int, out *emitter, extra map[string]interface{}) map[string]int {
		g := &gen{r: rand.New(rand.NewSource(seed)), out: out, dist: map[string]int{}}
		olog = &oracleLog{checked: map[string]int{}, out: out}
		w := newWorld(g)
		if n >= 4096 {
			// the full product of policy sets
			for pa := 0; pa < 64; pa++ {
				for pb := 0; pb < 64; pb++ {
					g.policyScenario(w, pa*2, pb*2, (pa+pb)%2)
				}
			}
			for i := 0; i < n-4096; i++ {
				g.policyScenario(w, g.r.Intn(64)*2, g.r.Intn(64)*2, g.r.Intn(4))
			}
			extra["exhaustive_policy_pairs"] = true
		} else {
			for i := 0; i < n; i++ {
				g.policyScenario(w, g.r.Intn(64)*2, g.r.Intn(64)*2, g.r.Intn(4))
			}
		}
		extra["panics"] = panicCount
		olog.export(extra)
		return g.dist
	}
}
