package main

// Profile "spec" (C10): every message a conversation emits is what the protocol document prescribes
// for the conversation's secrets and state.
//
// Two real conversations run a session (random version 2/3, policies, who starts and how: explicit
// query, whitespace tag, require-encryption, error-start; fragment sizes; then a random schedule of
// sends and in-order deliveries with several messages in flight so that keys rotate; heartbeats, SMP
// runs and aborts, extra symmetric key, replays that provoke error messages, End).  For EVERY message
// either of them emits, an op is written that makes the reference implementation of the protocol
// document (lean/Otr/SpecRef.lean, built on Otr.Spec + Crypto.real only) rebuild that message from the
// session's SECRETS (D-H exponents and r from the randomness log, the DSA signatures from the signing
// oracle log, the decrypted plaintext layout) and its own state; the expected result of the op is the
// implementation's actual wire bytes, so any byte that differs is a differing line.  Every delivery
// is also replayed by the reference (MAC check, counter, decryption, key rotation).
//
// Direction 2: at the end of a scenario the reference builds messages the library itself would never
// produce but the document allows (no padding, other padding, no NUL, several / unknown TLVs, empty
// SMP abort, fragments with numerals without leading zeros, ...).  They are obtained by running the
// compiled driver on the scenario's op stream, fed to the real peer, and must be accepted and read
// exactly.

import (
	"bytes"
	"crypto/dsa"
	"crypto/sha256"
	"encoding/hex"
	"fmt"
	"io"
	"math/big"
	"math/rand"
	"os"
	"os/exec"
	"strconv"
	"strings"
	"time"

	otr3 "github.com/coyim/otr3"
)

// ---------- parties ----------

// a signing oracle whose DSA nonces come from the seed (crypto/dsa.Sign reads its randomness source a
// non-deterministic number of times); like dsa.Sign it does not truncate the value it signs
type detKey struct {
	*otr3.DSAPrivateKey
	r   *rand.Rand
	log []string // "<value signed>:<r||s>"
}

func (k *detKey) Sign(_ io.Reader, hashed []byte) ([]byte, error) {
	priv := &k.DSAPrivateKey.PrivateKey
	z := new(big.Int).SetBytes(hashed)
	for {
		nonce := new(big.Int).Rand(k.r, priv.Q)
		if nonce.Sign() == 0 {
			continue
		}
		r := new(big.Int).Exp(priv.G, nonce, priv.P)
		r.Mod(r, priv.Q)
		inv := new(big.Int).ModInverse(nonce, priv.Q)
		sv := new(big.Int).Mul(priv.X, r)
		sv.Add(sv, z).Mul(sv, inv).Mod(sv, priv.Q)
		if r.Sign() == 0 || sv.Sign() == 0 {
			continue
		}
		out := make([]byte, 40)
		r.FillBytes(out[:20])
		sv.FillBytes(out[20:])
		k.log = append(k.log, hex.EncodeToString(hashed)+":"+hex.EncodeToString(out))
		return out, nil
	}
}

// RFC 3526 group 5 (the D-H group of the protocol)
var specDHP, _ = new(big.Int).SetString("FFFFFFFFFFFFFFFFC90FDAA22168C234C4C6628B80DC1CD129024E088A67CC74020BBEA63B139B22514A08798E3404DDEF9519B3CD3A431B302B0A6DF25F14374FE1356D6D51C245E485B576625E7EC6F44C42E9A637ED6B0BFF5CB6F406B7EDEE386BFB5A899FA5AE9F24117C4B1FE649286651ECE45B3DC2007CB8A163BF0598DA48361C55D39A69163FA8FD24CF5F83655D23DCA3AD961C62F356208552BB9ED529077096966D670C354E4ABC9804F1746C08CA237327FFFFFFFFFFFFFFFF", 16)

// the conversation's randomness source: the logging source, except that now and then a D-H secret
// exponent (a 40 byte read) is replaced by one whose public key g^x has a zero top byte (about one key
// in 256 is like that: its MPI is shorter, numeric and byte-wise order of keys differ)
type shortKeyRand struct {
	inner *logRand
	r     *rand.Rand
	prob  int // per cent
	dist  map[string]int
	// exponents to hand out on the next 40 byte reads (reads of other sizes - instance tag, r - pass by)
	force40 [][]byte
}

func (k *shortKeyRand) Read(p []byte) (int, error) {
	n, err := k.inner.Read(p)
	if err == nil && len(p) == 40 && len(k.force40) > 0 {
		copy(p, k.force40[0])
		copy(k.inner.history[len(k.inner.history)-1], k.force40[0])
		k.force40 = k.force40[1:]
		return n, err
	}
	if err == nil && len(p) == 40 && k.r.Intn(100) < k.prob {
		x := make([]byte, 40)
		for {
			k.r.Read(x)
			if new(big.Int).Exp(big.NewInt(2), new(big.Int).SetBytes(x), specDHP).BitLen() <= 1528 {
				break
			}
		}
		copy(p, x)
		copy(k.inner.history[len(k.inner.history)-1], x)
		k.dist["dh-key:short-public-key"]++
	}
	return n, err
}

// two D-H exponents whose shared secret s = g^(xy) mod p has a zero top byte (one exchange in 256 is
// like that): as an MPI s is then shorter than the modulus, and it is the MPI that is hashed into the
// session id and the keys c, c', m1, m2, m1', m2'
func specShortSecretPair(r *rand.Rand) (x, y []byte) {
	x, y = make([]byte, 40), make([]byte, 40)
	r.Read(x)
	gx := new(big.Int).Exp(big.NewInt(2), new(big.Int).SetBytes(x), specDHP)
	for {
		r.Read(y)
		if new(big.Int).Exp(gx, new(big.Int).SetBytes(y), specDHP).BitLen() <= 1528 {
			return
		}
	}
}

// the session id the document prescribes for the exponents x and y: the first 64 bits of
// SHA256(0x00 || MPI(s)), s = g^(xy) mod p, the MPI without leading zero bytes
func specSSID(xh, yh string) (ssid [8]byte, sLen int) {
	xb, _ := hex.DecodeString(xh)
	yb, _ := hex.DecodeString(yh)
	sec := new(big.Int).Exp(big.NewInt(2), new(big.Int).SetBytes(xb), specDHP)
	sec.Exp(sec, new(big.Int).SetBytes(yb), specDHP)
	sb := sec.Bytes()
	h := sha256.New()
	h.Write([]byte{0, byte(len(sb) >> 24), byte(len(sb) >> 16), byte(len(sb) >> 8), byte(len(sb))})
	h.Write(sb)
	copy(ssid[:], h.Sum(nil)[:8])
	return ssid, len(sb)
}

type specParty struct {
	*party
	dkey *detKey
	skr  *shortKeyRand
	pol  int
	frag int
	role string // "B" (sent the D-H Commit) or "A"
	// the peer asked for the SMP secret
	wantsSecret bool
	// text handed to Send before the session was encrypted (it is sent when the AKE completes)
	queued []byte
}

// one message on its way: all its fragments (or the message itself)
type specFlight struct {
	wire      [][]byte
	whole     []byte
	kind      string // data, commit, key, reveal, sig, query, error, tagged
	text      []byte // human readable part the sender put in (data / tagged)
	announced bool   // the spec.send op has been written
	flag      byte
}

type specScenario struct {
	g        *gen
	sid      string
	a, b     *specParty // a = the party that makes the first move, b = its peer
	qab, qba []*specFlight
	refReady bool
	ops      []string // the spec.* ops of this scenario (replayed by the reference builder)
	deliv    map[*specParty][]*specFlight
	ver      int
	dead     bool
	akeRecs  []akeRecord
	noQueue  bool
	base     string
	akeN     int
	// a scenario appended after the profile's random part (its additional ops are not in older traces)
	appended bool
	lastEvs  []string // the events of the most recent data message delivery
}

var specKeysDeclared bool
var specKeyOps []string
var specOtrm string // path of the compiled driver, "" if missing

func (s *specScenario) emit(op, res string) {
	s.g.out.emit(op, res)
	s.ops = append(s.ops, op)
}

var specViolCount = map[string]int{}

// at most five instances per key are logged (the log holds 50 entries in all); all are counted
func specViol(key, desc string) {
	specViolCount[key]++
	if specViolCount[key] <= 5 {
		olog.viol("C10", key, desc)
	}
}

func (s *specScenario) peer(p *specParty) *specParty {
	if p == s.a {
		return s.b
	}
	return s.a
}

func (s *specScenario) queue(from *specParty) *[]*specFlight {
	if from == s.a {
		return &s.qab
	}
	return &s.qba
}

func specNewParty(g *gen, id string, pol, keyIdx, frag int) *specParty {
	loadKeys()
	c := &otr3.Conversation{}
	p := &party{id: id, c: c, keyIdx: keyIdx}
	p.rnd = &logRand{r: rand.New(rand.NewSource(g.r.Int63())), failAt: -1, shortAt: -1}
	skr := &shortKeyRand{inner: p.rnd, r: rand.New(rand.NewSource(g.r.Int63())), prob: []int{0, 0, 10, 25}[g.r.Intn(4)], dist: g.dist}
	c.Rand = skr
	c.Policies = 0
	verifSetPolicies(c, pol)
	dk := &detKey{DSAPrivateKey: testKeys[keyIdx], r: rand.New(rand.NewSource(g.r.Int63()))}
	c.SetOurKeys([]otr3.PrivateKey{dk})
	c.SetFragmentSize(uint16(frag))
	c.SetMessageEventHandler(p)
	c.SetSecurityEventHandler(p)
	c.SetSMPEventHandler(p)
	c.SetReceivedKeyHandler(p)
	c.SetErrorMessageHandler(p)
	return &specParty{party: p, dkey: dk, skr: skr, pol: pol, frag: frag}
}

// ---------- wire helpers ----------

func specHexList(bs [][]byte) string {
	var s []string
	for _, b := range bs {
		s = append(s, hx(b))
	}
	return "[" + strings.Join(s, ",") + "]"
}

func isFragmentWire(m []byte) bool {
	return bytes.HasPrefix(m, []byte("?OTR|")) || bytes.HasPrefix(m, []byte("?OTR,"))
}

// what the document allows a fragment to look like (Spec.IsFragmentV2 / IsFragmentV3)
func specParseFragment(m []byte) (k, n int, piece []byte, sender, receiver uint64, ok bool) {
	dec := func(b []byte) (int, bool) {
		if len(b) == 0 || len(b) > 9 {
			return 0, false
		}
		v := 0
		for _, c := range b {
			if c < '0' || c > '9' {
				return 0, false
			}
			v = v*10 + int(c-'0')
		}
		return v, true
	}
	hexv := func(b []byte) (uint64, bool) {
		if len(b) == 0 || len(b) > 15 {
			return 0, false
		}
		var v uint64
		for _, c := range b {
			switch {
			case c >= '0' && c <= '9':
				v = v*16 + uint64(c-'0')
			case c >= 'a' && c <= 'f':
				v = v*16 + uint64(c-'a'+10)
			default:
				return 0, false
			}
		}
		return v, true
	}
	parts := bytes.Split(m, []byte(","))
	var ks, ns []byte
	switch {
	case bytes.HasPrefix(m, []byte("?OTR|")):
		if len(parts) != 5 || len(parts[4]) != 0 {
			return
		}
		tags := bytes.Split(parts[0][5:], []byte("|"))
		if len(tags) != 2 {
			return
		}
		var o1, o2 bool
		sender, o1 = hexv(tags[0])
		receiver, o2 = hexv(tags[1])
		if !o1 || !o2 {
			return
		}
		ks, ns, piece = parts[1], parts[2], parts[3]
	case bytes.HasPrefix(m, []byte("?OTR,")):
		if len(parts) != 5 || len(parts[4]) != 0 {
			return
		}
		ks, ns, piece = parts[1], parts[2], parts[3]
	default:
		return
	}
	var o1, o2 bool
	k, o1 = dec(ks)
	n, o2 = dec(ns)
	ok = o1 && o2 && k >= 1 && k <= n && n <= 65535 && len(piece) > 0
	return
}

// group what one API call returned into whole messages; the Go-side fragment oracle lives here
func (s *specScenario) group(from *specParty, ms []otr3.ValidMessage) []*specFlight {
	var out []*specFlight
	var cur *specFlight
	snap := otr3.VerifSnapshot(from.c)
	for _, m := range ms {
		mb := append([]byte{}, m...)
		if !isFragmentWire(mb) {
			if cur != nil {
				specViol("fragment-not-allowed", fmt.Sprintf("%s: a fragment stream was not completed: %.60q", from.id, cur.wire[len(cur.wire)-1]))
				cur = nil
			}
			out = append(out, &specFlight{wire: [][]byte{mb}, whole: mb})
			continue
		}
		s.g.dist["fragment"]++
		olog.ok("C10")
		k, n, piece, sd, rc, ok := specParseFragment(mb)
		if !ok {
			specViol("fragment-not-allowed", fmt.Sprintf("%s emitted %.80q: empty piece or index/total outside 1 <= k <= n <= 65535 or malformed numerals", from.id, mb))
			continue
		}
		if from.frag > 0 && len(mb) > from.frag {
			specViol("fragment-not-allowed", fmt.Sprintf("%s emitted a fragment of %d bytes with maximum fragment size %d", from.id, len(mb), from.frag))
		}
		if mb[4] == '|' && (sd != uint64(snap.OurTag) || rc != uint64(snap.TheirTag)) {
			specViol("fragment-not-allowed", fmt.Sprintf("%s emitted a fragment with instance tags %x|%x, its tags are %x|%x", from.id, sd, rc, snap.OurTag, snap.TheirTag))
		}
		if mb[4] == '|' != (snap.Version == 3) {
			specViol("fragment-not-allowed", fmt.Sprintf("%s emitted a version %d conversation fragment %.30q", from.id, snap.Version, mb))
		}
		if k == 1 {
			if cur != nil {
				specViol("fragment-not-allowed", fmt.Sprintf("%s: fragment stream restarted before it ended", from.id))
			}
			cur = &specFlight{}
		}
		if cur == nil || len(cur.wire) != k-1 {
			specViol("fragment-not-allowed", fmt.Sprintf("%s: fragment %d of %d out of sequence", from.id, k, n))
			cur = nil
			continue
		}
		cur.wire = append(cur.wire, mb)
		cur.whole = append(cur.whole, piece...)
		if k == n {
			out = append(out, cur)
			cur = nil
		}
	}
	if cur != nil {
		specViol("fragment-not-allowed", fmt.Sprintf("%s: a fragment stream was not completed", from.id))
	}
	for _, f := range out {
		f.kind = specKind(f.whole)
	}
	return out
}

var wsTagBase = []byte{0x20, 0x09, 0x20, 0x20, 0x09, 0x09, 0x09, 0x09, 0x20, 0x09, 0x20, 0x09, 0x20, 0x09, 0x20, 0x20}

func specKind(whole []byte) string {
	switch {
	case bytes.HasPrefix(whole, []byte("?OTR:")):
		bin := decodeWire(whole)
		if len(bin) < 3 {
			return "undecodable"
		}
		switch bin[2] {
		case 0x02:
			return "commit"
		case 0x0a:
			return "key"
		case 0x11:
			return "reveal"
		case 0x12:
			return "sig"
		case 0x03:
			return "data"
		}
		return "unknown-type"
	case bytes.HasPrefix(whole, []byte("?OTR Error:")):
		return "error"
	case bytes.HasPrefix(whole, []byte("?OTR")):
		return "query"
	case bytes.Contains(whole, wsTagBase):
		return "tagged"
	}
	return "plain"
}

// ---------- plaintext layout (mirror of SpecRef.parsePlaintext / tlvNotes) ----------

type specTLV struct {
	typ uint16
	val []byte
}

func specParsePlain(p []byte) (text []byte, nul bool, tlvs []specTLV, ok bool) {
	i := bytes.IndexByte(p, 0)
	if i < 0 {
		return p, false, nil, true
	}
	text = p[:i]
	rest := p[i+1:]
	for len(rest) > 0 {
		if len(rest) < 4 {
			return text, true, tlvs, false
		}
		t := uint16(rest[0])<<8 | uint16(rest[1])
		l := int(rest[2])<<8 | int(rest[3])
		if len(rest) < 4+l {
			return text, true, tlvs, false
		}
		tlvs = append(tlvs, specTLV{t, rest[4 : 4+l]})
		rest = rest[4+l:]
	}
	return text, true, tlvs, true
}

func specMPIPayload(v []byte) (int, bool) {
	rest, mpis, ok := otr3.ExtractMPIs(v)
	if !ok || len(rest) != 0 {
		return 0, false
	}
	re := otr3.AppendWord(nil, uint32(len(mpis)))
	for _, m := range mpis {
		re = otr3.AppendMPI(re, m)
	}
	return len(mpis), bytes.Equal(re, v)
}

func specTLVNotes(from string, t specTLV) []string {
	smp := func(count int, name string, v []byte) []string {
		n, ok := specMPIPayload(v)
		if !ok {
			return []string{name + "-malformed"}
		}
		if n != count {
			return []string{name + "-mpi-count"}
		}
		return nil
	}
	switch t.typ {
	case 2:
		return smp(6, "smp1", t.val)
	case 3:
		return smp(11, "smp2", t.val)
	case 4:
		return smp(8, "smp3", t.val)
	case 5:
		return smp(3, "smp4", t.val)
	case 7:
		i := bytes.IndexByte(t.val, 0)
		if i < 0 {
			return []string{"smp1q-no-nul"}
		}
		return smp(6, "smp1q", t.val[i+1:])
	case 6:
		if len(t.val) != 0 {
			return []string{"smp-abort-tlv-carries-value"}
		}
	case 1:
		if len(t.val) != 0 {
			return []string{"disconnected-tlv-carries-value"}
		}
	case 8:
		if len(t.val) < 4 {
			return []string{"extra-key-tlv-short"}
		}
	}
	return nil
}

// ---------- emitted messages ----------

func specBits(pol int) (string, string) {
	v2, v3 := "0", "0"
	if pol&2 != 0 {
		v2 = "1"
	}
	if pol&4 != 0 {
		v3 = "1"
	}
	return v2, v3
}

// text-type messages: query, error, tagged plaintext
func (s *specScenario) announceText(from *specParty, f *specFlight) {
	olog.ok("C10")
	s.g.dist["msg:"+f.kind]++
	v2, v3 := specBits(from.pol)
	switch f.kind {
	case "query":
		want := "?OTRv"
		if from.pol&2 != 0 {
			want += "2"
		}
		if from.pol&4 != 0 {
			want += "3"
		}
		want += "?"
		if string(f.whole) != want {
			specViol("text-message-differs", fmt.Sprintf("%s (versions allowed: v2=%s v3=%s) emitted the query message %q, the document writes %q", from.id, v2, v3, f.whole, want))
		}
		s.emit(fmt.Sprintf("spec.query %s %s", v2, v3), hx(f.whole))
	case "error":
		if !bytes.HasPrefix(f.whole, []byte("?OTR Error:")) {
			specViol("text-message-differs", fmt.Sprintf("%s emitted the error message %q", from.id, f.whole))
		}
		human := f.whole[len("?OTR Error:"):]
		if want := append([]byte(" "), from.HandleErrorMessage(0)[:1]...); !bytes.HasPrefix(human, want) {
			specViol("text-message-differs", fmt.Sprintf("%s emitted the error message %q, which does not carry the handler's text", from.id, f.whole))
		}
		s.emit("spec.error "+hx(human), hx(f.whole))
	case "tagged":
		want := append(append([]byte{}, f.text...), wsTagBase...)
		if from.pol&2 != 0 {
			want = append(want, 0x20, 0x20, 0x09, 0x09, 0x20, 0x20, 0x09, 0x20)
		}
		if from.pol&4 != 0 {
			want = append(want, 0x20, 0x20, 0x09, 0x09, 0x20, 0x20, 0x09, 0x09)
		}
		if !bytes.Equal(want, f.whole) {
			specViol("text-message-differs", fmt.Sprintf("%s emitted the tagged plaintext %q, the document writes %q", from.id, f.whole, want))
		}
		s.emit(fmt.Sprintf("spec.wstag %s %s %s", v2, v3, hx(f.text)), hx(f.whole))
	}
	f.announced = true
}

// a data message `from` has emitted: make the reference rebuild it
func (s *specScenario) announceData(from *specParty, f *specFlight, before otr3.VerifState) {
	to := s.peer(from)
	olog.ok("C10")
	s.g.dist["msg:data"]++
	plain, ok := otr3.VerifOpenData(from.c, f.whole, true)
	if !ok {
		plain, ok = otr3.VerifOpenData(to.c, f.whole, false)
	}
	if !ok {
		specViol("data-message-unreadable", fmt.Sprintf("a data message emitted by %s can be opened neither with its own nor with its peer's keys", from.id))
		f.announced = true
		return
	}
	flag, _ := otr3.VerifDataFlag(f.whole)
	f.flag = flag
	old, _ := otr3.VerifOldMACKeys(f.whole)
	sk, rk, ctr, _ := otr3.VerifDataIDs(f.whole)
	text, _, tlvs, lok := specParsePlain(plain)
	if !lok {
		specViol("plaintext-not-legal", fmt.Sprintf("%s encrypted a plaintext that is not message, NUL, TLVs: %x", from.id, plain))
	}
	if !bytes.Equal(text, f.text) {
		specViol("plaintext-text-differs", fmt.Sprintf("%s was to send %q and encrypted %q", from.id, f.text, text))
	}
	if flag > 1 || (flag == 1 && len(text) > 0) {
		specViol("flags-not-allowed", fmt.Sprintf("%s set flags %#x on a message with %d bytes of text", from.id, flag, len(text)))
	}
	if len(old) > 0 {
		s.g.dist["reveals-mac-keys"]++
	}
	var tl, notes, ol []string
	for _, t := range tlvs {
		tl = append(tl, fmt.Sprintf("%d:%d", t.typ, len(t.val)))
		s.g.dist[fmt.Sprintf("tlv:%d", t.typ)]++
		for _, n := range specTLVNotes(from.id, t) {
			notes = append(notes, n)
			if n == "smp-abort-tlv-carries-value" {
				s.g.dist["known:smp-abort-tlv-carries-value"]++
				if s.g.dist["known:smp-abort-tlv-carries-value"] > 3 {
					continue // a known deviation: three instances per run are enough in the log
				}
				specViol(n, fmt.Sprintf("%s sent an SMP abort TLV (type 6) of length %d, value %x; the document: length zero, value empty", from.id, len(t.val), t.val))
			} else {
				specViol("tlv-not-as-specified", fmt.Sprintf("%s sent TLV type %d: %s (%x)", from.id, t.typ, n, t.val))
			}
		}
	}
	for _, k := range old {
		ol = append(ol, hex.EncodeToString(k))
	}
	switch {
	case len(text) > 0:
		s.g.dist["data:user-text"]++
	case len(tlvs) == 1 && tlvs[0].typ == 0 && flag == 1:
		s.g.dist["data:heartbeat-or-empty"]++
	default:
		s.g.dist["data:tlv-only"]++
	}
	s.g.dist[fmt.Sprintf("data:fragmented:%v", len(f.wire) > 1)]++
	w := "W:-"
	if len(ol) > 0 {
		w = "W:" + strings.Join(ol, ",")
	}
	snap := otr3.VerifSnapshot(from.c)
	if snap.MsgState != 1 {
		snap = before
	}
	s.emit(fmt.Sprintf("spec.send %s %d %s %s %d", from.id, flag, hx(plain), w, from.frag),
		fmt.Sprintf("wire=%s ids=%d/%d/%d text=%s tlvs=[%s] notes=[%s] o=%d t=%d", specHexList(f.wire), sk, rk, ctr, hx(text),
			strings.Join(tl, ","), strings.Join(notes, ","), snap.OurKeyID, snap.TheirKeyID))
	f.announced = true
}

// everything an API call of `from` returned
func (s *specScenario) emitted(from *specParty, ms []otr3.ValidMessage, text []byte, before otr3.VerifState) {
	for _, f := range s.group(from, ms) {
		switch f.kind {
		case "data":
			if text != nil {
				f.text = text
				text = nil // only the first data message of a call carries the user's text
			} else if from.queued != nil {
				f.text = from.queued
				from.queued = nil
			}
			if s.refReady {
				s.announceData(from, f, before)
			}
		case "query":
			s.announceText(from, f)
		case "error":
			// checked, but lost on the way: a party with ERROR_START_AKE would answer it with a query
			// and a new key exchange would start under the messages in flight
			s.announceText(from, f)
			continue
		case "tagged":
			f.text = text
			s.announceText(from, f)
		case "commit", "key", "reveal", "sig":
			s.g.dist["msg:"+f.kind]++
			s.akeRecs = append(s.akeRecs, akeRecord{f.kind, f.wire, from})
		default:
			specViol("unexpected-message", fmt.Sprintf("%s emitted %.60q", from.id, f.whole))
			continue
		}
		if s.noQueue {
			continue // direction 2 has begun: the real peer no longer follows
		}
		q := s.queue(from)
		*q = append(*q, f)
	}
}

// ---------- deliveries ----------

func (p *specParty) fresh40(from int) string {
	for _, r := range p.rnd.history[from:] {
		if len(r) == 40 {
			return hex.EncodeToString(r)
		}
	}
	return "-"
}

func specEventKey(evs []string) string {
	for _, e := range evs {
		if strings.HasPrefix(e, "key:") {
			return e[4:]
		}
	}
	return "-"
}

// hand one message (all its fragments) to the real party; returns what Receive said
func (s *specScenario) receiveAll(to *specParty, f *specFlight) (plain []byte, toSend []otr3.ValidMessage, err error, evs []string) {
	res := guard(func() string {
		for _, m := range f.wire {
			p, ts, e := to.c.Receive(otr3.ValidMessage(m))
			if p != nil {
				plain = p
			}
			toSend = append(toSend, ts...)
			if e != nil {
				err = e
			}
		}
		return ""
	})
	if res == "PANIC" {
		specViol("panic", fmt.Sprintf("%s panicked on %.60q", to.id, f.whole))
		s.dead = true
	}
	evs = to.events
	to.events = nil
	return
}

// expectReject: "" (the message must be accepted) or the reason the reference will give
func (s *specScenario) deliverData(to *specParty, f *specFlight, expectReject string, kind string) bool {
	from := s.peer(to)
	before := otr3.VerifSnapshot(to.c)
	_, types, values, peekOK := otr3.VerifPeekTLVs(to.c, f.whole)
	old, _ := otr3.VerifOldMACKeys(f.whole)
	rb := len(to.rnd.history)
	plain, toSend, err, evs := s.receiveAll(to, f)
	s.lastEvs = evs
	if s.dead {
		return false
	}
	after := otr3.VerifSnapshot(to.c)
	fresh := to.fresh40(rb)
	if before.OurKeyID != after.OurKeyID && after.MsgState == 1 {
		s.g.dist["rotation:ours"]++
	}
	if before.TheirKeyID != after.TheirKeyID && after.MsgState == 1 {
		s.g.dist["rotation:theirs"]++
	}
	var res string
	good := true
	if err != nil || !peekOK {
		res = "reject " + expectReject
		if expectReject == "" {
			res = "reject"
			good = false
			if kind == "" {
				specViol("genuine-message-rejected", fmt.Sprintf("%s rejected a message its peer %s emitted (%v)", to.id, from.id, err))
			}
		}
		fresh = "-"
	} else {
		if expectReject != "" {
			specViol("replay-accepted", fmt.Sprintf("%s accepted a message that must be rejected (%s)", to.id, expectReject))
		}
		var tl []string
		for i := range types {
			tl = append(tl, fmt.Sprintf("%d:%s", types[i], hx(values[i])))
		}
		fin := after.MsgState == 2
		o, t := fmt.Sprint(after.OurKeyID), fmt.Sprint(after.TheirKeyID)
		if fin {
			o, t = "-", "-"
		}
		res = fmt.Sprintf("ok flags=%d text=%s tlvs=[%s] xk=%s old=%d o=%s t=%s fin=%v", f.flag, hx(plain), strings.Join(tl, ","),
			specEventKey(evs), len(old), o, t, fin)
		if !fin {
			// an accepted message has advanced the counter of its key pair
			sk, rk, ctr, _ := otr3.VerifDataIDs(f.whole)
			seen := false
			for _, c := range after.Counters {
				if c[0] == uint64(rk) && c[1] == uint64(sk) && c[3] == ctr {
					seen = true
				}
			}
			if !seen {
				good = false
				if kind == "" {
					specViol("accepted-message-not-processed", fmt.Sprintf("%s returned no error for a message of %s but did not record its counter", to.id, from.id))
				}
			}
		}
		if !bytes.Equal(plain, f.text) && !(len(plain) == 0 && len(f.text) == 0) {
			good = false
			if kind == "" {
				specViol("delivered-text-differs", fmt.Sprintf("%s sent %q, %s read %q", from.id, f.text, to.id, plain))
			}
		}
		for _, e := range evs {
			if strings.HasPrefix(e, "smp:3:") || strings.HasPrefix(e, "smp:4:") { // asked for the answer / the secret
				to.wantsSecret = true
			}
			if strings.HasPrefix(e, "smp:6:") {
				s.g.dist["smp:success-event"]++
			}
			if strings.HasPrefix(e, "smp:7:") {
				s.g.dist["smp:failure-event"]++
			}
		}
	}
	if kind != "" && res == "reject" {
		// a message of the reference that the library does not accept (reported by the caller): for the
		// reference's copy of the addressee it is lost in transit, so that the two stay in step
		s.g.dist["direction2:rejected"]++
	} else {
		s.emit(fmt.Sprintf("spec.recv %s %s %s", to.id, specHexList(f.wire), fresh), res)
	}
	if err == nil {
		s.deliv[to] = append(s.deliv[to], f)
	}
	s.emitted(to, toSend, nil, before)
	return good
}

func (s *specScenario) deliverNext(to *specParty) bool {
	q := s.queue(s.peer(to))
	if len(*q) == 0 {
		return false
	}
	f := (*q)[0]
	*q = (*q)[1:]
	switch f.kind {
	case "data":
		s.deliverData(to, f, "", "")
	default:
		before := otr3.VerifSnapshot(to.c)
		plain, toSend, err, _ := s.receiveAll(to, f)
		if s.dead {
			return false
		}
		if err != nil {
			specViol("genuine-message-rejected", fmt.Sprintf("%s rejected the %s message of its peer (%v)", to.id, f.kind, err))
		}
		if f.kind == "tagged" && !bytes.Equal(plain, f.text) {
			specViol("delivered-text-differs", fmt.Sprintf("tagged plaintext %q was read as %q", f.text, plain))
		}
		s.emitted(to, toSend, nil, before)
	}
	return true
}

// ---------- the AKE ----------

type akeRecord struct {
	kind string
	wire [][]byte
	from *specParty
}

func firstRead(p *specParty, from, size int) (string, int) {
	for i := from; i < len(p.rnd.history); i++ {
		if len(p.rnd.history[i]) == size {
			return hex.EncodeToString(p.rnd.history[i]), i + 1
		}
	}
	return "", from
}

func sigOf(p *specParty, idx int) string {
	if idx >= len(p.dkey.log) {
		return ""
	}
	parts := strings.Split(p.dkey.log[idx], ":")
	if len(parts) != 2 {
		return ""
	}
	return parts[1]
}

// run the exchange to completion, then write the ops (the reference needs all the secrets at once)
type akeMarks struct {
	rnd, sig map[*specParty]int
	their    map[*specParty]uint32
}

// call before the first move of an exchange
func (s *specScenario) beginAKE() akeMarks {
	s.akeRecs = nil
	s.refReady = false
	s.akeN++
	s.sid = fmt.Sprintf("%s.%d", s.base, s.akeN)
	m := akeMarks{map[*specParty]int{}, map[*specParty]int{}, map[*specParty]uint32{}}
	for _, p := range []*specParty{s.a, s.b} {
		m.rnd[p] = len(p.rnd.history)
		m.sig[p] = len(p.dkey.log)
		m.their[p] = otr3.VerifSnapshot(p.c).TheirTag
	}
	return m
}

// the next key exchange gets a shared secret with a zero top byte: the next D-H exponent either party
// draws is one of a pair found by search (whoever of them sends the D-H Commit)
func (s *specScenario) forceShortSecret() {
	x, y := specShortSecretPair(rand.New(rand.NewSource(s.g.r.Int63())))
	s.a.skr.force40 = [][]byte{x}
	s.b.skr.force40 = [][]byte{y}
	s.g.dist["ake:short-shared-secret-forced"]++
}

func (s *specScenario) runAKE(marks akeMarks) bool {
	defer func() { s.a.skr.force40, s.b.skr.force40 = nil, nil }()
	for i := 0; i < 40 && !s.dead; i++ {
		progressed := false
		for _, to := range []*specParty{s.b, s.a} {
			q := s.queue(s.peer(to))
			if len(*q) > 0 && (*q)[0].kind != "data" {
				s.deliverNext(to)
				progressed = true
			}
		}
		if !progressed {
			break
		}
	}
	recs := s.akeRecs
	kinds := map[string]int{}
	for _, r := range recs {
		kinds[r.kind]++
	}
	if !(s.a.c.IsEncrypted() && s.b.c.IsEncrypted()) || kinds["commit"] != 1 || kinds["key"] != 1 || kinds["reveal"] != 1 || kinds["sig"] != 1 {
		specViol("ake-incomplete", fmt.Sprintf("an undisturbed key exchange between two honest parties did not complete (messages seen: %v)", kinds))
		return false
	}
	var bob, alice *specParty
	for _, r := range recs {
		if r.kind == "commit" {
			bob = r.from
		}
	}
	if bob == nil {
		specViol("ake-incomplete", "no D-H Commit message was seen")
		return false
	}
	alice = s.peer(bob)
	bob.role, alice.role = "B", "A"
	rb, ra, sgb, sga := marks.rnd[bob], marks.rnd[alice], marks.sig[bob], marks.sig[alice]
	// the receiver tag Bob writes into the D-H Commit: the peer's tag if he knew it when the exchange began
	rtag := marks.their[bob]
	x, nb := firstRead(bob, rb, 40)
	r, _ := firstRead(bob, rb, 16)
	freshB, _ := firstRead(bob, nb, 40)
	y, na := firstRead(alice, ra, 40)
	freshA, _ := firstRead(alice, na, 40)
	sB, sA := sigOf(bob, sgb), sigOf(alice, sga)
	if x == "" || r == "" || y == "" || freshA == "" || freshB == "" || sB == "" || sA == "" {
		specViol("ake-secrets-not-found", "the randomness / signature log does not contain the reads an AKE makes")
		return false
	}
	snB, snA := otr3.VerifSnapshot(bob.c), otr3.VerifSnapshot(alice.c)
	s.ver = snB.Version
	s.g.dist[fmt.Sprintf("version:%d", s.ver)]++
	if snA.Version != snB.Version {
		specViol("version-differs", "the two parties ended up with different protocol versions")
	}
	if snB.TheirKeyID != snA.OurKeyID-1 || snA.TheirKeyID != snB.OurKeyID-1 {
		specViol("keyid-differs", "a party did not adopt the key id its peer announced in the AKE")
	}
	ssidB, ssidA := bob.c.GetSSID(), alice.c.GetSSID()
	olog.ok("C10")
	if ssidA != ssidB {
		specViol("ssid-differs", fmt.Sprintf("the two parties computed different session ids %x / %x", ssidB, ssidA))
	}
	// the session id shown to the users, re-derived from the two exponents with nothing but SHA-256
	olog.ok("C10")
	wantSSID, sLen := specSSID(x, y)
	if sLen < 192 {
		s.g.dist["ake:short-shared-secret"]++
	}
	if ssidB != wantSSID || ssidA != wantSSID {
		specViol("ssid-not-as-specified", fmt.Sprintf("OTRv%d key exchange %s with D-H exponents x=%s (sender of the D-H Commit) and y=%s: the shared secret s = g^(xy) mod p takes %d bytes, the document prescribes the session id SHA256(0x00 || MPI(s))[0:8] = %x, %s (sender of the D-H Commit) shows %x, %s shows %x",
			s.ver, s.sid, x, y, sLen, wantSSID, bob.id, ssidB, alice.id, ssidA))
	}
	s.emit(fmt.Sprintf("spec.ake %s %d %d %d %s %s %s %d %d %s %s %d %d", s.sid, s.ver, snB.OurTag, snA.OurTag, x, r, y, bob.keyIdx, alice.keyIdx,
		sB, sA, snB.OurKeyID-1, snA.OurKeyID-1), fmt.Sprintf("ok ssid=%x sigB=true sigA=true wf=true", ssidB[:]))
	for _, who := range []*specParty{bob, alice} {
		parts, ix := who.c.SecureSessionID()
		s.emit(fmt.Sprintf("spec.ssid %s %s", s.sid, who.role), fmt.Sprintf("%s %s %d", parts[0], parts[1], ix))
		// fingerprints: the own key, and the key the peer has authenticated
		s.emit(fmt.Sprintf("spec.fp %d", who.keyIdx), hx(who.dkey.PublicKey().Fingerprint()))
		if tk := s.peer(who).c.GetTheirKey(); tk != nil {
			s.emit(fmt.Sprintf("spec.fp %d", who.keyIdx), hx(tk.Fingerprint()))
		} else {
			specViol("their-key-missing", "no authenticated peer key after the AKE")
		}
	}
	for _, rec := range recs {
		olog.ok("C10")
		s.emit(fmt.Sprintf("spec.akemsg %s %s %d %d", s.sid, rec.kind, rtag, rec.from.frag), specHexList(rec.wire))
		if (rec.kind == "commit" || rec.kind == "reveal") != (rec.from == bob) {
			specViol("ake-role", fmt.Sprintf("%s message sent by the wrong party", rec.kind))
		}
	}
	s.emit(fmt.Sprintf("spec.start %s %s %s %s %s", s.sid, bob.id, alice.id, freshB, freshA), "ok")
	s.refReady = true
	s.deliv = map[*specParty][]*specFlight{} // messages of an earlier session are not replayed into this one
	s.g.dist[fmt.Sprintf("ake:%d", s.akeN)]++
	// data messages that came out together with the last AKE message (retransmission of a queued text)
	for _, from := range []*specParty{s.a, s.b} {
		for _, f := range *s.queue(from) {
			if f.kind == "data" && !f.announced {
				s.announceData(from, f, otr3.VerifSnapshot(from.c))
			}
		}
	}
	return true
}

// ---------- user actions in an encrypted session ----------

func (s *specScenario) call(p *specParty, text []byte, f func() ([]otr3.ValidMessage, error)) bool {
	before := otr3.VerifSnapshot(p.c)
	var ts []otr3.ValidMessage
	var err error
	if guard(func() string { ts, err = f(); return "" }) == "PANIC" {
		specViol("panic", fmt.Sprintf("an API call of %s panicked", p.id))
		s.dead = true
		return false
	}
	p.events = nil
	s.emitted(p, ts, text, before)
	return err == nil
}

func (s *specScenario) sendText(p *specParty, text []byte) {
	s.g.dist["act:send"]++
	s.call(p, text, func() ([]otr3.ValidMessage, error) { return p.c.Send(otr3.ValidMessage(text)) })
}

func (g *gen) specText() []byte {
	n := 1 + g.r.Intn(40)
	switch g.r.Intn(10) {
	case 0:
		n = 240 + g.r.Intn(30) // around the padding granularity
	case 1:
		n = 500 + g.r.Intn(600)
	}
	b := make([]byte, n)
	for i := range b {
		b[i] = byte(' ' + g.r.Intn(95))
	}
	if b[0] == '?' {
		b[0] = 'x'
	}
	if g.r.Intn(8) == 0 {
		b = append(b, []byte(" \xc3\xa9\xe2\x82\xac\xf0\x9f\x98\x80")...) // some UTF-8
	}
	return b
}

func (s *specScenario) drain() {
	for i := 0; i < 400 && (len(s.qab) > 0 || len(s.qba) > 0) && !s.dead; i++ {
		if len(s.qab) > 0 {
			s.deliverNext(s.b)
		}
		if len(s.qba) > 0 {
			s.deliverNext(s.a)
		}
		s.answerSMP()
	}
}

func (s *specScenario) answerSMP() {
	for _, p := range []*specParty{s.a, s.b} {
		if p.wantsSecret && p.c.IsEncrypted() {
			p.wantsSecret = false
			secret := []byte("the shared secret")
			if s.g.r.Intn(4) == 0 {
				secret = []byte("something else")
			}
			s.g.dist["act:smp-answer"]++
			s.call(p, nil, func() ([]otr3.ValidMessage, error) { return p.c.ProvideAuthenticationSecret(secret) })
		}
	}
}

func (s *specScenario) replay(to *specParty) {
	var cands []*specFlight
	for _, f := range s.deliv[to] {
		if f.flag == 0 && len(f.text) > 0 {
			cands = append(cands, f)
		}
	}
	if len(cands) == 0 || !to.c.IsEncrypted() {
		return
	}
	f := cands[s.g.r.Intn(len(cands))]
	sk, rk, _, _ := otr3.VerifDataIDs(f.whole)
	sn := otr3.VerifSnapshot(to.c)
	reason := "counter-not-increasing"
	if !(rk == sn.OurKeyID || rk+1 == sn.OurKeyID) || !(sk == sn.TheirKeyID || sk+1 == sn.TheirKeyID) {
		reason = "keyid-unknown"
	}
	s.g.dist["act:replay:"+reason]++
	cp := &specFlight{wire: f.wire, whole: f.whole, kind: "data", text: f.text, flag: f.flag, announced: true}
	s.deliverData(to, cp, reason, "")
}

func (s *specScenario) step() {
	g := s.g
	p := []*specParty{s.a, s.b}[g.r.Intn(2)]
	if !s.a.c.IsEncrypted() || !s.b.c.IsEncrypted() {
		return
	}
	switch k := g.r.Intn(40); {
	case k < 14:
		s.sendText(p, g.specText())
	case k < 26:
		s.deliverNext(p)
		s.answerSMP()
	case k < 28:
		d := []int{30, 90, 120}[g.r.Intn(3)] // (never within real-time reach of the 60 s heartbeat threshold)
		g.dist["act:tick"]++
		otr3.VerifShiftClock(s.a.c, time.Duration(d)*time.Second)
		otr3.VerifShiftClock(s.b.c, time.Duration(d)*time.Second)
	case k < 31:
		q := ""
		if g.r.Intn(2) == 0 {
			q = "what is it?"
		}
		if (otr3.VerifSnapshot(s.a.c).SmpState > 1 || otr3.VerifSnapshot(s.b.c).SmpState > 1) && g.r.Intn(5) != 0 {
			// mostly let a run that is under way go on (starting anew aborts it)
			s.deliverNext(s.peer(p))
			s.answerSMP()
			return
		}
		g.dist["act:smp-start"]++
		s.call(p, nil, func() ([]otr3.ValidMessage, error) { return p.c.StartAuthenticate(q, []byte("the shared secret")) })
		if g.r.Intn(2) == 0 {
			s.drain() // an undisturbed run
		}
	case k < 32:
		g.dist["act:smp-abort"]++
		s.call(p, nil, func() ([]otr3.ValidMessage, error) { return p.c.AbortAuthentication() })
	case k < 35:
		usage := g.r.Uint32()
		data := g.bytesN(g.r.Intn(20))
		g.dist["act:extra-key"]++
		var key []byte
		ok := s.call(p, nil, func() ([]otr3.ValidMessage, error) {
			k, ts, err := p.c.UseExtraSymmetricKey(usage, data)
			key = k
			return ts, err
		})
		if ok {
			// sending does not change the key pair in use: the reference's answer after the send is the key of that message
			s.emit("spec.extrakey "+p.id, hx(key))
		}
	case k < 37:
		s.replay(p)
	case k < 38:
		// a new key exchange inside the encrypted session (nothing in flight, the last one a while ago)
		s.reAKE(p, false)
	default:
		s.sendText(p, []byte{})
	}
}

// a new key exchange inside the encrypted session, begun by p's query message
func (s *specScenario) reAKE(p *specParty, shortSecret bool) {
	g := s.g
	s.drain()
	if s.dead || !s.a.c.IsEncrypted() || !s.b.c.IsEncrypted() {
		return
	}
	g.dist["act:re-ake"]++
	otr3.VerifShiftClock(s.a.c, 75*time.Second)
	otr3.VerifShiftClock(s.b.c, 75*time.Second)
	marks := s.beginAKE()
	if shortSecret {
		s.forceShortSecret()
	}
	s.emitted(p, []otr3.ValidMessage{p.c.QueryMessage()}, nil, otr3.VerifSnapshot(p.c))
	if !s.runAKE(marks) {
		s.dead = true
	}
}

// ---------- ending a session ----------

func (s *specScenario) realEnd() {
	p := []*specParty{s.a, s.b}[s.g.r.Intn(2)]
	q := s.peer(p)
	s.g.dist["act:end"]++
	s.call(p, nil, func() ([]otr3.ValidMessage, error) { return p.c.End() })
	s.drain()
	if p.c.IsEncrypted() || q.c.IsEncrypted() {
		specViol("end-not-effective", "after End and delivery of its message a party is still in the encrypted state")
	}
	if st := otr3.VerifSnapshot(q.c).MsgState; st != 2 {
		specViol("end-not-effective", fmt.Sprintf("the peer of the party that ended is in message state %d, not finished", st))
	}
}

// ---------- direction 2: the reference builds, the library reads ----------

func specTLVBytes(t uint16, v []byte) []byte {
	return append([]byte{byte(t >> 8), byte(t), byte(len(v) >> 8), byte(len(v))}, v...)
}

type refMsg struct {
	kind  string
	flags int
	plain []byte
	frag  string
	text  []byte
	tlvs  []specTLV
}

func (m *refMsg) has(typ uint16) bool {
	for _, t := range m.tlvs {
		if t.typ == typ {
			return true
		}
	}
	return false
}

func (g *gen) refMessage(kind string, ver int) refMsg {
	text := g.specText()
	m := refMsg{kind: kind, frag: "0"}
	add := func(t uint16, v []byte) {
		m.tlvs = append(m.tlvs, specTLV{t, v})
	}
	build := func(nul bool) {
		m.plain = append([]byte{}, m.text...)
		if nul {
			m.plain = append(m.plain, 0)
		}
		for _, t := range m.tlvs {
			m.plain = append(m.plain, specTLVBytes(t.typ, t.val)...)
		}
		if len(m.text) == 0 {
			m.flags = 1
		}
	}
	switch kind {
	case "no-tlv":
		m.text = text
		build(true)
	case "no-nul":
		m.text = text
		build(false)
	case "empty-plaintext":
		build(false)
	case "nul-only":
		build(true)
	case "padding":
		m.text = text
		n := []int{0, 1, 7, 255, 256, 1000, 5000}[g.r.Intn(7)]
		v := make([]byte, n)
		if g.r.Intn(2) == 0 {
			v = g.bytesN(n) // "the value may be an arbitrary amount of data"
		}
		add(0, v)
		build(true)
	case "several-tlvs":
		m.text = text
		add(0, g.bytesN(3))
		add(uint16(9+g.r.Intn(65000)), g.bytesN(g.r.Intn(40)))
		add(8, append([]byte{0, 0, byte(g.r.Intn(256)), byte(g.r.Intn(256))}, g.bytesN(g.r.Intn(12))...))
		add(0, g.bytesN(10))
		build(true)
	case "unknown-tlv":
		m.text = text
		add(uint16(9+g.r.Intn(65000)), g.bytesN(g.r.Intn(300)))
		build(true)
	case "smp-abort-empty":
		add(6, []byte{})
		build(true)
	case "fragments-short-k-n", "fragments-short-tags", "fragments":
		m.text = text
		add(0, make([]byte, 100+g.r.Intn(200)))
		build(true)
		m.frag = strconv.Itoa(60 + g.r.Intn(300))
		switch kind {
		case "fragments-short-k-n":
			m.frag += "s" // "?OTR|%08x|%08x,%hu,%hu,%s," / "?OTR,%hu,%hu,%s,"
		case "fragments-short-tags":
			m.frag += "x" // "?OTR|%x|%x,%hu,%hu,%s,": the format string of the document to the letter
		}
	// --- TLV records of types this library does not know ("private extensions" of another client, to
	// be ignored) IN FRONT OF and BETWEEN records it knows: every known record must still be acted upon
	case "unknown-then-disconnect", "unknown-then-extra-key", "unknown-then-smp-abort", "unknown-between-known":
		unk := func() {
			t := uint16(9 + g.r.Intn(65527))
			switch g.r.Intn(4) {
			case 0:
				t = 9 // the first type without a meaning
			case 1:
				t = 0x0100
			case 2:
				t = 0xffff
			}
			add(t, g.bytesN([]int{0, 3, g.r.Intn(40), g.r.Intn(300)}[g.r.Intn(4)]))
		}
		unks := func() {
			for i, n := 0, 1+g.r.Intn(3); i < n; i++ {
				unk()
			}
		}
		xkey := func() {
			add(8, append([]byte{byte(g.r.Intn(256)), byte(g.r.Intn(256)), byte(g.r.Intn(256)), byte(g.r.Intn(256))}, g.bytesN(g.r.Intn(12))...))
		}
		if g.r.Intn(2) == 0 {
			m.text = text
		}
		if g.r.Intn(3) == 0 {
			add(0, g.bytesN(g.r.Intn(8)))
		}
		unks()
		switch kind {
		case "unknown-then-disconnect":
			add(1, []byte{})
		case "unknown-then-extra-key":
			xkey()
			if g.r.Intn(2) == 0 {
				unks()
			}
		case "unknown-then-smp-abort":
			add(6, []byte{})
			if g.r.Intn(2) == 0 {
				unks()
			}
		case "unknown-between-known":
			xkey()
			unks()
			add(6, []byte{})
			unks()
			add(1, []byte{})
		}
		if g.r.Intn(3) == 0 {
			add(0, g.bytesN(g.r.Intn(8)))
		}
		build(true)
	case "disconnect":
		add(1, []byte{})
		build(true)
	case "disconnect-with-text": // a last text in the message that ends the session
		m.text = text
		add(1, []byte{})
		build(true)
	}
	return m
}

func specRunOtrm(lines []string) ([]string, error) {
	f, err := os.CreateTemp("", "specref-*.ops")
	if err != nil {
		return nil, err
	}
	defer os.Remove(f.Name())
	f.WriteString(strings.Join(lines, "\n") + "\n")
	f.Close()
	out, err := exec.Command(specOtrm, f.Name()).Output()
	if err != nil {
		return nil, err
	}
	return strings.Split(strings.TrimRight(string(out), "\n"), "\n"), nil
}

func specParseWire(line string) ([][]byte, bool) {
	if !strings.HasPrefix(line, "wire=[") {
		return nil, false
	}
	end := strings.Index(line, "]")
	if end < 0 {
		return nil, false
	}
	var out [][]byte
	for _, h := range strings.Split(line[6:end], ",") {
		b, err := hex.DecodeString(h)
		if err != nil || len(b) == 0 {
			return nil, false
		}
		out = append(out, b)
	}
	return out, len(out) > 0
}

func (s *specScenario) direction2(from, to *specParty, withDisconnect bool) {
	g := s.g
	kinds := []string{"no-tlv", "no-nul", "empty-plaintext", "nul-only", "padding", "several-tlvs", "unknown-tlv", "smp-abort-empty",
		"fragments-short-k-n", "fragments", "padding"}
	if s.ver == 3 {
		kinds = append(kinds, "fragments-short-tags")
	}
	g.r.Shuffle(len(kinds), func(i, j int) { kinds[i], kinds[j] = kinds[j], kinds[i] })
	kinds = kinds[:4+g.r.Intn(len(kinds)-3)]
	if withDisconnect {
		kinds = append(kinds, []string{"disconnect", "disconnect-with-text"}[g.r.Intn(2)])
	}
	s.direction2Kinds(from, to, kinds)
}

func (s *specScenario) direction2Kinds(from, to *specParty, kinds []string) {
	g := s.g
	// the messages are sent by a copy of `from`'s reference state: the real `from` sends none of them,
	// and its reference twin must stay in step with it
	twin := from.id + "~"
	s.emit(fmt.Sprintf("spec.fork %s %s", from.id, twin), "ok")
	var msgs []refMsg
	var ops []string
	for _, k := range kinds {
		m := g.refMessage(k, s.ver)
		msgs = append(msgs, m)
		ops = append(ops, fmt.Sprintf("spec.send %s %d %s auto %s", twin, m.flags, hx(m.plain), m.frag))
	}
	lines := append(append(append([]string{}, specKeyOps...), s.ops...), ops...)
	out, err := specRunOtrm(lines)
	if err != nil || len(out) != len(lines) {
		specViol("reference-builder-failed", fmt.Sprintf("running %s: %v (%d lines for %d ops)", specOtrm, err, len(out), len(lines)))
		return
	}
	out = out[len(out)-len(ops):]
	for i, m := range msgs {
		s.emit(ops[i], out[i])
		g.dist["direction2:"+m.kind]++
		olog.ok("C10")
		wire, ok := specParseWire(out[i])
		if !ok {
			specViol("reference-builder-failed", fmt.Sprintf("the reference did not build a %s message: %s", m.kind, out[i]))
			continue
		}
		f := &specFlight{wire: wire, kind: "data", text: m.text, flag: byte(m.flags), announced: true}
		if len(wire) == 1 && !isFragmentWire(wire[0]) {
			f.whole = wire[0]
		} else {
			for _, w := range wire {
				_, _, piece, _, _, pok := specParseFragment(w)
				if !pok {
					specViol("reference-builder-failed", fmt.Sprintf("the reference built something that is not a fragment: %.60q", w))
				}
				f.whole = append(f.whole, piece...)
				g.dist["direction2:fragment"]++
			}
		}
		key := "reference-message-rejected:" + m.kind
		describe := func(what string) string {
			return fmt.Sprintf("%s, version %d, message kind %s: %s; plaintext %x; wire %q", to.id, s.ver, m.kind, what, m.plain, wire)
		}
		// how the addressee dissects it (before it consumes it)
		_, types, values, peekOK := otr3.VerifPeekTLVs(to.c, f.whole)
		if !peekOK {
			specViol(key, describe("the library cannot authenticate/open the reassembled message"))
		} else {
			same := len(types) == len(m.tlvs)
			for j := 0; same && j < len(types); j++ {
				same = types[j] == m.tlvs[j].typ && bytes.Equal(values[j], m.tlvs[j].val)
			}
			if !same {
				specViol(key, describe(fmt.Sprintf("the library reads TLVs %v %x", types, values)))
			}
		}
		if m.kind == "disconnect-with-text" {
			// long after the addressee last sent anything: a heartbeat would be due
			otr3.VerifShiftClock(to.c, 90*time.Second)
		}
		if m.has(6) && otr3.VerifSnapshot(to.c).SmpState <= 1 {
			// an abort is only interesting while something is there to abort: the addressee has a run of
			// its own under way (its request is never delivered)
			s.call(to, nil, func() ([]otr3.ValidMessage, error) { return to.c.StartAuthenticate("", []byte("never answered")) })
			s.g.dist["direction2:smp-abort-empty:run-in-progress"]++
		}
		smpBefore := otr3.VerifSnapshot(to.c).SmpState
		if !s.deliverData(to, f, "", m.kind) {
			specViol(key, describe("Receive rejected the message or returned a different text"))
		}
		if s.dead {
			return
		}
		// every TLV of a type the library knows has been acted upon, whatever stands between them: an
		// extra symmetric key TLV (type 8, at least the four bytes of the use) is announced to the application
		var wantKeys, gotKeys []string
		for _, t := range m.tlvs {
			if t.typ == 8 && len(t.val) >= 4 {
				wantKeys = append(wantKeys, fmt.Sprintf("%d:%s", uint32(t.val[0])<<24|uint32(t.val[1])<<16|uint32(t.val[2])<<8|uint32(t.val[3]), hx(t.val[4:])))
			}
		}
		for _, e := range s.lastEvs {
			if parts := strings.SplitN(e, ":", 4); len(parts) == 4 && parts[0] == "key" {
				gotKeys = append(gotKeys, parts[1]+":"+parts[2])
			}
		}
		if len(wantKeys) > 0 {
			olog.ok("C10")
			if strings.Join(wantKeys, ",") != strings.Join(gotKeys, ",") {
				specViol("tlv-not-acted-upon", describe(fmt.Sprintf("the message carries extra symmetric key TLVs (type 8) with use:data %v, the application was told of %v", wantKeys, gotKeys)))
			}
		}
		if m.has(1) {
			if st := otr3.VerifSnapshot(to.c).MsgState; st != 2 {
				specViol(key, describe(fmt.Sprintf("message state %d after a type 1 TLV", st)))
			}
			// C03: the peer has ended the conversation (in the form the protocol document gives, which is
			// not the form this library writes): nothing the user says now may go out
			olog.ok("C03")
			var out []otr3.ValidMessage
			var serr error
			said := []byte("said after the goodbye")
			if guard(func() string { out, serr = to.c.Send(otr3.ValidMessage(said)); return "" }) == "PANIC" {
				olog.viol("C13", "send-panics", describe("Send after the peer's disconnect panicked"))
			} else if serr == nil || len(out) > 0 {
				olog.viol("C03", "send-after-peer-disconnect", describe(fmt.Sprintf("after the peer's disconnect message (TLV type 1) IsEncrypted() = %v and Send(%q) returns err=%v and %d message(s): the text leaves the machine although the conversation has ended", to.c.IsEncrypted(), said, serr, len(out))))
			}
			if s.appended {
				// the reference's copy of the addressee is asked to send too: it has finished and refuses
				res := fmt.Sprintf("sent err=%v messages=%d", serr, len(out))
				if serr != nil && len(out) == 0 {
					res = "error not-encrypted"
				}
				s.emit(fmt.Sprintf("spec.send %s 0 %s auto 0", to.id, hx(append(append([]byte{}, said...), 0))), res)
			}
		}
		if m.has(6) {
			olog.ok("C12")
			if st := otr3.VerifSnapshot(to.c).SmpState; st > 1 {
				specViol(key, describe(fmt.Sprintf("SMP state %d -> %d after an SMP abort", smpBefore, st)))
				olog.viol("C12", "abort-in-protocol-form-not-honoured", describe(fmt.Sprintf("SMP state %d -> %d after an SMP abort TLV with an empty value (the form the protocol document prescribes): the run is not reset, the next honest run cannot succeed", smpBefore, st)))
			}
		}
	}
}

// ---------- the library's own signing routine ----------
//
// The parties above sign through detKey, which builds the 40 bytes itself; DSAPrivateKey.Sign - the
// routine an application's key really signs with - is exercised here, directly and in a key exchange.
// The document: a signature is (r, s), each a 20 byte big-endian unsigned number, i.e. a number with
// fewer than 20 significant bytes (one in 256) is padded with zero bytes ON THE LEFT.

// a randomness source that makes crypto/dsa.Sign deterministic and cannot run dry: dsa.Sign reads one
// extra byte now and then (a one byte read, its value is not used) and then the nonce in reads of the
// size of q; the one byte reads are answered apart, so the nonces do not depend on them
type sigNonceReader struct {
	r     *rand.Rand
	fixed [][]byte // nonces handed out first
	last  []byte   // the nonce handed out last
}

func (n *sigNonceReader) Read(p []byte) (int, error) {
	if len(p) == 1 {
		p[0] = 0
		return 1, nil
	}
	if len(n.fixed) > 0 && len(n.fixed[0]) == len(p) {
		copy(p, n.fixed[0])
		n.fixed = n.fixed[1:]
	} else {
		n.r.Read(p)
	}
	n.last = append(n.last[:0], p...)
	return len(p), nil
}

// the signature the document prescribes for this key, value and nonce (nil if the nonce is not usable)
func specDSASign(k *otr3.DSAPrivateKey, hashed, nonce []byte) (r, s *big.Int) {
	priv := &k.PrivateKey
	kk := new(big.Int).SetBytes(nonce)
	if kk.Sign() == 0 || kk.Cmp(priv.Q) >= 0 {
		return nil, nil
	}
	r = new(big.Int).Exp(priv.G, kk, priv.P)
	r.Mod(r, priv.Q)
	s = new(big.Int).Mul(priv.X, r)
	s.Add(s, new(big.Int).SetBytes(hashed)).Mul(s, new(big.Int).ModInverse(kk, priv.Q)).Mod(s, priv.Q)
	if r.Sign() == 0 || s.Sign() == 0 {
		return nil, nil
	}
	return r, s
}

// a nonce for which the r ("r") or the s ("s") of the signature on hashed has a zero top byte
func specSteerNonce(k *otr3.DSAPrivateKey, hashed []byte, which string, rr *rand.Rand) []byte {
	nonce := make([]byte, 20)
	for {
		rr.Read(nonce)
		r, s := specDSASign(k, hashed, nonce)
		if r == nil {
			continue
		}
		if (which == "r" && r.BitLen() <= 152) || (which == "s" && s.BitLen() <= 152) || which == "" {
			return nonce
		}
	}
}

// one signature made by DSAPrivateKey.Sign, read as the document reads it
func (g *gen) specCheckSignature(where string, keyIdx int, hashed, nonce, sig []byte, err error) bool {
	k := testKeys[keyIdx]
	olog.ok("C10")
	er, es := specDSASign(k, hashed, nonce)
	in := fmt.Sprintf("%s: test key %d, value signed %x, nonce %x", where, keyIdx, hashed, nonce)
	if er != nil {
		in += fmt.Sprintf(" (the document's signature: r=%040x s=%040x)", er, es)
		if er.BitLen() <= 152 {
			g.dist["sign:short-r"]++
		}
		if es.BitLen() <= 152 {
			g.dist["sign:short-s"]++
		}
	}
	if err != nil || len(sig) != 40 {
		specViol("signature-not-as-specified", fmt.Sprintf("%s: Sign returned %x, %v", in, sig, err))
		return false
	}
	r, s := new(big.Int).SetBytes(sig[:20]), new(big.Int).SetBytes(sig[20:])
	if !dsa.Verify(&k.PrivateKey.PublicKey, hashed, r, s) {
		specViol("signature-not-as-specified", fmt.Sprintf("%s: Sign returned %x; read as two 20 byte big-endian numbers r=%040x s=%040x this is not a valid signature of the value", in, sig, r, s))
		return false
	}
	if er != nil {
		want := make([]byte, 40)
		er.FillBytes(want[:20])
		es.FillBytes(want[20:])
		if !bytes.Equal(want, sig) {
			specViol("signature-not-as-specified", fmt.Sprintf("%s: Sign returned %x (r=%040x s=%040x)", in, sig, r, s))
			return false
		}
	}
	if rest, ok := k.PublicKey().Verify(hashed, sig); !ok || len(rest) != 0 {
		specViol("signature-not-as-specified", fmt.Sprintf("%s: Sign returned %x (r=%040x s=%040x), valid as the document reads it, but the library's own Verify says %v, rest %x", in, sig, r, s, ok, rest))
		return false
	}
	return true
}

const specSignaturesPerKey = 1500

func (g *gen) specSignatures() {
	rr := rand.New(rand.NewSource(g.r.Int63()))
	for ki, k := range testKeys {
		nr := &sigNonceReader{r: rand.New(rand.NewSource(rr.Int63()))}
		// the last four: nonces chosen so that r, or s, is short
		for i := 0; i < specSignaturesPerKey+4; i++ {
			hashed := make([]byte, 32)
			rr.Read(hashed)
			where := "DSAPrivateKey.Sign"
			if i >= specSignaturesPerKey {
				which := []string{"r", "s"}[i%2]
				nr.fixed = [][]byte{specSteerNonce(k, hashed, which, rr)}
				where += " (short " + which + ")"
			}
			sig, err := k.Sign(nr, hashed)
			g.specCheckSignature(where, ki, hashed, nr.last, sig, err)
			g.dist["sign:direct"]++
		}
	}
}

// a key whose signatures are made by DSAPrivateKey.Sign with a chosen nonce
type steerKey struct {
	*otr3.DSAPrivateKey
	g      *gen
	keyIdx int
	which  string
	rr     *rand.Rand
	where  string
	made   int
	bad    int
}

func (k *steerKey) Sign(_ io.Reader, hashed []byte) ([]byte, error) {
	nr := &sigNonceReader{r: k.rr, fixed: [][]byte{specSteerNonce(k.DSAPrivateKey, hashed, k.which, k.rr)}}
	sig, err := k.DSAPrivateKey.Sign(nr, hashed)
	k.made++
	if !k.g.specCheckSignature(k.where, k.keyIdx, hashed, nr.last, sig, err) {
		k.bad++
	}
	return sig, err
}

// one key exchange in which a party's signature has a short s (the other's a short r, or nothing
// special), made by the library's own signing routine: the peer has to accept it
func (g *gen) specShortSignatureExchange() {
	rr := rand.New(rand.NewSource(g.r.Int63()))
	ver := 2 + rr.Intn(2)
	kA := rr.Intn(len(testKeys))
	kB := (kA + 1 + rr.Intn(len(testKeys)-1)) % len(testKeys)
	whichA, whichB := "s", []string{"r", "", "s"}[rr.Intn(3)]
	if rr.Intn(2) == 0 {
		whichA, whichB = whichB, whichA
	}
	mk := func(id string, keyIdx int, which string) (*otr3.Conversation, *steerKey) {
		c := &otr3.Conversation{}
		c.Rand = rand.New(rand.NewSource(rr.Int63()))
		c.Policies = 0
		verifSetPolicies(c, map[int]int{2: 2, 3: 4}[ver])
		sk := &steerKey{DSAPrivateKey: testKeys[keyIdx], g: g, keyIdx: keyIdx, which: which, rr: rand.New(rand.NewSource(rr.Int63())),
			where: fmt.Sprintf("key exchange (version %d), signature of party %s, short %q", ver, id, which)}
		c.SetOurKeys([]otr3.PrivateKey{sk})
		return c, sk
	}
	a, ka := mk("A", kA, whichA)
	b, kb := mk("B", kB, whichB)
	msgs, to := []otr3.ValidMessage{a.QueryMessage()}, b
	var errs []string
	for round := 0; round < 8 && len(msgs) > 0; round++ {
		var next []otr3.ValidMessage
		for _, m := range msgs {
			_, ts, err := to.Receive(m)
			if err != nil {
				errs = append(errs, err.Error())
			}
			next = append(next, ts...)
		}
		msgs = next
		if to == b {
			to = a
		} else {
			to = b
		}
	}
	done := a.IsEncrypted() && b.IsEncrypted()
	g.dist[fmt.Sprintf("sign:exchange-with-short-s:completed-%v", done)]++
	olog.ok("C10")
	if !done && ka.bad+kb.bad == 0 {
		specViol("well-formed-signature-not-accepted", fmt.Sprintf("key exchange (version %d, test keys %d and %d, short %q / %q) with %d signatures that are as the document prescribes did not complete: %v", ver, kA, kB, whichA, whichB, ka.made+kb.made, errs))
	}
}

// ---------- a scenario ----------

func (g *gen) specScenario(idx int) {
	s := &specScenario{g: g, base: fmt.Sprintf("k%d", idx), deliv: map[*specParty][]*specFlight{}}
	ver := 2 + g.r.Intn(2)
	var allowP, allowQ int
	if ver == 3 {
		allowP, allowQ = []int{4, 6}[g.r.Intn(2)], []int{4, 6}[g.r.Intn(2)]
	} else {
		c := [][2]int{{2, 2}, {2, 6}, {6, 2}}[g.r.Intn(3)]
		allowP, allowQ = c[0], c[1]
	}
	mode := g.r.Intn(4)
	polP, polQ := allowP, allowQ
	switch mode {
	case 1:
		polP |= 16
		polQ |= 32
	case 2:
		polP |= 8
	case 3:
		polP |= 64
	}
	frag := func() int {
		switch g.r.Intn(6) {
		case 0:
			return 60 + g.r.Intn(40)
		case 1:
			return 100 + g.r.Intn(400)
		case 2:
			return 1000 + g.r.Intn(2000)
		}
		return 0
	}
	kP := g.r.Intn(len(testKeysHex))
	kQ := (kP + 1 + g.r.Intn(len(testKeysHex)-1)) % len(testKeysHex)
	s.a = specNewParty(g, s.base+"a", polP, kP, frag())
	s.b = specNewParty(g, s.base+"b", polQ, kQ, frag())
	// some parties have instance tags with fewer than eight hex digits (chosen by the application)
	for _, p := range []*specParty{s.a, s.b} {
		switch g.r.Intn(4) {
		case 0:
			p.c.InitializeInstanceTag(0x100 + uint32(g.r.Intn(0x1000)))
			g.dist["tag:preset-small"]++
		case 1:
			p.c.InitializeInstanceTag(0x100 + g.r.Uint32()%0xffffff00)
		}
	}
	g.dist[fmt.Sprintf("start-mode:%d", mode)]++
	g.dist[fmt.Sprintf("fragsize:%v", s.a.frag > 0)]++
	g.dist[fmt.Sprintf("fragsize:%v", s.b.frag > 0)]++
	snap := otr3.VerifSnapshot(s.a.c)
	marks := s.beginAKE()
	// in every run: one session whose first key exchange, and one whose re-keying exchange, has a
	// shared secret with a zero top byte
	if idx%6 == 0 {
		s.forceShortSecret()
	}
	switch mode {
	case 0:
		s.emitted(s.a, []otr3.ValidMessage{s.a.c.QueryMessage()}, nil, snap)
	case 1:
		s.sendText(s.a, g.specText())
	case 2:
		text := g.specText()
		s.a.queued = text
		s.call(s.a, nil, func() ([]otr3.ValidMessage, error) { return s.a.c.Send(otr3.ValidMessage(text)) })
	case 3:
		// an OTR Error Message makes a party with ERROR_START_AKE reply with a query
		em := []byte("?OTR Error: something went wrong")
		_, ts, _, _ := s.receiveAll(s.a, &specFlight{wire: [][]byte{em}, whole: em, kind: "error"})
		s.emitted(s.a, ts, nil, snap)
	}
	if !s.runAKE(marks) || s.dead {
		return
	}
	steps := 8 + g.r.Intn(22)
	for i := 0; i < steps && !s.dead; i++ {
		s.step()
	}
	if idx%6 == 1 && !s.dead {
		s.reAKE([]*specParty{s.a, s.b}[g.r.Intn(2)], true)
		for i, n := 0, 3+g.r.Intn(6); i < n && !s.dead; i++ {
			s.step()
		}
	}
	s.drain()
	if s.dead || !s.a.c.IsEncrypted() || !s.b.c.IsEncrypted() {
		return
	}
	if specOtrm == "" || g.r.Intn(3) == 0 {
		s.realEnd()
		if s.dead || g.r.Intn(4) == 0 {
			return
		}
		// a further conversation after the goodbye, begun by the side that said it (in plaintext now) or
		// by the side that heard it (still in the finished state): everything as in a first one
		st := []*specParty{s.a, s.b}[g.r.Intn(2)]
		g.dist[fmt.Sprintf("act:session-after-end:from-msgstate-%d", otr3.VerifSnapshot(st.c).MsgState)]++
		otr3.VerifShiftClock(s.a.c, 75*time.Second)
		otr3.VerifShiftClock(s.b.c, 75*time.Second)
		marks := s.beginAKE()
		s.emitted(st, []otr3.ValidMessage{st.c.QueryMessage()}, nil, otr3.VerifSnapshot(st.c))
		if !s.runAKE(marks) || s.dead {
			return
		}
		for i, n := 0, 4+g.r.Intn(8); i < n && !s.dead; i++ {
			s.step()
		}
		s.drain()
		return
	}
	s.noQueue = true
	first, second := s.a, s.b
	if g.r.Intn(2) == 0 {
		first, second = s.b, s.a
	}
	s.direction2(first, second, false)
	if !s.dead && g.r.Intn(4) != 0 {
		s.direction2(second, first, g.r.Intn(2) == 0)
	}
}

// ---------- appended scenarios: unknown TLV types in front of and between known ones ----------
//
// A data message may carry TLV records of types the addressee has never heard of (another client's
// extension); they are skipped, and every record behind them counts as if they were not there.  The
// reference builds such messages for a short real session: an extra symmetric key request, an SMP abort
// (while a run of the addressee is under way) and - last - the peer's goodbye (type 1), each behind one
// or more unknown records.  After the goodbye the conversation has ended: Send must refuse (C03).
func (g *gen) specUnknownTLVScenario(idx int) {
	s := &specScenario{g: g, base: fmt.Sprintf("u%d", idx), deliv: map[*specParty][]*specFlight{}, appended: true}
	ver := 2 + idx%2 // both versions in every run
	pol := func() int {
		if ver == 2 {
			return 2
		}
		return []int{4, 6}[g.r.Intn(2)]
	}
	frag := func() int {
		if g.r.Intn(3) == 0 {
			return 80 + g.r.Intn(400)
		}
		return 0
	}
	kP := g.r.Intn(len(testKeysHex))
	kQ := (kP + 1 + g.r.Intn(len(testKeysHex)-1)) % len(testKeysHex)
	s.a = specNewParty(g, s.base+"a", pol(), kP, frag())
	s.b = specNewParty(g, s.base+"b", pol(), kQ, frag())
	g.dist["appended:unknown-tlv-session"]++
	snap := otr3.VerifSnapshot(s.a.c)
	marks := s.beginAKE()
	s.emitted(s.a, []otr3.ValidMessage{s.a.c.QueryMessage()}, nil, snap)
	if !s.runAKE(marks) || s.dead {
		return
	}
	for i, n := 0, 2+g.r.Intn(8); i < n && !s.dead; i++ {
		s.step()
	}
	s.drain()
	if s.dead || specOtrm == "" || !s.a.c.IsEncrypted() || !s.b.c.IsEncrypted() {
		return
	}
	s.noQueue = true
	first, second := s.a, s.b
	if g.r.Intn(2) == 0 {
		first, second = s.b, s.a
	}
	// one way: the records that leave the conversation open
	open := []string{"unknown-then-extra-key", "unknown-then-smp-abort", "unknown-tlv", "several-tlvs"}
	g.r.Shuffle(len(open), func(i, j int) { open[i], open[j] = open[j], open[i] })
	s.direction2Kinds(first, second, open[:2+g.r.Intn(3)])
	if s.dead {
		return
	}
	// the other way: some of them, then the goodbye behind unknown records
	g.r.Shuffle(len(open), func(i, j int) { open[i], open[j] = open[j], open[i] })
	last := []string{"unknown-then-disconnect", "unknown-then-disconnect", "unknown-between-known"}[g.r.Intn(3)]
	s.direction2Kinds(second, first, append(append([]string{}, open[:g.r.Intn(3)]...), last))
}

func init() {
	profiles["spec"] = func(seed int64, n int, out *emitter, extra map[string]interface{}) map[string]int {
		g := &gen{r: rand.New(rand.NewSource(seed)), out: out, dist: map[string]int{}}
		olog = &oracleLog{checked: map[string]int{}, out: out}
		specViolCount = map[string]int{}
		loadKeys()
		specOtrm = os.Getenv("VERIF_OTRM")
		if specOtrm == "" {
			specOtrm = "/verif/lean/.lake/build/bin/otrm"
		}
		extra["reference_builder"] = specOtrm
		if _, err := os.Stat(specOtrm); err != nil {
			specOtrm = ""
		} else if res, err := specRunOtrm([]string{"spec.query 1 1"}); err != nil || len(res) != 1 || res[0] != hx([]byte("?OTRv23?")) {
			specOtrm = "" // a driver that does not know the spec.* ops
		}
		if specOtrm == "" {
			extra["reference_builder"] = "missing"
		}
		specKeyOps = nil
		for i, k := range testKeys {
			op := fmt.Sprintf("spec.key %d %s %s %s %s", i, hx(k.PrivateKey.P.Bytes()), hx(k.PrivateKey.Q.Bytes()), hx(k.PrivateKey.G.Bytes()), hx(k.PrivateKey.Y.Bytes()))
			specKeyOps = append(specKeyOps, op)
			out.emit(op, "ok")
		}
		for i := 0; i < n; i++ {
			g.specScenario(i)
		}
		// after the scenarios (their randomness is not shifted): the library's own signing routine
		g.specShortSignatureExchange()
		g.specSignatures()
		// appended (after everything that was there before): unknown TLV types between known ones
		for i, k := 0, 3+n/8; i < k; i++ {
			g.specUnknownTLVScenario(i)
		}
		extra["panics"] = panicCount
		extra["violation_counts"] = specViolCount
		olog.export(extra)
		return g.dist
	}
}
