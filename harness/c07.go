package main

// Profile "c07" (C07): every delivery schedule of every start pattern of the key exchange on two
// FIFO queues, run on the real implementation until quiescence, compared with the abstract AKE
// system of Otr/AkeAbs.lean (driver op "akeabs") and checked against the property itself:
// at quiescence both sides are encrypted in one common session.

import (
	"bytes"
	"fmt"
	"math/rand"

	otr3 "github.com/coyim/otr3"
)

var authNames = []string{"none", "awaitDHKey", "awaitRevealSig", "awaitSig"}

// 0: both sides allow exactly the version under test; 1/2: a resp. b allows both versions
var c07mix int

type c07sys struct {
	l *link
	w *world
}

func (g *gen) c07start(w *world, pattern int, version int, polExtra int, prelude int) *c07sys {
	w.parties = map[string]*party{}
	w.dead = false
	pol := 2
	if version == 3 {
		pol = 4
	}
	polA, polB := pol, pol
	switch c07mix { // one side allows both versions, the other only the one under test
	case 1:
		polA = 6
	case 2:
		polB = 6
	}
	wsA, wsB := 32, 16
	if pattern == 9 { // the whitespace start in the other direction: A sends the tag, B starts
		wsA, wsB = 16, 32
	}
	a := w.newParty(partyCfg{policies: polA | polExtra | wsA, keyIdx: 0})
	b := w.newParty(partyCfg{policies: polB | polExtra | wsB, keyIdx: 1})
	l := &link{w: w, a: a, b: b}
	establish := func() {
		l.enqueue(b, []otr3.ValidMessage{w.query(b)})
		l.settle(20)
		w.tick(3600)
	}
	// preludes: the exchange under test restarts a conversation pair whose previous session was ended
	// by one side, immediately (no time passes: the 60 s window after the last key exchange message
	// must not swallow the restart). Abstractly this is the same start pattern.
	if prelude > 0 {
		l.enqueue(b, []otr3.ValidMessage{w.query(b)})
		l.settle(20)
		e, o := a, b
		if prelude%2 == 0 {
			e, o = b, a
		}
		ts, _ := w.end(e)
		l.enqueue(e, ts)
		l.settle(6) // o is now finished
		if prelude >= 3 {
			ts, _ = w.end(o)
			l.enqueue(o, ts)
			l.settle(6)
		}
	}
	switch pattern {
	case 1:
		l.enqueue(b, []otr3.ValidMessage{w.query(b)})
	case 2:
		l.enqueue(a, []otr3.ValidMessage{w.query(a)})
	case 3:
		l.enqueue(b, []otr3.ValidMessage{w.query(b)})
		l.enqueue(a, []otr3.ValidMessage{w.query(a)})
	case 4:
		l.enqueue(b, []otr3.ValidMessage{w.query(b)})
		l.enqueue(a, []otr3.ValidMessage{w.query(a)})
		l.deliver(false)
		l.deliver(true)
	case 5:
		establish()
		l.enqueue(b, []otr3.ValidMessage{w.query(b)})
	case 6:
		// B sends a whitespace-tagged plaintext, A (whitespaceStartAKE) starts the exchange
		ts, _ := w.send(b, []byte("hello"))
		l.enqueue(b, ts)
		l.deliver(false)
	case 9:
		// pattern 6 with the roles exchanged: A sends a whitespace-tagged plaintext, B
		// (whitespaceStartAKE) starts the exchange. In the link (and so in the schedule string, the
		// final state and the abstract system) the starting side is the link's first party, as in 6.
		ts, _ := w.send(a, []byte("hello"))
		l.enqueue(a, ts)
		l.deliver(true)
		l.a, l.b = b, a
		l.qab, l.qba = l.qba, l.qab
	case 7:
		l.enqueue(b, []otr3.ValidMessage{w.query(b), w.query(b)})
	case 8:
		establish()
		l.enqueue(b, []otr3.ValidMessage{w.query(b)})
		l.enqueue(a, []otr3.ValidMessage{w.query(a)})
	}
	return &c07sys{l: l, w: w}
}

func (s *c07sys) describe() string {
	sa, sb := otr3.VerifSnapshot(s.l.a.c), otr3.VerifSnapshot(s.l.b.c)
	same := s.l.a.c.IsEncrypted() && s.l.b.c.IsEncrypted() && bytes.Equal(sa.SSID, sb.SSID)
	return fmt.Sprintf("%s/%s/%v/%v/%v", authNames[sa.AkeState], authNames[sb.AkeState], s.l.a.c.IsEncrypted(), s.l.b.c.IsEncrypted(), same)
}

// enumerate all maximal schedules by re-running from the start for every prefix extension
func (g *gen) c07explore(w *world, pattern, version, polExtra, prelude int, budget *int) {
	var rec func(prefix []bool)
	rec = func(prefix []bool) {
		if *budget <= 0 || len(prefix) > 14 {
			return
		}
		s := g.c07start(w, pattern, version, polExtra, prelude)
		for _, b := range prefix {
			s.l.deliver(b)
		}
		canAB, canBA := len(s.l.qab) > 0, len(s.l.qba) > 0
		// no choice while only one queue holds messages: go on in the same run
		for canAB != canBA {
			if len(prefix) >= 14 {
				return
			}
			prefix = append(append([]bool{}, prefix...), canAB)
			s.l.deliver(canAB)
			canAB, canBA = len(s.l.qab) > 0, len(s.l.qba) > 0
		}
		if !canAB && !canBA {
			*budget--
			sched := ""
			for _, b := range prefix {
				if b {
					sched += ">"
				} else {
					sched += "<"
				}
			}
			if sched == "" {
				sched = "-"
			}
			d := s.describe()
			// correspondence with the abstract model: it must predict this final state for one of the hash orders
			abs := pattern
			if pattern == 9 {
				abs = 6
			}
			g.out.emit(fmt.Sprintf("akeabs %d %s", abs, sched), d)
			olog.ok("C07")
			g.dist[fmt.Sprintf("c07:pattern%d:%s", pattern, d)]++
			sa, sb := otr3.VerifSnapshot(s.l.a.c), otr3.VerifSnapshot(s.l.b.c)
			ok := s.l.a.c.IsEncrypted() && s.l.b.c.IsEncrypted() && bytes.Equal(sa.SSID, sb.SSID) && sa.AkeState == 0 && sb.AkeState == 0
			if !ok {
				key := "exchange-does-not-complete"
				if sa.AkeState == 2 && sb.AkeState == 2 {
					key = "ake-collision-deadlock"
				}
				olog.viol("C07", key, fmt.Sprintf("start pattern %d (prelude %d), OTRv%d, schedule %s ends quiescent in %s [%s]", pattern, prelude, version, sched, d, c07what(pattern, prelude)))
			} else if bytes.Equal(sa.SSID, make([]byte, len(sa.SSID))) {
				// one common session has a session id (the first 64 bits of a hash of the shared secret)
				olog.viol("C07", "no-session-id", fmt.Sprintf("start pattern %d (prelude %d), OTRv%d, schedule %s: both sides are encrypted at quiescence and report the empty session id %x [%s]", pattern, prelude, version, sched, sa.SSID, c07what(pattern, prelude)))
			}
			return
		}
		if canAB {
			rec(append(append([]bool{}, prefix...), true))
		}
		if canBA {
			rec(append(append([]bool{}, prefix...), false))
		}
	}
	rec(nil)
}

// whitespace starts {pattern, prelude} after a previous session was ended: the side that sends the
// tagged text must have ended its session (Send refuses in the finished state), the receiver is
// finished (6 after 2, 9 after 1) or has ended it too
var c07wsRestarts = [][2]int{{6, 2}, {9, 1}, {6, 3}, {9, 3}, {6, 4}, {9, 4}}

// the concrete start, for violation reports
func c07what(pattern, prelude int) string {
	s := ""
	switch prelude {
	case 1:
		s = "session established by B's query, A calls End(), B receives the disconnect (finished); then "
	case 2:
		s = "session established by B's query, B calls End(), A receives the disconnect (finished); then "
	case 3:
		s = "session established by B's query, A calls End(), B receives the disconnect and calls End(); then "
	case 4:
		s = "session established by B's query, B calls End(), A receives the disconnect and calls End(); then "
	}
	switch pattern {
	case 1:
		s += "A receives B's query"
	case 2:
		s += "B receives A's query"
	case 6:
		s += "B (SEND_WHITESPACE_TAG) calls Send(\"hello\") and A (WHITESPACE_START_AKE) receives the tagged plaintext; in the schedule > is A to B"
	case 9:
		s += "A (SEND_WHITESPACE_TAG) calls Send(\"hello\") and B (WHITESPACE_START_AKE) receives the tagged plaintext; in the schedule and the final state the two sides are exchanged (> is B to A)"
	default:
		s += fmt.Sprintf("start pattern %d", pattern)
	}
	switch c07mix {
	case 1:
		s += "; A allows v2 and v3"
	case 2:
		s += "; B allows v2 and v3"
	}
	return s
}

// ---------------------------------------------------------------------------------------------
// Start triggers REPEATED IN FLIGHT: the trigger that started the exchange (a whitespace-tagged
// text, a query, a Send under REQUIRE_ENCRYPTION) occurs a second time after `at` messages of the
// first exchange have been delivered. One side may then complete two exchanges (the second one
// while it is already encrypted) and the other side only one. Every maximal delivery schedule is
// run; at quiescence the property itself is judged: both sides encrypted, no exchange pending, ONE
// COMMON session (equal, published session ids), and the session carries a text in each direction.

var c07repNames = map[int]string{
	1: "A (SEND_WHITESPACE_TAG) calls Send(\"hello\") towards B (WHITESPACE_START_AKE); repeated trigger: A calls Send(\"there\")",
	2: "B's query is on its way to A; repeated trigger: a second query of B is put on the wire",
	3: "B's query is on its way to A; repeated trigger: 75 s pass and a second query of B is put on the wire",
	4: "A (REQUIRE_ENCRYPTION) calls Send(\"hello\") (a query goes out, the text is kept); repeated trigger: A calls Send(\"again\")",
	5: "A (REQUIRE_ENCRYPTION) calls Send(\"hello\") (a query goes out, the text is kept); repeated trigger: 75 s pass and A calls Send(\"again\")",
}

// the system at the start, and the repeated trigger
func (g *gen) c07repStart(w *world, kind, version int) (*c07sys, func()) {
	w.parties = map[string]*party{}
	w.dead = false
	pol := 2
	if version == 3 {
		pol = 4
	}
	polA, polB := pol, pol
	switch kind {
	case 1:
		polA, polB = pol|16, pol|32
	case 4, 5:
		polA = pol | 8
	}
	a := w.newParty(partyCfg{policies: polA, keyIdx: 0})
	b := w.newParty(partyCfg{policies: polB, keyIdx: 1})
	l := &link{w: w, a: a, b: b}
	var again func()
	switch kind {
	case 1:
		ts, _ := w.send(a, []byte("hello"))
		l.enqueue(a, ts)
		again = func() {
			ts, _ := w.send(a, []byte("there"))
			l.enqueue(a, ts)
		}
	case 2, 3:
		l.enqueue(b, []otr3.ValidMessage{w.query(b)})
		again = func() {
			if kind == 3 {
				w.tick(75)
			}
			l.enqueue(b, []otr3.ValidMessage{w.query(b)})
		}
	case 4, 5:
		ts, _ := w.send(a, []byte("hello"))
		l.enqueue(a, ts)
		again = func() {
			if kind == 5 {
				w.tick(75)
			}
			ts, _ := w.send(a, []byte("again"))
			l.enqueue(a, ts)
		}
	}
	return &c07sys{l: l, w: w}, again
}

// one text from `from` to `to` over the settled link; what `to` is shown
func (s *c07sys) c07ping(from, to *party, text string) (got string, ok bool) {
	ts, err := s.w.send(from, []byte(text))
	if err != nil {
		return "Send: " + err.Error(), false
	}
	got = "nothing"
	for _, m := range ts {
		plain, back, err, _ := s.w.recv(to, m)
		s.l.enqueue(to, back)
		if err != nil {
			return "Receive: " + err.Error(), false
		}
		if plain != nil {
			got = fmt.Sprintf("%q", plain)
			ok = string(plain) == text
		}
	}
	s.l.settle(6)
	return
}

// the maximal schedules already run from one start: a binary tree over the delivery CHOICES (forced
// deliveries have no node); a walk never enters a subtree that is exhausted
type c07node struct {
	kid  [2]*c07node
	done bool
}

// Up to `count` different maximal schedules of one start (kind, version, position of the repeated
// trigger), drawn by random walks that avoid what was run already: exhaustive when the start has at
// most `count` schedules, a random sample otherwise.
func (g *gen) c07exploreRepeat(w *world, kind, version, at int, count int, budget *int) {
	const maxLen = 24
	root := &c07node{}
	for run := 0; run < count && *budget > 0 && !root.done; run++ {
		s, again := g.c07repStart(w, kind, version)
		delivered, repeated := 0, false
		sched := ""
		path := []*c07node{root}
		for {
			if !repeated && delivered == at && len(s.l.qab)+len(s.l.qba) > 0 {
				repeated = true
				again()
				sched += "!"
			}
			canAB, canBA := len(s.l.qab) > 0, len(s.l.qba) > 0
			if !canAB && !canBA || delivered >= maxLen {
				break
			}
			toB := canAB
			if canAB && canBA {
				n := path[len(path)-1]
				for i := range n.kid {
					if n.kid[i] == nil {
						n.kid[i] = &c07node{}
					}
				}
				c := g.r.Intn(2)
				if n.kid[c].done {
					c = 1 - c
				}
				path = append(path, n.kid[c])
				toB = c == 1
			}
			s.l.deliver(toB)
			delivered++
			if toB {
				sched += ">"
			} else {
				sched += "<"
			}
		}
		path[len(path)-1].done = true
		for i := len(path) - 2; i >= 0; i-- {
			path[i].done = path[i].kid[0].done && path[i].kid[1].done
		}
		if !repeated {
			return // the exchange was over before position `at`: no trigger in flight
		}
		*budget--
		d := s.describe()
		olog.ok("C07")
		g.dist[fmt.Sprintf("c07:repeat%d:%s", kind, d)]++
		g.dist[fmt.Sprintf("c07:repeat%d:at%d", kind, at)]++
		a, b := s.l.a, s.l.b
		sa, sb := otr3.VerifSnapshot(a.c), otr3.VerifSnapshot(b.c)
		where := fmt.Sprintf("%s, after %d deliveries; OTRv%d, schedule %s (> is A to B, ! the repeated trigger)", c07repNames[kind], at, version, sched)
		switch {
		case len(s.l.qab)+len(s.l.qba) > 0:
			olog.viol("C07", "exchange-does-not-come-to-rest", fmt.Sprintf("%s: messages are still in flight after %d deliveries, state %s", where, delivered, d))
		case !(a.c.IsEncrypted() && b.c.IsEncrypted() && sa.AkeState == 0 && sb.AkeState == 0):
			key := "exchange-does-not-complete"
			if sa.AkeState == 2 && sb.AkeState == 2 {
				key = "ake-collision-deadlock"
			}
			olog.viol("C07", key, fmt.Sprintf("%s ends quiescent in %s", where, d))
		case !bytes.Equal(sa.SSID, sb.SSID):
			olog.viol("C07", "no-common-session", fmt.Sprintf("%s: both sides are encrypted at quiescence but not in one common session: A reports session id %x, B %x", where, sa.SSID, sb.SSID))
		case bytes.Equal(sa.SSID, make([]byte, len(sa.SSID))):
			olog.viol("C07", "no-session-id", fmt.Sprintf("%s: both sides are encrypted at quiescence and report the empty session id %x", where, sa.SSID))
		default:
			// one common session: it carries a text in each direction
			if got, ok := s.c07ping(a, b, "ping from A"); !ok {
				olog.viol("C07", "common-session-unusable", fmt.Sprintf("%s: both sides encrypted with session id %x, but A's Send(\"ping from A\") reaches B as %s", where, sa.SSID, got))
			} else if got, ok := s.c07ping(b, a, "ping from B"); !ok {
				olog.viol("C07", "common-session-unusable", fmt.Sprintf("%s: both sides encrypted with session id %x, but B's Send(\"ping from B\") reaches A as %s", where, sa.SSID, got))
			}
		}
	}
}

func init() {
	profiles["c07"] = func(seed int64, n int, out *emitter, extra map[string]interface{}) map[string]int {
		g := &gen{r: rand.New(rand.NewSource(seed)), out: out, dist: map[string]int{}}
		olog = &oracleLog{checked: map[string]int{}, out: out}
		w := newWorld(g)
		budget := n
		for _, version := range []int{3, 2} {
			for pattern := 1; pattern <= 8; pattern++ {
				g.c07explore(w, pattern, version, 0, 0, &budget)
			}
			// restarts of an ended session (either side ended it, the other finished or ended too)
			for prelude := 1; prelude <= 4; prelude++ {
				for _, pattern := range []int{1, 2} {
					g.c07explore(w, pattern, version, 0, prelude, &budget)
				}
			}
			// whitespace starts: in the other direction, and after the preludes (the tagged text reaches
			// a side that is finished, or one that ended the session itself)
			g.c07explore(w, 9, version, 0, 0, &budget)
			for _, pp := range c07wsRestarts {
				g.c07explore(w, pp[0], version, 0, pp[1], &budget)
			}
		}
		// the two sides' policies differ but share a version: started by query (either side) and by
		// whitespace tag
		for _, version := range []int{3, 2} {
			for c07mix = 1; c07mix <= 2; c07mix++ {
				for _, pattern := range []int{1, 2, 6} {
					g.c07explore(w, pattern, version, 0, 0, &budget)
				}
				for _, pp := range c07wsRestarts {
					g.c07explore(w, pp[0], version, 0, pp[1], &budget)
				}
			}
		}
		c07mix = 0
		extra["schedules"] = n - budget
		// start triggers repeated in flight, at every position of the first exchange (own budget: the
		// schedules above stay what they were)
		rbudget := n / 2
		rtotal := rbudget
		scale := 1
		if n > 400 {
			scale = n / 400
		}
		for _, version := range []int{3, 2} {
			for kind := 1; kind <= 5; kind++ {
				for at := 0; at <= 5; at++ {
					// positions 0 and 1 have many schedules that all behave alike (the second trigger
					// overtakes the first answer); from position 2 on one side can complete two exchanges
					count := 6
					if at < 2 {
						count = 3
					}
					if version == 2 {
						count = 2
					}
					g.c07exploreRepeat(w, kind, version, at, count*scale, &rbudget)
				}
			}
		}
		extra["repeat_schedules"] = rtotal - rbudget
		extra["panics"] = panicCount
		olog.export(extra)
		return g.dist
	}
}
