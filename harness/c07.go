package main

// Profile "c07" (C07): every delivery schedule of every start pattern of the key exchange on two
// FIFO queues, run on the real implementation until quiescence, compared with the abstract AKE
// system of Otr/AkeAbs.lean (driver op "akeabs") and checked against the property itself:
// at quiescence both sides are encrypted in one common session.

import (
	"bytes"
	"fmt"
	"math/rand"

	otr3 "github.com/coyim/otr3"
)

var authNames = []string{"none", "awaitDHKey", "awaitRevealSig", "awaitSig"}

// 0: both sides allow exactly the version under test; 1/2: a resp. b allows both versions
var c07mix int

type c07sys struct {
	l *link
	w *world
}

func (g *gen) c07start(w *world, pattern int, version int, polExtra int, prelude int) *c07sys {
	w.parties = map[string]*party{}
	w.dead = false
	pol := 2
	if version == 3 {
		pol = 4
	}
	polA, polB := pol, pol
	switch c07mix { // one side allows both versions, the other only the one under test
	case 1:
		polA = 6
	case 2:
		polB = 6
	}
	a := w.newParty(partyCfg{policies: polA | polExtra | 32, keyIdx: 0})
	b := w.newParty(partyCfg{policies: polB | polExtra | 16, keyIdx: 1})
	l := &link{w: w, a: a, b: b}
	establish := func() {
		l.enqueue(b, []otr3.ValidMessage{w.query(b)})
		l.settle(20)
		w.tick(3600)
	}
	// preludes: the exchange under test restarts a conversation pair whose previous session was ended
	// by one side, immediately (no time passes: the 60 s window after the last key exchange message
	// must not swallow the restart). Abstractly this is the same start pattern.
	if prelude > 0 {
		l.enqueue(b, []otr3.ValidMessage{w.query(b)})
		l.settle(20)
		e, o := a, b
		if prelude%2 == 0 {
			e, o = b, a
		}
		ts, _ := w.end(e)
		l.enqueue(e, ts)
		l.settle(6) // o is now finished
		if prelude >= 3 {
			ts, _ = w.end(o)
			l.enqueue(o, ts)
			l.settle(6)
		}
	}
	switch pattern {
	case 1:
		l.enqueue(b, []otr3.ValidMessage{w.query(b)})
	case 2:
		l.enqueue(a, []otr3.ValidMessage{w.query(a)})
	case 3:
		l.enqueue(b, []otr3.ValidMessage{w.query(b)})
		l.enqueue(a, []otr3.ValidMessage{w.query(a)})
	case 4:
		l.enqueue(b, []otr3.ValidMessage{w.query(b)})
		l.enqueue(a, []otr3.ValidMessage{w.query(a)})
		l.deliver(false)
		l.deliver(true)
	case 5:
		establish()
		l.enqueue(b, []otr3.ValidMessage{w.query(b)})
	case 6:
		// B sends a whitespace-tagged plaintext, A (whitespaceStartAKE) starts the exchange
		ts, _ := w.send(b, []byte("hello"))
		l.enqueue(b, ts)
		l.deliver(false)
	case 7:
		l.enqueue(b, []otr3.ValidMessage{w.query(b), w.query(b)})
	case 8:
		establish()
		l.enqueue(b, []otr3.ValidMessage{w.query(b)})
		l.enqueue(a, []otr3.ValidMessage{w.query(a)})
	}
	return &c07sys{l: l, w: w}
}

func (s *c07sys) describe() string {
	sa, sb := otr3.VerifSnapshot(s.l.a.c), otr3.VerifSnapshot(s.l.b.c)
	same := s.l.a.c.IsEncrypted() && s.l.b.c.IsEncrypted() && bytes.Equal(sa.SSID, sb.SSID)
	return fmt.Sprintf("%s/%s/%v/%v/%v", authNames[sa.AkeState], authNames[sb.AkeState], s.l.a.c.IsEncrypted(), s.l.b.c.IsEncrypted(), same)
}

// enumerate all maximal schedules by re-running from the start for every prefix extension
func (g *gen) c07explore(w *world, pattern, version, polExtra, prelude int, budget *int) {
	var rec func(prefix []bool)
	rec = func(prefix []bool) {
		if *budget <= 0 || len(prefix) > 14 {
			return
		}
		s := g.c07start(w, pattern, version, polExtra, prelude)
		for _, b := range prefix {
			s.l.deliver(b)
		}
		canAB, canBA := len(s.l.qab) > 0, len(s.l.qba) > 0
		if !canAB && !canBA {
			*budget--
			sched := ""
			for _, b := range prefix {
				if b {
					sched += ">"
				} else {
					sched += "<"
				}
			}
			if sched == "" {
				sched = "-"
			}
			d := s.describe()
			// correspondence with the abstract model: it must predict this final state for one of the hash orders
			g.out.emit(fmt.Sprintf("akeabs %d %s", pattern, sched), d)
			olog.ok("C07")
			g.dist[fmt.Sprintf("c07:pattern%d:%s", pattern, d)]++
			sa, sb := otr3.VerifSnapshot(s.l.a.c), otr3.VerifSnapshot(s.l.b.c)
			ok := s.l.a.c.IsEncrypted() && s.l.b.c.IsEncrypted() && bytes.Equal(sa.SSID, sb.SSID) && sa.AkeState == 0 && sb.AkeState == 0
			if !ok {
				key := "exchange-does-not-complete"
				if sa.AkeState == 2 && sb.AkeState == 2 {
					key = "ake-collision-deadlock"
				}
				olog.viol("C07", key, fmt.Sprintf("start pattern %d (prelude %d), OTRv%d, schedule %s ends quiescent in %s", pattern, prelude, version, sched, d))
			}
			return
		}
		if canAB {
			rec(append(append([]bool{}, prefix...), true))
		}
		if canBA {
			rec(append(append([]bool{}, prefix...), false))
		}
	}
	rec(nil)
}

func init() {
	profiles["c07"] = func(seed int64, n int, out *emitter, extra map[string]interface{}) map[string]int {
		g := &gen{r: rand.New(rand.NewSource(seed)), out: out, dist: map[string]int{}}
		olog = &oracleLog{checked: map[string]int{}, out: out}
		w := newWorld(g)
		budget := n
		for _, version := range []int{3, 2} {
			for pattern := 1; pattern <= 8; pattern++ {
				g.c07explore(w, pattern, version, 0, 0, &budget)
			}
			// restarts of an ended session (either side ended it, the other finished or ended too)
			for prelude := 1; prelude <= 4; prelude++ {
				for _, pattern := range []int{1, 2} {
					g.c07explore(w, pattern, version, 0, prelude, &budget)
				}
			}
		}
		// the two sides' policies differ but share a version: started by query (either side) and by
		// whitespace tag
		for _, version := range []int{3, 2} {
			for c07mix = 1; c07mix <= 2; c07mix++ {
				for _, pattern := range []int{1, 2, 6} {
					g.c07explore(w, pattern, version, 0, 0, &budget)
				}
			}
		}
		c07mix = 0
		extra["schedules"] = n - budget
		extra["panics"] = panicCount
		olog.export(extra)
		return g.dist
	}
}
