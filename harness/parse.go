package main

// Profile "parse" (C13): untrusted bytes and randomness failure.
//  - every public parsing entry point of the otr3 package on structured, mutated and raw input,
//    under recover, with wall-clock and allocation measurement;
//  - Receive of hostile input in every conversation state, followed by a probe that the
//    conversation is still usable;
//  - failure / short read of the k-th read from Conversation.Rand for every k, for every kind of
//    operation that draws randomness;
//  - nested fragments (a complete fragment whose reassembled content looks like a fragment, a query,
//    an error or an encoded message again), first in a worker process (a stack overflow is a fatal
//    error that recover() does not catch), then - the inputs the worker survived - in this process.
//    Violation keys of the worker: receive-stack-overflow, receive-hang, receive-fatal.

import (
	"bufio"
	"bytes"
	"fmt"
	"io"
	"math/big"
	"math/rand"
	"os"
	"os/exec"
	"runtime"
	"runtime/debug"
	"strconv"
	"strings"
	"time"

	otr3 "github.com/coyim/otr3"
)

// run f on input under guard; flag panics, slowness, and allocation out of proportion
func measured(entry string, input []byte, f func() string) string {
	var m0, m1 runtime.MemStats
	runtime.ReadMemStats(&m0)
	t0 := kfSelfCPU() // processor time, not wall-clock time: the machine may be busy with other things
	res := guard(f)
	d := kfSelfCPU() - t0
	runtime.ReadMemStats(&m1)
	olog.ok("C13")
	if res == "PANIC" {
		olog.viol("C13", "parser-panics:"+entry, fmt.Sprintf("%s panicked on %d bytes: %.80x", entry, len(input), input))
	}
	if d > 2*time.Second {
		olog.viol("C13", "parser-slow:"+entry, fmt.Sprintf("%s took %v on %d bytes", entry, d, len(input)))
	}
	if alloc := m1.TotalAlloc - m0.TotalAlloc; alloc > uint64(1<<20+256*len(input)) {
		olog.viol("C13", "parser-allocates:"+entry, fmt.Sprintf("%s allocated %d bytes for an input of %d bytes: %.60x", entry, alloc, len(input), input))
	}
	return res
}

func (g *gen) hostileBytes() []byte {
	switch g.r.Intn(9) {
	case 0: // huge count / length prefixes
		return append([]byte{0xff, 0xff, 0xff, byte(g.r.Intn(256))}, g.blob()...)
	case 1:
		return append([]byte{0x7f, 0xff, 0xff, 0xff}, g.blob()...)
	case 2:
		return append([]byte{0, 0, 0, byte(g.r.Intn(40))}, g.blob()...)
	case 3: // DSA key shaped
		b := []byte{0, 0}
		for i := 0; i < g.r.Intn(6); i++ {
			b = otr3.AppendData(b, g.blob())
		}
		return g.mutate(b)
	case 4:
		return g.mutate(testKeys[g.r.Intn(3)].Serialize())
	case 5:
		return g.mutate(testKeys[g.r.Intn(3)].PublicKey().(*otr3.DSAPublicKey).Fingerprint())
	default:
		return g.blob()
	}
}

func (g *gen) parserCase() {
	in := g.hostileBytes()
	for _, k := range []string{"mpis", "mpi", "dat", "word", "short", "long"} {
		kind := k
		res := measured("Extract:"+kind, in, func() string { return otr3.VerifParse(kind, in) })
		g.out.emit(fmt.Sprintf("parse %s %s", kind, hx(in)), res)
	}
	measured("ParsePublicKey", in, func() string {
		_, ok, _ := otr3.ParsePublicKey(in)
		return fmt.Sprint(ok)
	})
	measured("ParsePrivateKey", in, func() string {
		_, ok, _ := otr3.ParsePrivateKey(in)
		return fmt.Sprint(ok)
	})
	measured("ExtractInstanceTags", in, func() string {
		_, _, ok := otr3.ExtractInstanceTags(in)
		return fmt.Sprint(ok)
	})
	txt := append([]byte("?OTR:"), g.blobText()...)
	measured("ExtractInstanceTags", txt, func() string {
		_, _, ok := otr3.ExtractInstanceTags(txt)
		return fmt.Sprint(ok)
	})
	for _, k := range []string{"data", "plain", "tlv", "smp1", "smp2", "smp3", "smp4", "smp1q", "dhcommit", "dhkey", "revealsig", "sig"} {
		kind := k
		res := measured("deserialize:"+kind, in, func() string { return otr3.VerifParse(kind, in) })
		g.out.emit(fmt.Sprintf("parse %s %s", kind, hx(in)), res)
	}
}

// a conversation brought into one of the interesting states
func (g *gen) inState(w *world, state int) (*link, bool) {
	w.parties = map[string]*party{}
	w.dead = false
	version := 2 + g.r.Intn(2)
	pol := 6
	if g.r.Intn(2) == 0 {
		pol = 2
		if version == 3 {
			pol = 4
		}
	}
	keyIdx := 0
	if state == 0 && g.r.Intn(3) == 0 {
		keyIdx = -1 // no long-term key at all
	}
	a := w.newParty(partyCfg{policies: pol | g.r.Intn(8)*8, keyIdx: keyIdx, errh: g.r.Intn(2) == 0, fragSize: g.fragSize()})
	b := w.newParty(partyCfg{policies: pol, keyIdx: 1, errh: true})
	l := &link{w: w, a: a, b: b}
	switch state {
	case 0: // fresh
	case 1, 2, 3: // k AKE messages delivered
		l.enqueue(b, []otr3.ValidMessage{w.query(b)})
		for i := 0; i < state && (len(l.qab) > 0 || len(l.qba) > 0); i++ {
			l.deliver(false)
			l.deliver(true)
		}
	case 4: // encrypted
		l.enqueue(b, []otr3.ValidMessage{w.query(b)})
		l.settle(30)
	case 5: // finished (peer ended)
		l.enqueue(b, []otr3.ValidMessage{w.query(b)})
		l.settle(30)
		ts, _ := w.end(b)
		l.enqueue(b, ts)
		l.settle(10)
	case 6: // encrypted, SMP in progress
		l.enqueue(b, []otr3.ValidMessage{w.query(b)})
		l.settle(30)
		ts, _ := w.smpStart(b, "", []byte("x"))
		l.enqueue(b, ts)
		l.settle(10)
	}
	return l, !w.dead
}

func (g *gen) hostileWire(l *link) []byte {
	switch g.r.Intn(10) {
	case 0:
		return g.garbage()
	case 1:
		return g.blob()
	case 2: // authenticated-looking data message with hostile body
		return encodeWire(append([]byte{0, 3, 3, 0, 0, 1, 0, 0, 0, 1, 0}, g.hostileBytes()...))
	case 3:
		return encodeWire(append([]byte{0, 2, 3}, g.hostileBytes()...))
	case 4: // AKE message types with hostile bodies
		t := []byte{2, 0x0a, 0x11, 0x12}[g.r.Intn(4)]
		return encodeWire(append([]byte{0, byte(2 + g.r.Intn(2)), t}, g.hostileBytes()...))
	case 5:
		if len(l.qba) > 0 {
			return g.mutateEncoded(l.qba[0])
		}
		return g.garbage()
	case 6:
		if len(l.qba) > 0 {
			return g.truncateEncoded(l.qba[0])
		}
		return []byte("?OTR:")
	case 7:
		return []byte("?OTR|" + string(g.blobText()))
	case 8:
		return append([]byte("?OTR Error:"), g.blob()...)
	default:
		return append(append(g.blobText(), []byte(" \t  \t\t\t\t \t \t \t  ")...), g.blobText()...)
	}
}

// pw == nil: hostile messages of every kind, straight in this process.
// pw != nil: nested fragments; the conversation is built from a seed of its own so that the worker
// can build the same one, every input goes to the worker first, and only what the worker survived
// is handed to Receive in this process (where the model comparison sees it).
func (g *gen) receiveCase(w *world, pw *kfWorker) {
	if pw != nil && pwDeaths >= pwMaxDeaths {
		g.dist["nested:skipped"]++ // the point is made; every further death costs a second or two
		return
	}
	state := g.r.Intn(7)
	var l *link
	var ok bool
	var nested [][]byte
	if pw == nil {
		l, ok = g.inState(w, state)
	} else {
		seed := g.r.Int63()
		saved := g.r
		g.r = rand.New(rand.NewSource(seed))
		l, ok = g.inState(w, state)
		g.r = saved
		if ok {
			nested = g.nestedViaWorker(pw, seed, state, g.nestedFragments(l))
		}
		g.dist[fmt.Sprintf("nested:state%d", state)]++
	}
	if !ok {
		olog.viol("C13", "setup-panics", fmt.Sprintf("bringing a conversation into state %d panicked", state))
		return
	}
	for k := 0; (k < 6 || pw != nil) && !w.dead; k++ {
		var m []byte
		if pw == nil {
			m = g.hostileWire(l)
		} else if k < len(nested) {
			m = nested[k]
		} else {
			break
		}
		var pan bool
		measured(fmt.Sprintf("Receive(state %d)", state), m, func() string {
			_, ts, _, p := w.recv(l.a, m)
			pan = p
			_ = ts // replies to hostile input are not delivered
			if p {
				return "PANIC"
			}
			return "ok"
		})
		if pan {
			return
		}
	}
	// first pieces that announce a long stream (in-process only: nothing here can overflow the stack)
	for k := 0; pw == nil && k < 3 && !w.dead; k++ {
		if g.firstFragmentCase(w, l, state) {
			return
		}
	}
	// still usable? finish whatever genuine traffic is in flight, then (re)establish and exchange a probe
	l.settle(40)
	if !l.a.c.IsEncrypted() || !l.b.c.IsEncrypted() {
		ts, _ := w.end(l.a)
		l.enqueue(l.a, ts)
		ts, _ = w.end(l.b)
		l.enqueue(l.b, ts)
		l.settle(10)
		w.tick(3600)
		if l.a.keyIdx >= 0 {
			l.enqueue(l.b, []otr3.ValidMessage{w.query(l.b)})
			l.settle(40)
		} else {
			// no long-term key: every attempt at a key exchange must fail with an error, not crash
			// (the first query is refused, a second one gets further)
			for i := 0; i < 2 && !w.dead; i++ {
				l.enqueue(l.b, []otr3.ValidMessage{w.query(l.b)})
				l.settle(40)
				w.tick(75)
			}
			olog.ok("C13")
			if w.dead {
				olog.viol("C13", "panic-without-long-term-key", fmt.Sprintf("a conversation without a long-term key panicked during a key exchange the peer started (state %d)", state))
				return
			}
		}
	}
	if w.dead {
		olog.viol("C13", "unusable-after-hostile-input", fmt.Sprintf("a call panicked while recovering from hostile input in state %d", state))
		return
	}
	if l.a.keyIdx >= 0 && l.a.c.IsEncrypted() && l.b.c.IsEncrypted() {
		text := g.cleanText()
		ts, _ := w.send(l.b, text)
		got := false
		for _, t := range ts {
			p, back, _, _ := w.recv(l.a, t)
			l.enqueue(l.a, back)
			if bytes.Equal(p, text) {
				got = true
			}
		}
		if !got {
			olog.viol("C13", "unusable-after-hostile-input", fmt.Sprintf("after hostile input in state %d a genuine message is no longer delivered", state))
		}
	}
}

// ---------------------------------------------------------------------------------------------
// first fragments that announce many pieces
//
// The first piece of a fragment stream (index 1) names the number of pieces to come; that number is
// the sender's claim and nothing else. What Receive allocates for such a piece, and what the
// conversation keeps of it afterwards, is bounded by the piece itself: a message of a few hundred
// bytes must cost the same whether it says "1 of 2" or "1 of 65535". Both header formats (the OTRv3
// one with the instance tags of this conversation, so that it is accepted), every conversation state.
// Violation keys: receive-allocates (bytes allocated during the call, runtime.MemStats.TotalAlloc),
// receive-retains (growth of the byte buffers reachable from the conversation, capacity included).

func (g *gen) firstFragment(l *link) (m []byte, total, piece int) {
	sa, sb := otr3.VerifSnapshot(l.a.c), otr3.VerifSnapshot(l.b.c)
	v := sa.Version
	if v == 0 || g.r.Intn(6) == 0 {
		v = 2 + g.r.Intn(2)
		if sa.Version == 0 && sa.Policies&6 == 2 {
			v = 2
		} else if sa.Version == 0 && sa.Policies&6 == 4 {
			v = 3
		}
	}
	// the larger the announced total the smaller the piece: a library that multiplies the two stays
	// within some 70 MB for a single call
	switch g.r.Intn(6) {
	case 0:
		total, piece = 100, 100+g.r.Intn(3901)
	case 1, 2:
		total, piece = 1000, 100+g.r.Intn(3901)
	case 3:
		total, piece = 2+g.r.Intn(65534), 100+g.r.Intn(901)
	default:
		total, piece = 65535, 100+g.r.Intn(1001)
	}
	hdr := "?OTR,"
	if v == 3 {
		s, r := sb.OurTag, sa.OurTag
		if s == 0 {
			s = 0x100 + uint32(g.r.Intn(1000))
		}
		if sa.TheirTag != 0 {
			s = sa.TheirTag
		}
		if g.r.Intn(4) == 0 {
			r = 0
		}
		if g.r.Intn(2) == 0 {
			hdr = fmt.Sprintf("?OTR|%08x|%08x,", s, r)
		} else {
			hdr = fmt.Sprintf("?OTR|%x|%x,", s, r)
		}
	}
	numf := "%05d"
	if g.r.Intn(3) == 0 {
		numf = "%d"
	}
	data := make([]byte, piece)
	for i := range data {
		data[i] = "ABCDEFGHIJKLMNOPQRSTUVWXYZabcdefghijklmnopqrstuvwxyz0123456789+/"[g.r.Intn(64)]
	}
	if g.r.Intn(2) == 0 {
		copy(data, "?OTR:AAMD")
	}
	return []byte(hdr + fmt.Sprintf(numf+","+numf+",", 1, total) + string(data) + ","), total, piece
}

// returns true when the call panicked (the conversation is gone)
func (g *gen) firstFragmentCase(w *world, l *link, state int) bool {
	m, total, piece := g.firstFragment(l)
	g.dist[fmt.Sprintf("firstfrag:state%d", state)]++
	_, before := otr3.VerifScan(l.a.c, nil)
	var m0, m1 runtime.MemStats
	runtime.ReadMemStats(&m0)
	_, _, _, pan := w.recv(l.a, m)
	runtime.ReadMemStats(&m1)
	olog.ok("C13")
	if pan {
		olog.viol("C13", "parser-panics:Receive(first fragment)", fmt.Sprintf("Receive panicked in state %d on the first fragment %.60q… (%d bytes, 1 of %d, piece of %d bytes)", state, m, len(m), total, piece))
		return true
	}
	sn := otr3.VerifSnapshot(l.a.c)
	if sn.FragIndex == 1 {
		g.dist["firstfrag:kept"]++
	}
	what := fmt.Sprintf("conversation state %d of the parse profile (0 fresh, 1-3 that many key exchange messages delivered, 4 encrypted, 5 finished, 6 SMP in progress), Receive of the %d bytes %.48q… (first fragment, 1 of %d, piece of %d random base64 characters)", state, len(m), m, total, piece)
	// the call: the harness itself writes the message in hex twice and a state line, a few times the input
	if alloc := m1.TotalAlloc - m0.TotalAlloc; alloc > uint64(256<<10+64*len(m)) {
		olog.viol("C13", "receive-allocates", fmt.Sprintf("%s allocated %d bytes (%d times the input)", what, alloc, alloc/uint64(len(m))))
	}
	// what is kept: the piece, and nothing that grows with the announced total
	_, after := otr3.VerifScan(l.a.c, nil)
	olog.ok("C13")
	if grown := after - before; grown > 4096+4*len(m) {
		olog.viol("C13", "receive-retains", fmt.Sprintf("%s leaves the conversation holding %d bytes more than before in byte buffers (capacity included), %d times the input; fragment context afterwards: %d bytes collected, index %d of %d", what, grown, grown/len(m), sn.FragSize, sn.FragIndex, sn.FragLen))
	}
	return false
}

// ---------------------------------------------------------------------------------------------
// nested fragments
//
// A complete fragment (k == n: one piece, or the last piece of a stream) hands its reassembled
// content to the receive path once more.  The content must not be able to make that loop: whatever
// it looks like - a fragment again (valid or not, for this instance or another), a query, an error,
// an encoded message, text - the call returns.  A piece never contains a comma, so neither does the
// reassembled content; payloads with commas are generated too (the outer fragment is then invalid).

func pwNoComma(b []byte) []byte {
	c := append([]byte{}, b...)
	for i := range c {
		if c[i] == ',' {
			c[i] = ';'
		}
	}
	return c
}

func (g *gen) nestedTag(l *link) uint32 {
	sa, sb := otr3.VerifSnapshot(l.a.c), otr3.VerifSnapshot(l.b.c)
	switch g.r.Intn(7) {
	case 0:
		return sa.OurTag
	case 1:
		return sb.OurTag
	case 2:
		return 0
	case 3:
		return uint32(g.r.Intn(0x100))
	case 4:
		return 0x100 + uint32(g.r.Intn(4))
	case 5:
		return sa.OurTag + 1
	default:
		return g.r.Uint32()
	}
}

// what a complete fragment carries
func (g *gen) nestedInner(l *link, depth int) []byte {
	sa, sb := otr3.VerifSnapshot(l.a.c), otr3.VerifSnapshot(l.b.c)
	kind := g.r.Intn(15)
	g.dist[fmt.Sprintf("nested:inner%d", kind)]++
	switch kind {
	case 0:
		return []byte("?OTR|x")
	case 1:
		return append([]byte("?OTR|"), pwNoComma(g.blobText())...)
	case 2: // an OTRv3 fragment header with any tags, and no comma after it
		return []byte(fmt.Sprintf("?OTR|%08x|%08x", g.nestedTag(l), g.nestedTag(l)) + string(pwNoComma(g.blobText())))
	case 3: // … with the tags of this very conversation
		return []byte(fmt.Sprintf("?OTR|%x|%x", sb.OurTag, sa.OurTag))
	case 4: // fragment bodies with commas (valid or not)
		if g.r.Intn(2) == 0 {
			return append([]byte("?OTR,"), g.fragBody()...)
		}
		return append([]byte(fmt.Sprintf("?OTR|%08x|%08x,", g.nestedTag(l), g.nestedTag(l))), g.fragBody()...)
	case 5, 6: // a complete fragment again: a third (fourth) level
		if depth < 3 {
			ps := g.wrapFragment(l, g.nestedInner(l, depth+1), true)
			return ps[len(ps)-1]
		}
		return []byte("?OTR|")
	case 7:
		return append([]byte("?OTR:"), pwNoComma(g.blobText())...)
	case 8:
		t := []string{"AAMD", "AAID", "AAIC", "AAMC", "AAMK", "AAIR", "AAMS", "AAEK", "AAQD"}[g.r.Intn(9)]
		return []byte("?OTR:" + t + string(otr3.VerifB64Encode(g.blob())) + ".")
	case 9:
		return []byte([]string{"?OTRv23?", "?OTR?v2?", "?OTRv3?", "?OTRv4?", "?OTR?", "?OTRv?", "?OTRv2", "?OTR?v"}[g.r.Intn(8)])
	case 10:
		return append([]byte("?OTR Error:"), pwNoComma(g.blobText())...)
	case 11: // the genuine message that is in flight (one piece or several: base64 has no comma)
		if len(l.qba) > 0 {
			return append([]byte{}, l.qba[0]...)
		}
		return []byte("?OTR|")
	case 12:
		if len(l.qba) > 0 {
			return pwNoComma(g.mutateEncoded(l.qba[0]))
		}
		return []byte("?OTR,")
	case 13:
		return []byte([]string{"?OTR|", "?OTR,", "?OTR", "?OTR|,", "?OTR||", "?OTR|0|0", "", "?OTR|x|y|z", "?OTR|100|0", "?OTR|-1|+1", "?OTR,1", "?OTR|?OTR|"}[g.r.Intn(12)])
	default: // text, with and without the whitespace tag
		if g.r.Intn(2) == 0 {
			return pwNoComma(g.blobText())
		}
		return append(pwNoComma(g.blobText()), []byte(" \t  \t\t\t\t \t \t \t    \t\t  \t   \t\t  \t\t")...)
	}
}

// the pieces of a complete fragment stream around payload (valid: no deviation from the format)
func (g *gen) wrapFragment(l *link, payload []byte, valid bool) [][]byte {
	sa, sb := otr3.VerifSnapshot(l.a.c), otr3.VerifSnapshot(l.b.c)
	v := sa.Version
	if v == 0 || g.r.Intn(6) == 0 {
		v = 2 + g.r.Intn(2)
	}
	hdr := "?OTR,"
	if v == 3 {
		s, r := sb.OurTag, sa.OurTag
		if s == 0 {
			s = 0x100 + uint32(g.r.Intn(1000))
		}
		if !valid || g.r.Intn(3) == 0 {
			switch g.r.Intn(5) {
			case 0:
				r = 0
			case 1:
				r++ // another instance of ours
			case 2:
				s ^= 1 << uint(g.r.Intn(32))
			case 3:
				s = g.nestedTag(l)
			default:
				r = g.nestedTag(l)
			}
		}
		if g.r.Intn(2) == 0 {
			hdr = fmt.Sprintf("?OTR|%08x|%08x,", s, r)
		} else {
			hdr = fmt.Sprintf("?OTR|%x|%x,", s, r)
		}
	}
	numf := "%05d"
	if g.r.Intn(3) == 0 {
		numf = "%d"
	}
	n := 1
	if g.r.Intn(3) == 0 {
		n = 2 + g.r.Intn(3)
	}
	cuts := []int{0}
	for i := 1; i < n; i++ {
		cuts = append(cuts, cuts[i-1]+g.r.Intn(len(payload)-cuts[i-1]+1))
		if i == 1 && g.r.Intn(2) == 0 && len(payload) > 5 {
			cuts[1] = 1 + g.r.Intn(5) // inside the prefix of the content
		}
	}
	cuts = append(cuts, len(payload))
	var ps [][]byte
	for i := 0; i < n; i++ {
		k, tot, tail := i+1, n, ","
		if !valid && i == n-1 {
			switch g.r.Intn(6) {
			case 0:
				k = n + 1
			case 1:
				k, tot = 0, 0
			case 2:
				tail = ""
			case 3:
				tail = ",x"
			case 4:
				tot = n + 1 // not the last piece after all
			default:
				tot = 65535
				k = 65535
			}
		}
		ps = append(ps, []byte(hdr+fmt.Sprintf(numf+","+numf+",", k, tot)+string(payload[cuts[i]:cuts[i+1]])+tail))
	}
	if n > 1 && g.r.Intn(6) == 0 {
		ps = ps[1:] // the first piece is lost: the rest arrives out of sequence
	}
	return ps
}

func (g *gen) nestedFragments(l *link) [][]byte {
	var ms [][]byte
	for i := 0; i < 7; i++ {
		ms = append(ms, g.wrapFragment(l, g.nestedInner(l, 1), g.r.Intn(5) != 0)...)
		if g.r.Intn(6) == 0 {
			// a stream left unfinished before the next complete fragment
			ms = append(ms, g.wrapFragment(l, g.nestedInner(l, 1), true)[0])
		}
	}
	return ms
}

// ---- the worker: one conversation pair per "setup", one Receive per "recv"

const (
	pwWorkerEnv  = "OTRH_PARSE_WORKER"
	pwStackLimit = 8 << 20 // the library's receive path is a few frames deep; the default of 1 GB takes long to fill
	pwHeapLimit  = 256 << 20
	pwMaxDeaths  = 6
)

var pwDeaths int // workers that died or hung in this run

func parseWorker() {
	debug.SetMaxStack(pwStackLimit)
	go func() {
		var m runtime.MemStats
		for {
			time.Sleep(5 * time.Millisecond)
			runtime.ReadMemStats(&m)
			if m.HeapAlloc > pwHeapLimit {
				os.Exit(3)
			}
		}
	}()
	sink := &emitter{ops: bufio.NewWriter(io.Discard), impl: bufio.NewWriter(io.Discard)}
	olog = &oracleLog{checked: map[string]int{}, out: sink}
	var w *world
	var l *link
	in := bufio.NewReaderSize(os.Stdin, 1<<20)
	out := bufio.NewWriter(os.Stdout)
	for {
		line, err := in.ReadString('\n')
		if err != nil {
			return
		}
		toks := strings.Fields(line)
		c0 := kfSelfCPU()
		res := "bad-op"
		switch {
		case len(toks) == 3 && toks[0] == "setup":
			seed, _ := strconv.ParseInt(toks[1], 10, 64)
			state, _ := strconv.Atoi(toks[2])
			g := &gen{r: rand.New(rand.NewSource(seed)), out: sink, dist: map[string]int{}}
			w = newWorld(g)
			var ok bool
			l, ok = g.inState(w, state)
			res = "ok"
			if !ok {
				res = "dead"
			}
		case len(toks) == 2 && toks[0] == "recv" && l != nil:
			res = "dead"
			if !w.dead {
				res = "ok"
				if _, _, _, p := w.recv(l.a, unhex(toks[1])); p {
					res = "PANIC"
				}
			}
		}
		out.WriteString(res + fmt.Sprintf("\tcpu=%d\n", (kfSelfCPU()-c0).Milliseconds()))
		out.Flush()
	}
}

// kfWorker.start (keyfile.go) with the environment variable of this profile's worker
func pwStart(w *kfWorker) {
	exe, err := os.Executable()
	if err != nil {
		panic(err)
	}
	w.cmd = exec.Command(exe)
	w.cmd.Env = append(os.Environ(), pwWorkerEnv+"=1", "GOTRACEBACK=none")
	stdin, err := w.cmd.StdinPipe()
	if err != nil {
		panic(err)
	}
	stdout, err := w.cmd.StdoutPipe()
	if err != nil {
		panic(err)
	}
	w.stderr = &bytes.Buffer{}
	w.cmd.Stderr = w.stderr
	if err := w.cmd.Start(); err != nil {
		panic(err)
	}
	w.in = bufio.NewWriterSize(stdin, 1<<20)
	lines := make(chan string, 1)
	w.lines = lines
	go func() {
		r := bufio.NewReaderSize(stdout, 1<<20)
		for {
			l, err := r.ReadString('\n')
			if err != nil {
				close(lines)
				return
			}
			lines <- strings.TrimRight(l, "\n")
		}
	}()
	w.starts++
}

// feed the inputs to a conversation in the given state inside the worker; returns, in order, the
// inputs the worker survived (up to and including the first one that panics: a panic is recovered,
// and reported by the in-process path)
func (g *gen) nestedViaWorker(pw *kfWorker, seed int64, state int, inputs [][]byte) (alive [][]byte) {
	call := func(op string) (string, string) {
		if pw.cmd == nil {
			pwStart(pw)
		}
		res, desc, _ := pw.call(op)
		return res, desc
	}
	report := func(res, desc, what string) {
		pwDeaths++
		key := "receive-fatal"
		switch res {
		case "STACKOVERFLOW":
			key = "receive-stack-overflow"
		case "HANG":
			key = "receive-hang"
		}
		olog.viol("C13", key, fmt.Sprintf("a process that %s dies or hangs: %s (%s); conversation state %d of the parse profile (0 fresh, 1-3 that many key exchange messages delivered, 4 encrypted, 5 finished, 6 SMP in progress), conversation seed %d", what, desc, res, state, seed))
	}
	// the conversation, and everything it has survived so far
	setup := func() bool {
		res, desc := call(fmt.Sprintf("setup %d %d", seed, state))
		if res != "ok" {
			if res != "dead" {
				report(res, desc, "runs the genuine exchange that leads to the state")
			}
			return false
		}
		for _, m := range alive {
			if res, desc := call("recv " + hx(m)); res != "ok" {
				report(res, desc, fmt.Sprintf("hands %q (hex %s) to Receive a second time", m, hx(m)))
				return false
			}
		}
		return true
	}
	fresh := true
	for _, m := range inputs {
		if fresh || pw.cmd == nil {
			if !setup() {
				return
			}
			fresh = false
		}
		res, desc := call("recv " + hx(m))
		olog.ok("C13")
		switch res {
		case "ok":
			alive = append(alive, m)
		case "PANIC":
			return append(alive, m)
		case "dead", "bad-op":
			return
		default:
			g.dist["nested:"+res]++
			report(res, desc, fmt.Sprintf("hands the %d bytes %q (hex %s) to Receive", len(m), m, hx(m)))
		}
	}
	return
}

// fail (or shorten) the k-th randomness read of one party during a fixed scenario, for k = 0, 1, 2, …
func (g *gen) randFailureSweep(w *world, short bool) {
	for k2 := 0; k2 < 160; k2++ {
		// every index four times: both versions, with traffic after the handshake and with End()
		// straight after it
		k, endAtOnce := k2/4, k2%2 == 1
		w.parties = map[string]*party{}
		w.dead = false
		version := 2 + (k2/2)%2
		pol := 2
		if version == 3 {
			pol = 4
		}
		a := w.newParty(partyCfg{policies: pol, keyIdx: 0, errh: true})
		b := w.newParty(partyCfg{policies: pol, keyIdx: 1, errh: true})
		l := &link{w: w, a: a, b: b}
		if short {
			a.rnd.shortAt = k
		} else {
			a.rnd.failAt = k
		}
		l.enqueue(b, []otr3.ValidMessage{w.query(b)})
		l.settle(30)
		// C03: once the user has been told the conversation is private (and not that it ended), no
		// text of theirs goes out in the clear - whatever the randomness source did to the key exchange
		sendA := func() []otr3.ValidMessage {
			text := g.cleanText()
			ts, _ := w.send(a, text)
			olog.ok("C03")
			for _, m := range ts {
				if a.toldSecure && bytes.Contains(m, text) {
					olog.viol("C03", "cleartext-after-gone-secure", fmt.Sprintf("OTRv%d: read %d (short=%v) of Conversation.Rand failed; the user was told the conversation is private, yet Send puts the text on the wire in the clear", version, k, short))
				}
			}
			return ts
		}
		steps := []func(){
			func() { l.enqueue(a, sendA()) },
			func() { ts, _ := w.send(b, g.cleanText()); l.enqueue(b, ts) },
			func() { l.settle(10) },
			func() { ts, _ := w.smpStart(a, "", []byte("s")); l.enqueue(a, ts); l.settle(10) },
			func() { ts, _ := w.smpSecret(b, []byte("s")); l.enqueue(b, ts); l.settle(10) },
			func() { _, ts, _ := w.extraKey(a, 7, []byte("u")); l.enqueue(a, ts); l.settle(10) },
			func() { ts, _ := w.send(b, g.cleanText()); l.enqueue(b, ts); l.settle(10) },
			func() { ts, _ := w.end(a); l.enqueue(a, ts); l.settle(10) },
		}
		if endAtOnce {
			steps = []func(){steps[0], steps[len(steps)-1]} // one Send, then End
		}
		replayed := false
		for i, s := range steps {
			if w.dead {
				break
			}
			s()
			if i < len(steps)-1 && !replayed && !w.dead {
				// a failed key rotation must not have reopened the window for anything a accepted
				// before (C05 under randomness failure): replay everything after every step
				olog.ok("C05")
				for _, m := range l.seenA {
					if !isDataWire(m) || w.dead {
						continue
					}
					p, _, _, _ := w.recv(a, m)
					if p != nil {
						replayed = true
						olog.viol("C05", "replay-delivered-after-randomness-failure", fmt.Sprintf("OTRv%d: after read %d (short=%v) of Conversation.Rand failed, a data message delivered before is accepted again: %q", version, k, short, p))
						break
					}
				}
			}
		}
		// whatever failed on the way: End() ends the session and erases its keys (C08, C18)
		if !w.dead {
			olog.ok("C08")
			if a.c.IsEncrypted() {
				olog.viol("C08", "end-leaves-session-open-after-randomness-failure", fmt.Sprintf("OTRv%d: after read %d (short=%v) of Conversation.Rand failed, End() leaves the conversation encrypted with its keys in place", version, k, short))
			}
		}
		olog.ok("C13")
		reads := a.rnd.reads
		if w.dead {
			olog.viol("C13", "panic-after-randomness-failure", fmt.Sprintf("OTRv%d: failing read %d (short=%v) of Conversation.Rand led to a panic", version, k, short))
		}
		if k >= reads && k2%4 == 2 {
			break // the (longer, OTRv3) scenario draws fewer reads than k: all indices covered
		}
	}
}


// randomness that does not fail but is degenerate: tiny DH exponents (all-zero bytes and the like)
func (g *gen) degenerateRandomness(w *world) {
	for _, version := range []int{2, 3} {
		for _, last := range []byte{0, 1, 5, 87, 88, 200} {
			w.parties = map[string]*party{}
			w.dead = false
			pol, q := 2, []byte("?OTRv2?")
			if version == 3 {
				pol, q = 4, []byte("?OTRv3?")
			}
			a := w.newParty(partyCfg{policies: pol, keyIdx: 0, errh: true, tag: 0x1234})
			b := w.newParty(partyCfg{policies: pol, keyIdx: 1, errh: true})
			x := make([]byte, 40)
			x[39] = last
			a.rnd.forced = [][]byte{x, make([]byte, 16), x, x}
			b.rnd.forced = [][]byte{x}
			l := &link{w: w, a: a, b: b}
			_, ts, _, _ := w.recv(a, q)
			l.enqueue(a, ts)
			l.settle(20)
			olog.ok("C13")
			if w.dead {
				olog.viol("C13", "panic-with-degenerate-randomness", fmt.Sprintf("OTRv%d: a key exchange whose randomness source delivers the DH exponent %d (40 bytes, no read fails) panics", version, last))
			}
		}
	}
}

// ---------------------------------------------------------------------------------------------
// randomness failure while a crossing D-H Commit is handled
//
// The sweep above fails every read of ONE linear exchange. A conversation that has a key exchange of
// its own under way when a D-H Commit of the peer arrives (both sides started at once, or the peer
// started again) has more to lose: the exchange in progress is kept or given up depending on a
// comparison of hashes, and the answer needs fresh randomness. Whatever the randomness source does
// during that one call, the call returns, the conversation handles what comes NEXT - every kind of
// message the peer, or anybody on the wire, may send next, the randomness source working again - and
// a private conversation can be established and used afterwards.
//   states of a:   awaiting the D-H Key, awaiting the Signature, the same two within an established session
//   commits:       the genuine one of a peer that started at the same time, made-up ones with the
//                  highest and the lowest hash there is (both outcomes of the comparison), a well-formed
//                  one of a random D-H value
//   failure:       the k-th read from Conversation.Rand counted from that call fails / comes back short
//   next message:  see crossingNexts
// Violation keys: panic-at-crossing-commit, panic-on-message-after-randomness-failure,
// unusable-after-randomness-failure.

var crossingStates = []string{"awaiting the D-H Key message", "awaiting the Signature message", "in an established session, awaiting the D-H Key message of a new exchange", "in an established session, awaiting the Signature message of a new exchange"}
var crossingCommits = []string{"the genuine D-H Commit of the peer, who started an exchange of its own at the same time", "a made-up D-H Commit whose hash is ff…ff (higher than any of ours)", "a made-up D-H Commit whose hash is 00…00 (lower than any of ours)", "a well-formed D-H Commit of a random D-H value"}
var crossingNexts = []string{"the same D-H Commit once more", "a D-H Commit whose hash is ff…ff", "a D-H Commit whose hash is 00…00", "the genuine message of the peer that was in flight (the answer to our own last key exchange message)", "a well-formed D-H Key message", "a well-formed Reveal Signature message", "a Signature message", "a query message", "a text the user sends", "everything genuine that is in flight, in both directions"}

func crossingCommitWire(version int, sender, receiver uint32, enc, hash []byte) []byte {
	return encodeWire(otr3.AppendData(otr3.AppendData(akeHeader(version, 0x02, sender, receiver), enc), hash))
}

func (g *gen) randomGroupElement() *big.Int {
	x := make([]byte, 40)
	g.r.Read(x)
	return new(big.Int).Exp(big.NewInt(2), new(big.Int).SetBytes(x), new(big.Int).SetBytes(groupP))
}

func firstAKEWire(ms []otr3.ValidMessage) []byte {
	for _, m := range ms {
		if isAKEWire(m) {
			return m
		}
	}
	return nil
}

func (g *gen) crossingCommitFailureSweep(w *world) {
	// the core: a conversation without a session, every commit, every next message, the read of that
	// very call; protocol version and kind of failure alternate (differently from seed to seed)
	off := g.r.Intn(4)
	for st := 0; st < 2; st++ {
		for ck := range crossingCommits {
			for nx := range crossingNexts {
				g.crossingCommitFailure(w, 2+(st+ck+nx+off)%2, st, ck, nx, (st+ck+nx/2+off/2)%2 == 1, 0)
			}
		}
	}
	// a sample of the rest: within an established session; a failure one read later (it falls into
	// whatever draws randomness next)
	for i := 0; i < 24; i++ {
		st, k := 2+g.r.Intn(2), 0
		if i%4 == 3 {
			st, k = g.r.Intn(4), 1
		}
		g.crossingCommitFailure(w, 2+g.r.Intn(2), st, g.r.Intn(len(crossingCommits)), g.r.Intn(len(crossingNexts)), g.r.Intn(2) == 0, k)
	}
}

func (g *gen) crossingCommitFailure(w *world, version, st, ck, nx int, short bool, k int) {
	w.parties = map[string]*party{}
	w.dead = false
	pol := 2
	if version == 3 {
		pol = 4
	}
	a := w.newParty(partyCfg{policies: pol, keyIdx: 0, errh: true})
	b := w.newParty(partyCfg{policies: pol, keyIdx: 1, errh: true})
	l := &link{w: w, a: a, b: b}
	missed := func(why string) { g.dist["crossing:precondition-missed:"+why]++ }

	// ---- a has a key exchange of its own under way
	if st >= 2 {
		l.enqueue(b, []otr3.ValidMessage{w.query(b)})
		l.settle(30)
		if w.dead || !a.c.IsEncrypted() || !b.c.IsEncrypted() {
			missed("session")
			return
		}
		w.tick(75)
	}
	_, ts, _, _ := w.recv(a, w.query(b))
	ca := firstAKEWire(ts) // our D-H Commit
	if w.dead || ca == nil || otr3.VerifSnapshot(a.c).AkeState != 1 {
		missed("commit")
		return
	}
	var crossing []byte
	if ck == 0 && st%2 == 0 {
		// the peer starts at the same time: its D-H Commit and ours are both in flight
		w.tick(75)
		_, tb, _, _ := w.recv(b, w.query(a))
		crossing = firstAKEWire(tb)
	}
	_, tb, _, _ := w.recv(b, ca)
	held := append([]otr3.ValidMessage{}, tb...) // b's genuine messages in flight towards a
	if st%2 == 1 {
		// on to the Reveal Signature message; b's Signature message stays in flight
		if len(held) == 0 {
			missed("dhkey")
			return
		}
		_, ts, _, _ = w.recv(a, held[0])
		if w.dead || len(ts) == 0 || otr3.VerifSnapshot(a.c).AkeState != 3 {
			missed("revealsig")
			return
		}
		_, tb, _, _ = w.recv(b, ts[0])
		held = append([]otr3.ValidMessage{}, tb...)
		if ck == 0 {
			// the peer starts again
			w.tick(75)
			_, tb, _, _ = w.recv(b, w.query(a))
			crossing = firstAKEWire(tb)
		}
	}
	if w.dead {
		missed("setup-panic")
		return
	}
	sa, sb := otr3.VerifSnapshot(a.c), otr3.VerifSnapshot(b.c)
	tagA, tagB := sa.OurTag, sb.OurTag
	if version == 3 && tagB == 0 {
		tagB = 0x100 + uint32(g.r.Intn(1000))
	}
	blob := func(n int) []byte {
		x := make([]byte, n)
		g.r.Read(x)
		return x
	}
	commit := func(kind int) []byte {
		recv := tagA
		if g.r.Intn(3) == 0 {
			recv = 0
		}
		switch kind {
		case 1:
			return crossingCommitWire(version, tagB, recv, blob(196), bytes.Repeat([]byte{0xff}, 32))
		case 2:
			return crossingCommitWire(version, tagB, recv, blob(196), make([]byte, 32))
		default:
			return craftedCommit(version, tagB, recv, blob(16), g.randomGroupElement())
		}
	}
	if ck != 0 {
		crossing = commit(ck)
	}
	if crossing == nil {
		missed("peer-commit")
		return
	}
	what := fmt.Sprintf("OTRv%d, %s: %s arrives while read %d of Conversation.Rand counted from this call fails (short=%v)", version, crossingStates[st], crossingCommits[ck], k, short)
	g.dist[fmt.Sprintf("crossing:state%d:commit%d:next%d", st, ck, nx)]++

	// ---- the crossing D-H Commit, the randomness source failing
	base := a.rnd.reads
	if short {
		a.rnd.shortAt = base + k
	} else {
		a.rnd.failAt = base + k
	}
	_, ts, _, pan := w.recv(a, crossing)
	olog.ok("C13")
	if pan {
		olog.viol("C13", "panic-at-crossing-commit", what+": Receive panicked")
		return
	}
	l.enqueue(a, ts)
	if a.rnd.reads > base+k {
		g.dist["crossing:failure-hit-the-call"]++
	}

	// ---- what comes next
	var next [][]byte
	switch nx {
	case 0:
		next = [][]byte{crossing}
	case 1, 2:
		next = [][]byte{commit(nx)}
	case 3:
		for _, m := range held {
			next = append(next, m)
		}
		held = nil
	case 4:
		next = [][]byte{dhKeyWire(version, tagB, tagA, g.randomGroupElement().Bytes())}
	case 5:
		gx, gy := g.randomGroupElement(), g.randomGroupElement()
		next = [][]byte{craftedRevealSig(version, tagB, tagA, blob(16), gx, gy, g.randomGroupElement(), 1, g.r)}
	case 6:
		next = [][]byte{encodeWire(append(otr3.AppendData(akeHeader(version, 0x12, tagB, tagA), blob(200+g.r.Intn(300))), blob(20)...))}
	case 7:
		w.tick(75)
		next = [][]byte{w.query(b)}
	}
	olog.ok("C13")
	for _, m := range next {
		_, ts, _, pan := w.recv(a, m)
		if pan {
			olog.viol("C13", "panic-on-message-after-randomness-failure", fmt.Sprintf("%s; that call returned; the next message is %s: Receive panicked on %.60q… (%d bytes)", what, crossingNexts[nx], m, len(m)))
			return
		}
		l.enqueue(a, ts)
	}
	if nx == 8 {
		ts, _ := w.send(a, g.cleanText())
		if w.dead {
			olog.viol("C13", "panic-on-message-after-randomness-failure", fmt.Sprintf("%s; that call returned; next, %s: Send panicked", what, crossingNexts[nx]))
			return
		}
		l.enqueue(a, ts)
	}
	// everything genuine that is in flight arrives
	l.enqueue(b, held)
	l.settle(40)
	if w.dead {
		olog.viol("C13", "panic-on-message-after-randomness-failure", fmt.Sprintf("%s; that call returned; next came %s, then the genuine messages in flight: a call panicked", what, crossingNexts[nx]))
		return
	}
	a.rnd.failAt, a.rnd.shortAt = -1, -1 // from here on the randomness source works

	// ---- usable? A private conversation exists and carries a text each way - or, where the failure has
	// left the two sides in different sessions or in none, one can be established afresh and does
	olog.ok("C13")
	exchange := func() bool {
		for _, d := range [][2]*party{{b, a}, {a, b}} {
			text := g.cleanText()
			ts, _ := w.send(d[0], text)
			got := false
			for _, t := range ts {
				if w.dead {
					break
				}
				p, back, _, _ := w.recv(d[1], t)
				l.enqueue(d[1], back)
				if bytes.Equal(p, text) {
					got = true
				}
			}
			if w.dead || !got {
				return false
			}
		}
		return true
	}
	ok := a.c.IsEncrypted() && b.c.IsEncrypted() && exchange()
	for try := 0; try < 2 && !ok && !w.dead; try++ {
		g.dist[fmt.Sprintf("crossing:fresh-start-%d", try+1)]++
		ts, _ := w.end(a)
		l.enqueue(a, ts)
		ts, _ = w.end(b)
		l.enqueue(b, ts)
		l.settle(10)
		w.tick(3600)
		if try == 0 {
			l.enqueue(b, []otr3.ValidMessage{w.query(b)})
		} else {
			l.enqueue(a, []otr3.ValidMessage{w.query(a)})
		}
		l.settle(40)
		ok = !w.dead && a.c.IsEncrypted() && b.c.IsEncrypted() && exchange()
	}
	if w.dead {
		olog.viol("C13", "unusable-after-randomness-failure", fmt.Sprintf("%s; next came %s; afterwards (randomness working) a call panicked while a private conversation was established or used", what, crossingNexts[nx]))
	} else if !ok {
		olog.viol("C13", "unusable-after-randomness-failure", fmt.Sprintf("%s; next came %s; afterwards (randomness working) no private conversation that carries a text each way exists, nor can one be established: both sides ended whatever they had, an hour passed, a query message of either side in turn was answered by the other, all messages delivered (a encrypted: %v, b encrypted: %v)", what, crossingNexts[nx], a.c.IsEncrypted(), b.c.IsEncrypted()))
	}
}

func init() {
	if os.Getenv(pwWorkerEnv) != "" {
		parseWorker()
		os.Exit(0)
	}
	profiles["parse"] = func(seed int64, n int, out *emitter, extra map[string]interface{}) map[string]int {
		g := &gen{r: rand.New(rand.NewSource(seed)), out: out, dist: map[string]int{}}
		olog = &oracleLog{checked: map[string]int{}, out: out}
		w := newWorld(g)
		pw := &kfWorker{}
		defer pw.stop()
		for i := 0; i < n; i++ {
			g.parserCase()
			if i%4 == 0 {
				g.receiveCase(w, nil)
			}
			if i%8 == 2 {
				g.receiveCase(w, pw)
			}
		}
		pw.stop()
		extra["worker_starts"] = pw.starts
		g.randFailureSweep(w, false)
		g.randFailureSweep(w, true)
		g.degenerateRandomness(w)
		g.crossingCommitFailureSweep(w)
		extra["panics"] = panicCount
		olog.export(extra)
		return g.dist
	}
}
