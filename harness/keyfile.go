package main

// Profile "keyfile": libotr key files and the s-expression reader.
//   sexp.ReadValue / ReadList / ReadListItem / ReadString / ReadSymbol / ReadBigNum / NewBigNum,
//   otr3.ImportKeys, ExportKeysToFile, DSAPrivateKey.Import, ParsePrivateKey,
//   DSAPrivateKey.Serialize, DSAPublicKey.Fingerprint.
// Inputs: valid key files written by the real ExportKeysToFile (the three fixed test keys and
// random small keys, account names over all permitted characters), every truncation of small
// files, byte flips, deletions/duplications of '(' ')' '"' '#', odd numbers of hex digits, deep
// nesting, the empty input, lone "(", "#", "\"", and raw garbage over a structure-heavy alphabet.
// Oracles: C13 (no panic, no fatal error, no call longer than 2 s, no runaway allocation),
// C17 (ImportKeys(Export(accounts)) == accounts).
//
// Containment.  Before the repairs 722c622/cb15827 of /repo some inputs made the library recurse
// without bound ("fatal error: stack overflow" cannot be recovered) or loop for ever while
// allocating ("((" did both), so the library is never called in the harness process itself: the
// harness re-executes itself as a worker (environment variable OTRH_KEYFILE_WORKER, handled in
// init() below), sends it one op per line and reads one result line back.  A worker that dies or
// does not answer within 20 s is replaced.
//   result STACKOVERFLOW  the worker died with "fatal error: stack overflow"
//                         (the worker lowers the stack limit from 1 GB to 64 MB to get there fast)
//   result HANG           the worker's heap passed 256 MB (the largest input is 1 MB), or no
//                         answer within 20 s
//   result PANIC          a Go panic, recovered by guard() inside the worker
// The op and result formats are those of /verif/lean/Otr/DriverKeyFile.lean.
// Violation keys: C13 keyfile-panic:<entry point>, keyfile-stack-overflow, keyfile-hang,
// keyfile-slow (an answered call that used more than 8 s of processor time, twice); C17 keyfile-roundtrip,
// keyfile-import-rejects-export, keyfile-import-numbers, privkey-wire-roundtrip, keyfile-name-altered /
// keyfile-name-rejected (an account name - in particular one with leading, trailing, embedded or only
// white space - read from an exported or hand-written file is not the name that was written),
// sexp-string-altered (sexp.ReadString / ReadValue of "…" is not the text between the quotes).
// Each key is reported once, with the number of cases and the smallest witness.

import (
	"bufio"
	"bytes"
	crand "crypto/rand"
	"encoding/hex"
	"errors"
	"fmt"
	"io"
	"math/big"
	"math/rand"
	"os"
	"os/exec"
	"path/filepath"
	"regexp"
	"runtime"
	"runtime/debug"
	"sort"
	"strconv"
	"strings"
	"syscall"
	"time"

	otr3 "github.com/coyim/otr3"
	"github.com/coyim/otr3/sexp"
)

const (
	kfWorkerEnv  = "OTRH_KEYFILE_WORKER"
	kfSlow       = 8 * time.Second  // C13: no call may use more processor time (inputs are at most 1 MB; measured twice)
	kfTimeout    = 20 * time.Second // the worker is killed after this
	kfHeapLimit  = 256 << 20
	kfStackLimit = 64 << 20
)

// ---------------------------------------------------------------------------------------------
// worker side: evaluate one op with the real library

func unhxGo(s string) []byte {
	if s == "-" {
		return []byte{}
	}
	b, err := hex.DecodeString(s)
	if err != nil {
		panic("bad hex in op")
	}
	return b
}

func kfSexpStr(v sexp.Value) string {
	var sb strings.Builder
	kfSexpWrite(&sb, v)
	return sb.String()
}

// iterative along the chain of cons cells (a list may have a million items), recursive into items
func kfSexpWrite(sb *strings.Builder, v sexp.Value) {
	closing := 0
	for {
		c, isCons := v.(sexp.Cons)
		if !isCons {
			break
		}
		sb.WriteString("(")
		kfSexpWrite(sb, c.First())
		sb.WriteString(" . ")
		closing++
		v = c.Second()
	}
	switch t := v.(type) {
	case nil:
		sb.WriteString("<nil>")
	case sexp.Snil:
		sb.WriteString("()")
	case sexp.Sstring:
		sb.WriteString("s:" + hx([]byte(string(t))))
	case sexp.Symbol:
		sb.WriteString("y:" + hx([]byte(string(t))))
	case sexp.BigNum:
		fmt.Fprintf(sb, "#%X#", t.Value().(*big.Int))
	default:
		sb.WriteString("?")
	}
	sb.WriteString(strings.Repeat(")", closing))
}

// what the next reads see after an UnreadByte: shows the position and bufio's lastByte
func kfRest(r *bufio.Reader) string {
	_ = r.UnreadByte()
	rest, _ := io.ReadAll(r)
	return hx(rest)
}

func kfNum(s string) *big.Int {
	v, ok := new(big.Int).SetString(s, 16)
	if !ok {
		return nil
	}
	return v
}

func kfKey(p, q, g, y, x *big.Int) *otr3.DSAPrivateKey {
	k := &otr3.DSAPrivateKey{}
	k.PrivateKey.P, k.PrivateKey.Q, k.PrivateKey.G, k.PrivateKey.Y, k.PrivateKey.X = p, q, g, y, x
	k.DSAPublicKey.PublicKey = k.PrivateKey.PublicKey
	return k
}

func kfAccountsArg(toks []string) []*otr3.Account {
	var as []*otr3.Account
	for len(toks) >= 7 {
		as = append(as, &otr3.Account{
			Name:     string(unhxGo(toks[0])),
			Protocol: string(unhxGo(toks[1])),
			Key:      kfKey(kfNum(toks[2]), kfNum(toks[3]), kfNum(toks[4]), kfNum(toks[5]), kfNum(toks[6])),
		})
		toks = toks[7:]
	}
	return as
}

func kfKeyFields(k *otr3.DSAPrivateKey) string {
	return fmt.Sprintf("p=%X q=%X g=%X y=%X x=%X", k.PrivateKey.P, k.PrivateKey.Q, k.PrivateKey.G, k.PrivateKey.Y, k.PrivateKey.X)
}

func kfSerFp(k *otr3.DSAPrivateKey) string {
	// ImportKeys accepts files that leave numbers nil (pinned by /repo's tests); Serialize on a
	// key without x dereferences the nil pointer, so it is not called then
	ser := "n/a"
	if k.PrivateKey.X != nil {
		ser = guard(func() string { return hx(k.Serialize()) })
	}
	fp := guard(func() string {
		f := k.PublicKey().Fingerprint()
		if f == nil {
			return "nil"
		}
		return hx(f)
	})
	return "ser=" + ser + " fp=" + fp
}

func kfAccountsStr(as []*otr3.Account) string {
	var parts []string
	for _, a := range as {
		k := a.Key.(*otr3.DSAPrivateKey)
		parts = append(parts, fmt.Sprintf("name=%s proto=%s %s %s", hx([]byte(a.Name)), hx([]byte(a.Protocol)), kfKeyFields(k), kfSerFp(k)))
	}
	return "[" + strings.Join(parts, ";") + "]"
}

func kfExport(as []*otr3.Account) []byte {
	f, err := os.CreateTemp(os.TempDir(), "otrh-keyfile-*")
	if err != nil {
		panic(err)
	}
	name := f.Name()
	f.Close()
	defer os.Remove(name)
	if err := otr3.ExportKeysToFile(as, name); err != nil {
		panic(err)
	}
	b, err := os.ReadFile(filepath.Clean(name))
	if err != nil {
		panic(err)
	}
	return b
}

func kfCmpInt(a, b *big.Int) bool {
	if a == nil || b == nil {
		return a == nil && b == nil
	}
	return a.Cmp(b) == 0
}

func kfSameAccounts(as, bs []*otr3.Account) bool {
	if len(as) != len(bs) {
		return false
	}
	for i := range as {
		a, b := as[i], bs[i]
		ka, kb := a.Key.(*otr3.DSAPrivateKey), b.Key.(*otr3.DSAPrivateKey)
		if a.Name != b.Name || a.Protocol != b.Protocol ||
			!kfCmpInt(ka.PrivateKey.P, kb.PrivateKey.P) || !kfCmpInt(ka.PrivateKey.Q, kb.PrivateKey.Q) ||
			!kfCmpInt(ka.PrivateKey.G, kb.PrivateKey.G) || !kfCmpInt(ka.PrivateKey.Y, kb.PrivateKey.Y) ||
			!kfCmpInt(ka.PrivateKey.X, kb.PrivateKey.X) ||
			!kfCmpInt(ka.DSAPublicKey.P, kb.DSAPublicKey.P) || !kfCmpInt(ka.DSAPublicKey.Q, kb.DSAPublicKey.Q) ||
			!kfCmpInt(ka.DSAPublicKey.G, kb.DSAPublicKey.G) || !kfCmpInt(ka.DSAPublicKey.Y, kb.DSAPublicKey.Y) {
			return false
		}
	}
	return true
}

// the contract of constbn.Int.ExpB (modulus odd, base below the modulus); 1 is degenerate
func kfConstbnDomain(g, p *big.Int) bool {
	return p.Bit(0) == 1 && p.Cmp(big.NewInt(3)) >= 0 && g.Cmp(p) < 0
}

func kfEval(line string) string {
	toks := strings.Fields(line)
	if len(toks) == 0 {
		return "bad-op"
	}
	rd := func() (*bufio.Reader, []byte) {
		b := unhxGo(toks[1])
		return bufio.NewReader(bytes.NewReader(b)), b
	}
	return kfGuardMsg(func() string {
		switch toks[0] {
		case "sexpread":
			r, _ := rd()
			v, end := sexp.ReadValue(r)
			return fmt.Sprintf("%s end=%v rest=%s", kfSexpStr(v), end, kfRest(r))
		case "sexplist":
			r, _ := rd()
			v := sexp.ReadList(r)
			return fmt.Sprintf("%s rest=%s", kfSexpStr(v), kfRest(r))
		case "sexpitem":
			r, _ := rd()
			v := sexp.ReadListItem(r)
			return fmt.Sprintf("%s rest=%s", kfSexpStr(v), kfRest(r))
		case "sexpstr":
			r, _ := rd()
			v := sexp.ReadString(r)
			return fmt.Sprintf("%s rest=%s", kfSexpStr(v), kfRest(r))
		case "sexpsym":
			r, _ := rd()
			v := sexp.ReadSymbol(r)
			return fmt.Sprintf("%s rest=%s", kfSexpStr(v), kfRest(r))
		case "sexpbig":
			r, _ := rd()
			v := sexp.ReadBigNum(r)
			return fmt.Sprintf("%s rest=%s", kfSexpStr(v), kfRest(r))
		case "bighex":
			_, b := rd()
			return fmt.Sprintf("%X", sexp.NewBigNum(string(b)).Value().(*big.Int))
		case "importkeys":
			_, b := rd()
			as, err := otr3.ImportKeys(bytes.NewReader(b))
			if err != nil {
				return "none"
			}
			return "some " + kfAccountsStr(as)
		case "reimport":
			// C17, second sentence: re-serialising any successfully parsed input yields bytes that parse
			// to the same value
			_, b := rd()
			as, err := otr3.ImportKeys(bytes.NewReader(b))
			if err != nil {
				return "none"
			}
			for _, a := range as {
				if k, ok := a.Key.(*otr3.DSAPrivateKey); !ok || k.PrivateKey.P == nil || k.PrivateKey.Q == nil || k.PrivateKey.G == nil || k.PrivateKey.Y == nil || k.X == nil {
					return "incomplete" // (a key with missing numbers cannot be written: outside the statement)
				}
			}
			bs, err := otr3.ImportKeys(bytes.NewReader(kfExport(as)))
			if err != nil {
				return "rejected"
			}
			if !kfSameAccounts(as, bs) {
				return "differs"
			}
			return "same"
		case "importkeyserr":
			// the reader delivers the first n bytes and then fails for good (an I/O error, not EOF):
			// the import must end as it does at the end of input after those bytes
			_, b := rd()
			n, _ := strconv.Atoi(toks[2])
			if n > len(b) {
				n = len(b)
			}
			as, err := otr3.ImportKeys(io.MultiReader(bytes.NewReader(b[:n]), kfFailingReader{}))
			if err != nil {
				return "none"
			}
			return "some " + kfAccountsStr(as)
		case "exportkeys":
			return hx(kfExport(kfAccountsArg(toks[1:])))
		case "roundtrip":
			as := kfAccountsArg(toks[1:])
			bs, err := otr3.ImportKeys(bytes.NewReader(kfExport(as)))
			return fmt.Sprint(err == nil && kfSameAccounts(as, bs))
		case "keyimport":
			_, b := rd()
			var k otr3.DSAPrivateKey
			ok := k.Import(b)
			if k.PrivateKey.P == nil {
				return fmt.Sprint(ok) // false, key untouched
			}
			nums := fmt.Sprintf("%X %X %X %X %X", k.PrivateKey.P, k.PrivateKey.Q, k.PrivateKey.G, k.PrivateKey.Y, k.PrivateKey.X)
			if !kfConstbnDomain(k.PrivateKey.G, k.PrivateKey.P) {
				return "unspecified " + nums
			}
			return fmt.Sprintf("%v %s", ok, nums)
		case "parsepriv":
			_, b := rd()
			index, ok, key := otr3.ParsePrivateKey(b)
			if !ok {
				return "false " + hx(index)
			}
			k := key.(*otr3.DSAPrivateKey)
			return fmt.Sprintf("true %s %s %s", hx(index), kfKeyFields(k), kfSerFp(k))
		case "fingerprint":
			k := kfKey(kfNum(toks[1]), kfNum(toks[2]), kfNum(toks[3]), kfNum(toks[4]), nil)
			f := k.PublicKey().Fingerprint()
			if f == nil {
				return "nil"
			}
			return hx(f)
		}
		return "bad-op"
	})
}

// guard (conv.go) that keeps the panic value for the description of the finding
func kfGuardMsg(f func() string) (res string) {
	defer func() {
		if r := recover(); r != nil {
			res = "PANIC " + strings.ReplaceAll(fmt.Sprint(r), "\n", " ")
		}
	}()
	return f()
}

func kfSelfCPU() time.Duration {
	var ru syscall.Rusage
	if syscall.Getrusage(syscall.RUSAGE_SELF, &ru) != nil {
		return 0
	}
	return time.Duration(ru.Utime.Nano() + ru.Stime.Nano())
}

// processor time (user+system) a process has used so far, from /proc/<pid>/stat
func kfProcCPU(pid int) (time.Duration, bool) {
	b, err := os.ReadFile(fmt.Sprintf("/proc/%d/stat", pid))
	if err != nil {
		return 0, false
	}
	i := bytes.LastIndexByte(b, ')')
	if i < 0 {
		return 0, false
	}
	f := strings.Fields(string(b[i+1:]))
	if len(f) < 13 {
		return 0, false
	}
	ut, e1 := strconv.ParseInt(f[11], 10, 64)
	st, e2 := strconv.ParseInt(f[12], 10, 64)
	if e1 != nil || e2 != nil {
		return 0, false
	}
	return time.Duration(ut+st) * 10 * time.Millisecond, true
}

func keyfileWorker() {
	debug.SetMaxStack(kfStackLimit)
	go func() {
		var m runtime.MemStats
		for {
			time.Sleep(5 * time.Millisecond)
			runtime.ReadMemStats(&m)
			if m.HeapAlloc > kfHeapLimit {
				os.Exit(3)
			}
		}
	}()
	in := bufio.NewReaderSize(os.Stdin, 1<<20)
	out := bufio.NewWriterSize(os.Stdout, 1<<20)
	for {
		line, err := in.ReadString('\n')
		if err != nil {
			return
		}
		line = strings.TrimRight(line, "\n")
		quiet := strings.HasPrefix(line, "quiet ")
		c0 := kfSelfCPU()
		res := kfEval(strings.TrimPrefix(line, "quiet "))
		if quiet && len(res) > 80 { // oracle-only probes: the outcome class is all that is looked at
			res = res[:80]
		}
		// processor time of the call (not wall-clock time: the machine may be busy with other things)
		res += fmt.Sprintf("\tcpu=%d", (kfSelfCPU() - c0).Milliseconds())
		out.WriteString(res)
		out.WriteByte('\n')
		out.Flush()
	}
}

// ---------------------------------------------------------------------------------------------
// harness side

type kfWorker struct {
	cmd    *exec.Cmd
	in     *bufio.Writer
	lines  chan string
	stderr *bytes.Buffer
	starts int
}

func (w *kfWorker) start() {
	exe, err := os.Executable()
	if err != nil {
		panic(err)
	}
	w.cmd = exec.Command(exe)
	w.cmd.Env = append(os.Environ(), kfWorkerEnv+"=1", "GOTRACEBACK=none")
	stdin, err := w.cmd.StdinPipe()
	if err != nil {
		panic(err)
	}
	stdout, err := w.cmd.StdoutPipe()
	if err != nil {
		panic(err)
	}
	w.stderr = &bytes.Buffer{}
	w.cmd.Stderr = w.stderr
	if err := w.cmd.Start(); err != nil {
		panic(err)
	}
	w.in = bufio.NewWriterSize(stdin, 1<<20)
	lines := make(chan string, 1)
	w.lines = lines
	go func() {
		r := bufio.NewReaderSize(stdout, 1<<20)
		for {
			l, err := r.ReadString('\n')
			if err != nil {
				close(lines)
				return
			}
			lines <- strings.TrimRight(l, "\n")
		}
	}()
	w.starts++
}

func (w *kfWorker) stop() {
	if w.cmd != nil {
		_ = w.cmd.Process.Kill()
		_ = w.cmd.Wait()
		w.cmd = nil
	}
}

// call returns the result line and, for abnormal outcomes, a description
func (w *kfWorker) call(op string) (res, desc string, took time.Duration) {
	if w.cmd == nil {
		w.start()
	}
	t0 := time.Now()
	cpu0, _ := kfProcCPU(w.cmd.Process.Pid)
	w.in.WriteString(op)
	w.in.WriteByte('\n')
	w.in.Flush()
	tick := time.NewTicker(250 * time.Millisecond)
	defer tick.Stop()
	for {
		select {
		case l, ok := <-w.lines:
			took = time.Since(t0)
			if ok {
				// "took" is the processor time the worker reports for the call
				if i := strings.LastIndex(l, "\tcpu="); i >= 0 {
					if ms, err := strconv.Atoi(l[i+5:]); err == nil {
						took = time.Duration(ms) * time.Millisecond
					}
					l = l[:i]
				}
				if strings.HasPrefix(l, "PANIC") {
					return "PANIC", strings.TrimSpace(strings.TrimPrefix(l, "PANIC")), took
				}
				return l, "", took
			}
			err := w.cmd.Wait()
			w.cmd = nil
			msg := w.stderr.String()
			switch {
			case strings.Contains(msg, "stack overflow"):
				return "STACKOVERFLOW", "fatal error: stack overflow (unbounded recursion, not recoverable)", took
			case err != nil && strings.Contains(err.Error(), "exit status 3"):
				return "HANG", fmt.Sprintf("heap grew past %d MB after %v", kfHeapLimit>>20, took), took
			}
			first := strings.SplitN(msg, "\n", 2)[0]
			return "FATAL", fmt.Sprintf("worker died: %v %s", err, first), took
		case <-tick.C:
			// no answer yet: a hang is a call that has burnt kfTimeout of processor time (or, on a machine
			// so busy that the worker hardly runs, thirty times that in wall-clock time)
			cpu, ok := kfProcCPU(w.cmd.Process.Pid)
			if (ok && cpu-cpu0 > kfTimeout) || time.Since(t0) > 30*kfTimeout {
				took = time.Since(t0)
				w.stop()
				return "HANG", fmt.Sprintf("no answer after %v of processor time", kfTimeout), took
			}
		}
	}
}

type kfWitness struct {
	prop, desc string
	input      string
	count      int
}

type kfRun struct {
	g        *gen
	w        *kfWorker
	findings map[string]*kfWitness
	slowest  time.Duration
	slow     []string
}

func (k *kfRun) finding(prop, key, desc, input string) {
	f := k.findings[key]
	if f == nil {
		f = &kfWitness{prop: prop, desc: desc, input: input}
		k.findings[key] = f
	} else if len(input) < len(f.input) {
		f.desc, f.input = desc, input
	}
	f.count++
}

var kfEntry = map[string]string{
	"sexpread": "sexp.ReadValue", "sexplist": "sexp.ReadList", "sexpitem": "sexp.ReadListItem", "sexpstr": "sexp.ReadString",
	"sexpsym": "sexp.ReadSymbol", "sexpbig": "sexp.ReadBigNum", "bighex": "sexp.NewBigNum", "importkeys": "ImportKeys", "reimport": "ImportKeys(ExportKeysToFile(ImportKeys))", "importkeyserr": "ImportKeys(failing reader)",
	"exportkeys": "ExportKeysToFile", "roundtrip": "ImportKeys(ExportKeysToFile)", "keyimport": "DSAPrivateKey.Import",
	"parsepriv": "ParsePrivateKey", "fingerprint": "DSAPublicKey.Fingerprint",
}

func kfShow(op string) string {
	toks := strings.Fields(op)
	if len(toks) == 2 {
		b := unhxGo(toks[1])
		if len(b) > 120 {
			return fmt.Sprintf("%s %q… (%d bytes)", toks[0], b[:120], len(b))
		}
		return fmt.Sprintf("%s %q", toks[0], b)
	}
	if len(op) > 200 {
		return op[:200] + "…"
	}
	return op
}

// run one op in the worker, apply the C13 oracles; emit says whether the op goes to the model
func (k *kfRun) op(op string, emit bool) string {
	send := op
	if !emit {
		send = "quiet " + op
	}
	res, desc, took := k.w.call(send)
	name := strings.Fields(op)[0]
	entry := kfEntry[name]
	olog.ok("C13")
	if took > k.slowest {
		k.slowest = took
	}
	if took > kfSlow && res != "HANG" && res != "STACKOVERFLOW" {
		// once more, on its own: the smaller of the two measurements counts
		if _, _, again := k.w.call(send); again < took {
			took = again
		}
	}
	if took > kfSlow && res != "HANG" && res != "STACKOVERFLOW" {
		k.finding("C13", "keyfile-slow", fmt.Sprintf("%s took %v", entry, took.Round(time.Millisecond)), kfShow(op))
		k.slow = append(k.slow, fmt.Sprintf("%v %s", took.Round(time.Millisecond), kfShow(op)))
	}
	cls := "ok"
	switch res {
	case "PANIC":
		cls = "PANIC"
		k.finding("C13", "keyfile-panic:"+entry, entry+" panics: "+desc, kfShow(op))
	case "STACKOVERFLOW", "FATAL":
		cls = res
		k.finding("C13", "keyfile-stack-overflow", entry+": "+desc, kfShow(op))
	case "HANG":
		cls = res
		k.finding("C13", "keyfile-hang", entry+" does not terminate: "+desc, kfShow(op))
	default:
		if strings.Contains(res, "ser=PANIC") || strings.Contains(res, "fp=PANIC") {
			k.finding("C13", "keyfile-panic:Serialize/Fingerprint", "Serialize or Fingerprint of a parsed key panics", kfShow(op))
		}
		if name == "importkeys" && strings.Contains(res, "<nil>") {
			k.g.dist["importkeys:accepted-with-nil-number"]++
		}
		switch {
		case strings.HasPrefix(res, "none"), strings.HasPrefix(res, "false"):
			cls = "none"
		case strings.HasPrefix(res, "unspecified"):
			cls = "unspecified"
		case strings.HasPrefix(res, "<nil>"):
			cls = "nil"
		}
	}
	k.g.dist[name+":"+cls]++
	if emit {
		k.g.out.emit(op, res)
	}
	return res
}

// ---- generators

type kfAcct struct {
	name, proto   []byte
	p, q, g, y, x *big.Int
}

func (a kfAcct) args() string {
	return fmt.Sprintf("%s %s %X %X %X %X %X", hx(a.name), hx(a.proto), a.p, a.q, a.g, a.y, a.x)
}

func kfArgs(as []kfAcct) string {
	var s []string
	for _, a := range as {
		s = append(s, a.args())
	}
	return strings.Join(s, " ")
}

// the exact precondition of keyfile_roundtrip (Proofs/KeyFile.lean)
func kfIsSymbolStart(c byte) bool {
	return !kfIsNotSymbolChar(c) && c != '"' && c != '#'
}
func kfIsNotSymbolChar(c byte) bool {
	return c == ' ' || c == '\t' || c == '\n' || c == '\r' || c == '(' || c == ')'
}
func (a kfAcct) wellFormed() bool {
	if bytes.IndexByte(a.name, '"') >= 0 {
		return false
	}
	if len(a.proto) == 0 || !kfIsSymbolStart(a.proto[0]) {
		return false
	}
	for _, c := range a.proto {
		if kfIsNotSymbolChar(c) {
			return false
		}
	}
	return true
}

func (g *gen) kfPick(s string) byte { return s[g.r.Intn(len(s))] }

// white space: skipped by the s-expression reader between tokens, content inside a quoted string
const kfWs = " \t\r\n"

func (g *gen) kfWsRun(max int) []byte {
	b := make([]byte, 1+g.r.Intn(max))
	for i := range b {
		b[i] = ' '
		if g.r.Intn(2) == 0 {
			b[i] = g.kfPick(kfWs)
		}
	}
	return b
}

func (g *gen) kfWord() []byte {
	b := make([]byte, 1+g.r.Intn(8))
	for i := range b {
		b[i] = g.kfPick("abcdefghijklmnopqrstuvwxyzABCDEFGHIJKLMNOPQRSTUVWXYZ0123456789@._-/")
	}
	return b
}

// an account name in which white space matters (all of them inside the precondition: no '"'):
// leading, trailing, both, embedded, nothing but white space
func (g *gen) kfWsName() []byte {
	cat := func(parts ...[]byte) []byte { return bytes.Join(parts, nil) }
	switch g.r.Intn(7) {
	case 0, 1:
		return cat(g.kfWsRun(3), g.kfWord())
	case 2:
		return cat(g.kfWord(), g.kfWsRun(3))
	case 3:
		return g.kfWsRun(4)
	case 4:
		return cat(g.kfWord(), g.kfWsRun(2), g.kfWord())
	case 5:
		return cat(g.kfWsRun(2), g.kfWord(), g.kfWsRun(2))
	}
	return cat(g.kfWsRun(2), g.kfWord(), g.kfWsRun(2), g.kfWord(), g.kfWsRun(2))
}

func (g *gen) kfName() []byte {
	if g.r.Intn(4) == 0 {
		return g.kfWsName()
	}
	n := g.r.Intn(20)
	b := make([]byte, n)
	for i := range b {
		switch g.r.Intn(10) {
		case 0: // anything but '"' and newline-free is not required: any byte except '"'
			c := byte(g.r.Intn(256))
			if c == '"' {
				c = '\''
			}
			b[i] = c
		case 1:
			b[i] = g.kfPick(" ()#\t\n@/.\\")
		default:
			b[i] = g.kfPick("abcdefghijklmnopqrstuvwxyzABCDEFGHIJKLMNOPQRSTUVWXYZ0123456789@._-/")
		}
	}
	if g.r.Intn(12) == 0 && n > 0 { // outside the precondition
		b[g.r.Intn(n)] = '"'
	}
	return b
}

func (g *gen) kfProto() []byte {
	switch g.r.Intn(12) {
	case 0:
		return []byte("prpl-jabber")
	case 1:
		return []byte("libpurple-oscar")
	case 2: // outside the precondition
		return [][]byte{{}, []byte("#x"), []byte("\"x"), []byte("a b"), []byte("a(b"), []byte("a)b"), []byte("(")}[g.r.Intn(7)]
	}
	n := 1 + g.r.Intn(12)
	b := make([]byte, n)
	for i := range b {
		for {
			c := byte(g.r.Intn(256))
			if g.r.Intn(4) != 0 {
				c = g.kfPick("abcdefghijklmnopqrstuvwxyz-_#\"0123456789")
			}
			if kfIsNotSymbolChar(c) || i == 0 && !kfIsSymbolStart(c) {
				continue
			}
			b[i] = c
			break
		}
	}
	return b
}

func (g *gen) kfInt() *big.Int {
	switch g.r.Intn(12) {
	case 0:
		return big.NewInt(0)
	case 1:
		return big.NewInt(int64(g.r.Intn(16))) // one hex digit
	case 2:
		return big.NewInt(int64(g.r.Intn(4096))) // up to three
	case 3:
		return nil
	case 4:
		return new(big.Int).Neg(new(big.Int).SetBytes(g.bytesN(1 + g.r.Intn(4))))
	case 5:
		return new(big.Int).SetBytes(g.bytesN(100 + g.r.Intn(29))) // at most 1024 bits
	}
	return new(big.Int).SetBytes(g.bytesN(1 + g.r.Intn(12)))
}

// a small key inside the contract of constbn (p odd, g < p) with y = g^x mod p
func (g *gen) kfSmallKey() (p, q, gg, y, x *big.Int) {
	for {
		p = new(big.Int).SetBytes(g.bytesN(1 + g.r.Intn(10)))
		p.SetBit(p, 0, 1)
		if p.Cmp(big.NewInt(3)) >= 0 {
			break
		}
	}
	gg = new(big.Int).Rand(g.r, p)
	x = new(big.Int).SetBytes(g.bytesN(g.r.Intn(6)))
	y = new(big.Int).Exp(gg, x, p)
	q = new(big.Int).SetBytes(g.bytesN(1 + g.r.Intn(4)))
	if g.r.Intn(6) == 0 {
		y = new(big.Int).Add(y, big.NewInt(1))
	}
	return
}

func (g *gen) kfAccount() kfAcct {
	a := kfAcct{name: g.kfName(), proto: g.kfProto()}
	switch g.r.Intn(4) {
	case 0:
		k := testKeys[g.r.Intn(len(testKeys))]
		a.p, a.q, a.g, a.y, a.x = k.PrivateKey.P, k.PrivateKey.Q, k.PrivateKey.G, k.PrivateKey.Y, k.PrivateKey.X
	case 1:
		a.p, a.q, a.g, a.y, a.x = g.kfSmallKey()
	default:
		a.p, a.q, a.g, a.y, a.x = g.kfInt(), g.kfInt(), g.kfInt(), g.kfInt(), g.kfInt()
	}
	return a
}

// the text of one number with an even number of hex digits, the way libotr writes it
func kfEvenHex(v *big.Int) string {
	s := fmt.Sprintf("%X", v)
	if len(s)%2 == 1 {
		s = "0" + s
	}
	return s
}

// a libotr-style file (even digit counts, as DSAPrivateKey.Import requires)
func kfLibotrFile(a kfAcct) []byte {
	return []byte(fmt.Sprintf("(privkeys\n (account\n(name %s)\n(protocol %s)\n(private-key \n (dsa \n  (p #%s#)\n  (q #%s#)\n  (g #%s#)\n  (y #%s#)\n  (x #%s#)\n  )\n )\n )\n)\n",
		a.name, a.proto, kfEvenHex(a.p), kfEvenHex(a.q), kfEvenHex(a.g), kfEvenHex(a.y), kfEvenHex(a.x)))
}

var kfAlphabet = []byte("(()))\"\"##  \n\tabpqgxy01239AFaf-+privkeys")

func (g *gen) kfGarbage() []byte {
	n := g.smallLen()
	if g.r.Intn(3) == 0 {
		return g.bytesN(n)
	}
	b := make([]byte, n)
	for i := range b {
		b[i] = kfAlphabet[g.r.Intn(len(kfAlphabet))]
	}
	return b
}

var kfStructural = []byte("()\"# \n")

// structure-aware mutation of a key file
func (g *gen) kfMutate(b []byte) []byte {
	b = append([]byte{}, b...)
	if len(b) == 0 {
		return g.kfGarbage()
	}
	pick := func(set []byte) int { // index of a random occurrence of one of the bytes, or -1
		var ix []int
		for i, c := range b {
			if bytes.IndexByte(set, c) >= 0 {
				ix = append(ix, i)
			}
		}
		if len(ix) == 0 {
			return -1
		}
		return ix[g.r.Intn(len(ix))]
	}
	switch g.r.Intn(12) {
	case 0: // truncate
		b = b[:g.r.Intn(len(b))]
	case 1: // flip a bit
		b[g.r.Intn(len(b))] ^= byte(1 << uint(g.r.Intn(8)))
	case 2: // delete a structural character
		if i := pick([]byte("()\"#")); i >= 0 {
			b = append(b[:i], b[i+1:]...)
		}
	case 3: // duplicate a structural character
		if i := pick([]byte("()\"#")); i >= 0 {
			b = append(b[:i+1], b[i:]...)
		}
	case 4: // delete one hex digit (odd number of digits)
		if i := pick([]byte("0123456789ABCDEF")); i >= 0 {
			b = append(b[:i], b[i+1:]...)
		}
	case 5: // replace a byte by a structural character
		b[g.r.Intn(len(b))] = kfStructural[g.r.Intn(len(kfStructural))]
	case 6: // insert garbage
		i := g.r.Intn(len(b) + 1)
		b = append(b[:i], append(g.kfGarbage(), b[i:]...)...)
	case 7: // delete a range
		i := g.r.Intn(len(b))
		j := i + g.r.Intn(len(b)-i+1)
		if j-i > 40 {
			j = i + 40
		}
		b = append(b[:i], b[j:]...)
	case 8: // truncate right after a structural character
		if i := pick([]byte("()\"#")); i >= 0 {
			b = b[:i+1]
		}
	case 9: // cut the head off
		b = b[g.r.Intn(len(b)):]
	case 10: // put a sign, an underscore, 0x or a space into a number
		if i := pick([]byte("#")); i >= 0 {
			ins := [][]byte{[]byte("-"), []byte("+"), []byte("_"), []byte("0x"), []byte(" "), []byte("g")}[g.r.Intn(6)]
			b = append(b[:i+1], append(append([]byte{}, ins...), b[i+1:]...)...)
		}
	default: // two mutations
		b = g.kfMutate(g.kfMutate(b))
	}
	return b
}

var kfFixed = []string{
	"", "(", ")", "#", "\"", " ", "\n", "((", "()", "(()", "(\"", "(#", "( ", "(a", "(a ", "(a(", "##", "#1#", "#0#", "#-0#", "#+#", "#-#",
	"#_1#", "#0x1#", "# 1#", "#1 #", "#g#", "#1", "\"a", "\"\"", "a\"b", "a#b", "a)", ")(", "(privkeys", "(privkeys)", "(privkeys ",
	"(privkeys (", "(privkeys ()", "(privkeys (account", "(privkeys (account (", "privkeys", "(privkeys) trailing",
	"(privkeys (account (name a) (protocol b) (private-key (dsa))))",
	"(privkeys (account (name a) (protocol b) (private-key (dsa (p #1#)))))",
	"(privkeys (account (name a) (protocol b) (private-key (dsa (p #1#) (q #2#) (g #3#) (y #4#)))))",
	"(privkeys (account (name a) (protocol b) (private-key (dsa (p #1#) (q #2#) (g #3#) (y #4#) (x #5#)))))",
	"(privkeys (account (name a) (protocol b) (private-key (dsa (p #1#) (p #2#) (z #3#)))))",
	"(privkeys (account (name \"a\") (protocol \"b\") (private-key (dsa))))",
	"(privkeys (account (name (a)) (protocol b) (private-key (dsa))))",
	"(privkeys (account (name a) (protocol b) (private-key (dsa (p #zz#)))))",
	"(privkeys (account (name a) (protocol b) (private-key (dsa (p 1)))))",
	"(privkeys (account (name a) (protocol b) (private-key (rsa))))",
	"(privkeys (account (name a) (protocol b) (private-key (dsa (p #1#)",
	" # # # # #", " #) #) #) #) #)", " #00) #00) #00) #00) #00)", " #07) #01) #03) #06) #03)", " #07) #01) #03) #06) #03",
	" #7) #1) #3) #6) #3)", " #08) #01) #03) #01) #02)", " #01) #01) #00) #00) #01)", " #07) #01) #09) #04) #02)",
}

func kfNested(open, closeN int, tail string) []byte {
	return []byte(strings.Repeat("(", open) + tail + strings.Repeat(")", closeN))
}

func kfWire(p, q, g, y, x *big.Int) []byte {
	b := []byte{0, 0}
	for _, v := range []*big.Int{p, q, g, y, x} {
		b = otr3.AppendMPI(b, v)
	}
	return b
}

// all the reader ops on one input
func (k *kfRun) probe(b []byte, all bool) {
	h := hx(b)
	k.op("importkeys "+h, true)
	k.op("keyimport "+h, true)
	k.op("sexpread "+h, true)
	if all || k.g.r.Intn(4) == 0 {
		for _, o := range []string{"sexplist", "sexpitem", "sexpstr", "sexpsym", "sexpbig"} {
			k.op(o+" "+h, true)
		}
	}
}

func kfHasWs(b []byte) bool { return bytes.ContainsAny(b, kfWs) }

var kfNameRe = regexp.MustCompile(`name=([0-9a-f]+|-) proto=`)

// C17: the names ImportKeys returned (res: the result of the op "importkeys <file>") are the names that
// were written into the file, byte for byte
func (k *kfRun) namesCheck(how string, file []byte, res string, names [][]byte) {
	olog.ok("C17")
	in := kfShow("importkeys " + hx(file))
	if !strings.HasPrefix(res, "some ") {
		if res == "none" {
			k.finding("C17", "keyfile-name-rejected", fmt.Sprintf("ImportKeys rejects the file %s for the account name(s) %q", how, names), in)
		}
		return
	}
	ms := kfNameRe.FindAllStringSubmatch(res, -1)
	if len(ms) != len(names) {
		return // (an account lost or gained: keyfile-roundtrip)
	}
	for i, m := range ms {
		if got := unhxGo(m[1]); !bytes.Equal(got, names[i]) {
			k.finding("C17", "keyfile-name-altered",
				fmt.Sprintf("the file %s for the account name %q is read back by ImportKeys with the name %q", how, names[i], got), in)
		}
	}
}

// a hand-written key file (file: libotr layout, the name old written as a symbol) with the name
// nm written as a quoted string: ImportKeys must return exactly nm
func (k *kfRun) handFile(file, old, nm []byte) {
	q := bytes.Replace(file, append(append([]byte("(name "), old...), ')'), append(append([]byte("(name \""), nm...), '"', ')'), 1)
	if k.g.r.Intn(2) == 0 { // all on one line
		q = bytes.Join(bytes.Fields(q[:bytes.Index(q, []byte("(name "))]), []byte(" "))
		rest := file[bytes.Index(file, []byte("(protocol ")):]
		q = append(append(append(append(q, " (name \""...), nm...), "\") "...), bytes.Join(bytes.Fields(rest), []byte(" "))...)
	}
	k.g.dist["handfile:white-space-name"]++
	k.namesCheck("written by hand (quoted name)", q, k.op("importkeys "+hx(q), true), [][]byte{nm})
}

// C17: a quoted string (the form account names are written in) is read as the text between the
// quotes: sexp.ReadString and sexp.ReadValue of Sstring(s).String()
func (k *kfRun) quoted(s []byte) {
	if bytes.IndexByte(s, '"') >= 0 {
		return
	}
	g := k.g
	in := []byte{}
	if g.r.Intn(3) == 0 { // white space in front of the opening quote is not part of the string
		in = append(in, g.kfWsRun(2)...)
	}
	in = append(append(append(in, '"'), s...), '"')
	in = append(in, []string{"", "", " ", ")", " x", "\""}[g.r.Intn(6)]...)
	for _, o := range []string{"sexpstr", "sexpread"} {
		res := k.op(o+" "+hx(in), true)
		olog.ok("C17")
		if !strings.HasPrefix(res, "s:"+hx(s)+" ") {
			k.finding("C17", "sexp-string-altered", fmt.Sprintf("%s reads the quoted string %q as %s", kfEntry[o], s, strings.SplitN(res, " ", 2)[0]), kfShow(o+" "+hx(in)))
		}
	}
}

// names with white space in every position, at the start of every run
func (k *kfRun) wsFixed() {
	a := kfAcct{proto: []byte("prpl-jabber"), p: big.NewInt(7), q: big.NewInt(3), g: big.NewInt(5), y: big.NewInt(6), x: big.NewInt(2)}
	for _, s := range []string{" alice@example.org", "\tbob@example.org", "\rcarol@example.org", "\ndave@example.org", " ", "   ", "\t", "\r\n",
		"erin@example.org ", "frank smith@example.org", "  grace\t@example.org\n", "\r\n heidi", ""} {
		nm := []byte(s)
		k.quoted(nm)
		a.name = []byte("n")
		k.handFile(kfLibotrFile(a), a.name, nm)
		a.name = nm
		b := a
		b.name = append([]byte(" "), nm...) // differs in one leading blank only
		args := kfArgs([]kfAcct{a, b})
		olog.ok("C17")
		if rt := k.op("roundtrip "+args, true); rt != "true" {
			k.finding("C17", "keyfile-roundtrip", "ImportKeys(ExportKeysToFile(accounts)) differs from accounts: "+rt, "roundtrip "+args)
		}
		if exp := k.op("exportkeys "+args, true); !strings.ContainsAny(exp, "PSH") {
			k.namesCheck("ExportKeysToFile wrote", unhxGo(exp), k.op("importkeys "+exp, true), [][]byte{a.name, b.name})
		}
	}
}

func (k *kfRun) scenario() {
	g := k.g
	switch c := g.r.Intn(20); {
	case c < 6: // accounts → file → accounts
		n := g.r.Intn(4)
		if g.r.Intn(3) == 0 {
			n = 1
		}
		var as []kfAcct
		wf := true
		for i := 0; i < n; i++ {
			a := g.kfAccount()
			if i > 0 && g.r.Intn(3) == 0 { // the previous name again, behind (or in front of) some white space
				prev := as[i-1].name
				if g.r.Intn(4) == 0 {
					a.name = append(append([]byte{}, prev...), g.kfWsRun(2)...)
				} else {
					a.name = append(g.kfWsRun(2), prev...)
				}
			}
			as = append(as, a)
			wf = wf && a.wellFormed()
		}
		args := kfArgs(as)
		fileHex := k.op(strings.TrimSpace("exportkeys "+args), true)
		rt := k.op(strings.TrimSpace("roundtrip "+args), true)
		if wf {
			olog.ok("C17")
			g.dist["roundtrip:wellformed"]++
			if rt != "true" {
				k.finding("C17", "keyfile-roundtrip", "ImportKeys(ExportKeysToFile(accounts)) differs from accounts: "+rt, "roundtrip "+args)
			}
		} else {
			g.dist["roundtrip:outside-precondition:"+rt]++
		}
		if strings.ContainsAny(fileHex, "PSH") { // PANIC / STACKOVERFLOW / HANG
			return
		}
		file := unhxGo(fileHex)
		if len(file) > 0 {
			k.op(fmt.Sprintf("importkeyserr %s %d", fileHex, g.r.Intn(len(file))), true)
		}
		imp := k.op("importkeys "+fileHex, true)
		if wf {
			var names [][]byte
			for _, a := range as {
				names = append(names, a.name)
			}
			k.namesCheck("ExportKeysToFile wrote", file, imp, names)
			for _, nm := range names {
				if kfHasWs(nm) {
					g.dist["roundtrip:white-space-name"]++
					k.quoted(nm)
				}
			}
		}
		k.op("keyimport "+fileHex, true)
		for i := 0; i < 3; i++ {
			k.probe(g.kfMutate(file), false)
		}
	case c < 8: // libotr-style file for DSAPrivateKey.Import, and its mutations
		a := kfAcct{name: []byte("acct@example.org"), proto: []byte("prpl-jabber")}
		if g.r.Intn(2) == 0 {
			t := testKeys[g.r.Intn(len(testKeys))]
			a.p, a.q, a.g, a.y, a.x = t.PrivateKey.P, t.PrivateKey.Q, t.PrivateKey.G, t.PrivateKey.Y, t.PrivateKey.X
		} else {
			a.p, a.q, a.g, a.y, a.x = g.kfSmallKey()
		}
		file := kfLibotrFile(a)
		res := k.op("keyimport "+hx(file), true)
		olog.ok("C17")
		want := fmt.Sprintf("%X %X %X %X %X", a.p, a.q, a.g, a.y, a.x)
		if !strings.HasSuffix(res, " "+want) {
			k.finding("C17", "keyfile-import-numbers", "DSAPrivateKey.Import stored other numbers than the file holds: "+res, kfShow("keyimport "+hx(file)))
		}
		k.op("importkeys "+hx(file), true)
		// the account name written as a symbol, with characters a quoted name could not hold
		sym := []string{"fo\"o", "a\"", "\"b", "jid@host/res", "x#y", "a\"b\"c"}[g.r.Intn(6)]
		symFile := bytes.Replace(file, append([]byte("(name "), a.name...), []byte("(name "+sym), 1)
		olog.ok("C17")
		if r := k.op("reimport "+hx(symFile), true); r == "rejected" || r == "differs" {
			k.finding("C17", "keyfile-reexport-not-readable", "ImportKeys accepts a file whose re-export it cannot read back ("+r+"): account name "+sym, kfShow("reimport "+hx(symFile)))
		}
		// the account name quoted, the way libotr (and ExportKeysToFile) write it, with white space inside the quotes
		qn := g.kfWsName()
		k.handFile(file, a.name, qn)
		k.quoted(qn)
		// what ExportKeysToFile writes for the same key: DSAPrivateKey.Import must be able to read it back
		exp := k.op("exportkeys "+a.args(), true)
		if !strings.ContainsAny(exp, "PSH") {
			r2 := k.op("keyimport "+exp, true)
			olog.ok("C17")
			if !strings.HasSuffix(r2, " "+want) {
				k.finding("C17", "keyfile-import-rejects-export",
					"DSAPrivateKey.Import cannot read what ExportKeysToFile wrote for a valid key (a number with an odd count of hex digits): "+r2,
					"keyimport(exportkeys "+a.args()+")")
			}
		}
		for i := 0; i < 4; i++ {
			k.probe(g.kfMutate(file), false)
		}
	case c < 9: // every truncation of a small file
		a := kfAcct{name: g.kfName(), proto: []byte("p")}
		a.p, a.q, a.g, a.y, a.x = g.kfSmallKey()
		var file []byte
		if g.r.Intn(2) == 0 {
			file = kfLibotrFile(a)
		} else {
			file = []byte(fmt.Sprintf("(privkeys (account (name %q) (protocol x) (private-key (dsa (p #%X#) (q #%X#) (g #%X#) (y #%X#) (x #%X#))))) ", "n", a.p, a.q, a.g, a.y, a.x))
		}
		for i := 0; i <= len(file); i++ {
			k.probe(file[:i], false)
		}
	case c < 10: // fixed corner cases
		for i := 0; i < 6; i++ {
			k.probe([]byte(kfFixed[g.r.Intn(len(kfFixed))]), true)
		}
	case c < 13: // garbage
		for i := 0; i < 6; i++ {
			k.probe(g.kfGarbage(), g.r.Intn(3) == 0)
		}
	case c < 14: // nesting
		d := []int{1, 2, 3, 10, 100, 254, 255, 256, 257, 258, 300, 1000, 5000}[g.r.Intn(13)]
		switch g.r.Intn(4) {
		case 0:
			k.probe(kfNested(d, d, ""), true)
		case 1:
			k.probe(kfNested(d, d-1, "a"), true)
		case 2:
			k.probe(kfNested(d, g.r.Intn(d+1), " x \"y\" #1# "), true)
		default:
			k.probe([]byte("(privkeys "+string(kfNested(d, d, "account"))+")"), true)
		}
	case c < 16: // numbers
		for i := 0; i < 8; i++ {
			var s []byte
			switch g.r.Intn(4) {
			case 0:
				s = []byte(fmt.Sprintf("%X", g.kfInt()))
			case 1:
				s = g.mutate([]byte(fmt.Sprintf("%x", g.kfInt())))
			case 2:
				s = []byte([]string{"", "-", "+", "-0", "+0", "00", "0x10", "1_0", "_1", "1_", " 1", "1 ", "fF", "-fF", "+-1", "--1", "g", "1g", "<nil>", "0000000000000000000000001"}[g.r.Intn(20)])
			default:
				s = g.kfGarbage()
			}
			k.op("bighex "+hx(s), true)
			k.op("sexpbig "+hx(append(append([]byte("#"), s...), '#')), true)
		}
	case c < 19: // wire form
		var b []byte
		var p, q, gg, y, x *big.Int
		if g.r.Intn(2) == 0 {
			t := testKeys[g.r.Intn(len(testKeys))]
			p, q, gg, y, x = t.PrivateKey.P, t.PrivateKey.Q, t.PrivateKey.G, t.PrivateKey.Y, t.PrivateKey.X
		} else {
			nn := func() *big.Int { return new(big.Int).SetBytes(g.mpiBytes()) }
			p, q, gg, y, x = nn(), nn(), nn(), nn(), nn()
		}
		b = kfWire(p, q, gg, y, x)
		if g.r.Intn(3) == 0 {
			b = append(b, g.blob()...)
		}
		res := k.op("parsepriv "+hx(b), true)
		olog.ok("C17")
		if !strings.Contains(res, fmt.Sprintf("p=%X q=%X g=%X y=%X x=%X ser=%s ", p, q, gg, y, x, hx(kfWire(p, q, gg, y, x)))) {
			k.finding("C17", "privkey-wire-roundtrip", "ParsePrivateKey(serialised key) / Serialize differ from the key: "+res, kfShow("parsepriv "+hx(b)))
		}
		k.op(fmt.Sprintf("fingerprint %X %X %X %X", p, q, gg, y), true)
		for i := 0; i < 4; i++ {
			k.op("parsepriv "+hx(g.mutate(b)), true)
		}
		k.op("parsepriv "+hx(g.blob()), true)
		k.op(fmt.Sprintf("fingerprint %X %X %X %X", g.kfInt(), g.kfInt(), g.kfInt(), g.kfInt()), true)
	default: // the fixed list, systematically (first scenarios of a run)
		k.probe([]byte(kfFixed[g.r.Intn(len(kfFixed))]), true)
	}
}

// probes that are too large for the model: oracle only (nothing is emitted)
func (k *kfRun) oracleOnly() {
	mb := 1 << 19
	for _, b := range [][]byte{
		kfNested(mb, mb, ""),
		kfNested(mb, 0, ""),
		[]byte(strings.Repeat("(a ", mb/3)),
		[]byte("(" + strings.Repeat("() ", mb/3) + ")"),
		[]byte("(" + strings.Repeat("a ", mb/2) + ")"),
		[]byte(strings.Repeat("a", mb)),
		[]byte("\"" + strings.Repeat("a", mb)),
		// big.Int.SetString is quadratic: 1 MB of digits take 3 s, 4 MB 50 s (reported, not probed)
		[]byte("#" + strings.Repeat("1", mb/4) + "#"),
		[]byte(strings.Repeat(" ", mb)),
		[]byte("(privkeys " + strings.Repeat("(account (name a) (protocol b) (private-key (dsa (p #1#))))\n", 10000) + ")"),
	} {
		k.op("sexpread "+hx(b), false)
		k.op("importkeys "+hx(b), false)
	}
}

// ImportKeys accepts key files that leave numbers of a key out (pinned by /repo's tests). A
// conversation that is given such a key must still not panic when the peer's messages reach the
// point where it would sign: every subset of the five numbers left out, either role, both versions.
func (k *kfRun) incompleteKeys() {
	full := testKeys[0]
	nums := map[string]*big.Int{"p": full.PrivateKey.P, "q": full.PrivateKey.Q, "g": full.PrivateKey.G, "y": full.PrivateKey.Y, "x": full.X}
	// masks 32..35: nothing left out, but a q of 161 / 224 / 256 / 8 bits (ImportKeys does not look at sizes)
	for mask := 1; mask < 36; mask++ {
		var sb strings.Builder
		sb.WriteString("(privkeys (account (name a) (protocol b) (private-key (dsa ")
		left := ""
		if mask >= 32 {
			bits := []uint{160, 223, 255, 7}[mask-32]
			q := new(big.Int).Lsh(big.NewInt(1), bits)
			nums["q"] = q.Add(q, big.NewInt(95))
			left = fmt.Sprintf("nothing, q of %d bits", bits+1)
		}
		for i, n := range []string{"p", "q", "g", "y", "x"} {
			if mask < 32 && mask&(1<<uint(i)) != 0 {
				left += n
				continue
			}
			sb.WriteString("(" + n + " #" + kfEvenHex(nums[n]) + "#)")
		}
		sb.WriteString("))))")
		as, err := otr3.ImportKeys(bytes.NewReader([]byte(sb.String())))
		if err != nil || len(as) != 1 {
			k.g.dist["incomplete-key:import-rejected"]++
			continue
		}
		for role := 0; role < 2; role++ {
			for ver := 2; ver <= 3; ver++ {
				olog.ok("C13")
				k.g.dist["incomplete-key:exchange"]++
				res := guard(func() string {
					mk := func(key otr3.PrivateKey) *otr3.Conversation {
						c := &otr3.Conversation{Rand: crand.Reader}
						if ver == 2 {
							c.Policies.AllowV2()
						} else {
							c.Policies.AllowV3()
						}
						c.SetOurKeys([]otr3.PrivateKey{key})
						return c
					}
					a, b := mk(as[0].Key), mk(testKeys[1])
					x, y := a, b
					if role == 1 {
						x, y = b, a
					}
					ms := []otr3.ValidMessage{x.QueryMessage()}
					for i := 0; i < 8 && len(ms) > 0; i++ {
						var nx []otr3.ValidMessage
						for _, m := range ms {
							_, ts, _ := y.Receive(m)
							nx = append(nx, ts...)
						}
						ms = nx
						x, y = y, x
					}
					// still usable afterwards
					a.Receive(otr3.ValidMessage("hello"))
					a.Send(otr3.ValidMessage("hello"))
					return "ok"
				})
				if res == "PANIC" {
					k.finding("C13", "panic-with-incomplete-imported-key", fmt.Sprintf("a conversation whose long-term key was imported from a key file that leaves out %s panicked during a key exchange", left),
						fmt.Sprintf("importkeys %s; OTRv%d, role %d", sb.String()[:60]+"…", ver, role))
				}
			}
		}
	}
}

func init() {
	if os.Getenv(kfWorkerEnv) != "" {
		keyfileWorker()
		os.Exit(0)
	}
	profiles["keyfile"] = func(seed int64, n int, out *emitter, extra map[string]interface{}) map[string]int {
		g := &gen{r: rand.New(rand.NewSource(seed)), out: out, dist: map[string]int{}}
		olog = &oracleLog{checked: map[string]int{}, out: out}
		loadKeys()
		k := &kfRun{g: g, w: &kfWorker{}, findings: map[string]*kfWitness{}}
		defer k.w.stop()
		for _, f := range kfFixed {
			k.probe([]byte(f), true)
		}
		k.wsFixed()
		for i := 0; i < n; i++ {
			k.scenario()
		}
		k.oracleOnly()
		k.incompleteKeys()
		wit := map[string]interface{}{}
		var keys []string
		for key := range k.findings {
			keys = append(keys, key)
		}
		sort.Strings(keys)
		for _, key := range keys {
			f := k.findings[key]
			olog.viol(f.prop, key, fmt.Sprintf("%s; %d case(s); smallest witness: %s", f.desc, f.count, f.input))
			wit[key] = map[string]interface{}{"count": f.count, "witness": f.input, "desc": f.desc}
		}
		extra["keyfile_findings"] = wit
		extra["slow_calls"] = k.slow
		extra["worker_starts"] = k.w.starts
		extra["slowest_call_ms"] = k.slowest.Milliseconds()
		pc := 0
		for key, c := range g.dist {
			if strings.HasSuffix(key, ":PANIC") {
				pc += c
			}
		}
		extra["panics"] = pc
		olog.export(extra)
		return g.dist
	}
}

type kfFailingReader struct{}

func (kfFailingReader) Read(p []byte) (int, error) { return 0, errors.New("input/output error") }
