package main

// Profile "tags" (C15): instance tags. Grid of sender/receiver tag values on several message
// kinds and fragments, before and after the peer's tag is known; own-tag generation under
// adversarial randomness; the public ExtractInstanceTags helper against what the sender wrote.

import (
	"fmt"
	"math/rand"

	otr3 "github.com/coyim/otr3"
)

func xtags(w *world, m []byte) (uint32, uint32, bool) {
	var o, t uint32
	var ok bool
	res := guard(func() string {
		o, t, ok = otr3.ExtractInstanceTags(m)
		return fmt.Sprintf("%d %d %v", o, t, ok)
	})
	w.g.out.emit("xtags "+hx(m), res)
	if res == "PANIC" {
		olog.viol("C13", "extractinstancetags-panics", fmt.Sprintf("ExtractInstanceTags panicked on %.60q", m))
	}
	return o, t, ok
}

// check the helper on everything a party emits
func checkEmitted(w *world, from *party, ms []otr3.ValidMessage) {
	s := otr3.VerifSnapshot(from.c)
	for _, m := range ms {
		o, t, ok := xtags(w, m)
		olog.ok("C15")
		isV3 := s.Version == 3 && (len(m) > 5 && (string(m[:5]) == "?OTR:" || string(m[:5]) == "?OTR|"))
		if isV3 {
			if !ok || t != s.OurTag || o != s.TheirTag {
				olog.viol("C15", "extract-wrong-tags", fmt.Sprintf("ExtractInstanceTags(%.40q…) = (%d,%d,%v), the sender wrote sender=%d receiver=%d", m, o, t, ok, s.OurTag, s.TheirTag))
			}
		} else if ok {
			olog.viol("C15", "extract-tags-from-untagged", fmt.Sprintf("ExtractInstanceTags(%.40q…) reports tags for a message that carries none", m))
		}
	}
}

func tagMsg(kind int, s, r uint32, g *gen) []byte {
	hdr := func(t byte) []byte {
		return []byte{0, 3, t, byte(s >> 24), byte(s >> 16), byte(s >> 8), byte(s), byte(r >> 24), byte(r >> 16), byte(r >> 8), byte(r)}
	}
	enc := func(b []byte) []byte { return append(append([]byte("?OTR:"), otr3.VerifB64Encode(b)...), '.') }
	switch kind {
	case 0: // data message shaped
		return enc(append(hdr(3), g.bytesN(60)...))
	case 1: // DH-Commit shaped, well formed body
		body := otr3.AppendData(otr3.AppendData(nil, g.bytesN(196)), g.bytesN(32))
		return enc(append(hdr(2), body...))
	case 2: // fragment carrying a query
		return []byte(fmt.Sprintf("?OTR|%08x|%08x,00001,00001,?OTRv3?,", s, r))
	case 4: // D-H Key whose MPI announces 192 bytes and carries a few
		return enc(append(append(hdr(0x0a), 0, 0, 0, 0xc0), g.bytesN(1+g.r.Intn(8))...))
	case 5: // a key exchange message type - or a type byte nobody knows - over a body of random bytes
		return enc(append(hdr([]byte{0x0a, 0x11, 0x12, 0x02, 0xee, 0x07}[g.r.Intn(6)]), g.bytesN(g.r.Intn(40))...))
	default: // first piece of a longer stream
		return []byte(fmt.Sprintf("?OTR|%08x|%08x,00001,00002,?OTR:AAMD,", s, r))
	}
}

// fragment headers whose tags are not unsigned 32 bit hexadecimal numbers, and fragments that are not
// fragments at all: they carry no tags for the routing helper and bind nothing
func (g *gen) oddFragmentHeaders(w *world) {
	w.parties = map[string]*party{}
	w.dead = false
	for _, m := range []string{
		"?OTR|100000200|100000000,00001,00002,AAAA,", // more than 32 bits
		"?OTR|-100|00000000,00001,00002,AAAA,",       // signed
		"?OTR|+200|00000000,00001,00002,AAAA,",
		"?OTR|00000200|-1,00001,00002,AAAA,",
		"?OTR|ffffffff00000200|00000000,00001,00002,AAAA,",
	} {
		olog.ok("C15")
		if o, t, ok := xtags(w, []byte(m)); ok {
			olog.viol("C15", "extract-tags-from-non-32-bit-numbers", fmt.Sprintf("ExtractInstanceTags(%q) = (%#x,%#x,true): the header does not carry two unsigned 32 bit tags", m, o, t))
		}
		a := w.newParty(partyCfg{policies: 4, keyIdx: 0, errh: true, tag: 0x300})
		w.recv(a, []byte(m))
		if tt := otr3.VerifSnapshot(a.c).TheirTag; tt != 0 {
			olog.viol("C15", "malformed-tag-binds-peer", fmt.Sprintf("after Receive(%q) a fresh conversation is bound to peer instance %#x", m, tt))
		}
	}
	for _, m := range []string{
		"?OTR|00000200|00000000,garbage",             // no fragment body at all
		"?OTR|00000200|00000300,00001,00002,AAAA",    // no closing comma
		"?OTR|00000200|00000300,x,00002,AAAA,",       // not a number
		"?OTR|00000200|00000300,00001,00002,AA,AA,",  // too many parts
	} {
		a := w.newParty(partyCfg{policies: 4, keyIdx: 0, errh: true, tag: 0x300})
		_, _, err, _ := w.recv(a, []byte(m))
		olog.ok("C15")
		if tt := otr3.VerifSnapshot(a.c).TheirTag; tt != 0 && err != nil {
			olog.viol("C15", "invalid-fragment-binds-peer", fmt.Sprintf("Receive(%q) fails (%v) and yet binds the fresh conversation to peer instance %#x", m, err, tt))
		}
	}
}

func (g *gen) tagsScenario(w *world) {
	w.parties = map[string]*party{}
	w.dead = false
	// own tags are preset (InitializeInstanceTag) so that the receiver tag comparison is exercised from the first message on;
	// one target in three has drawn no own tag yet (it has sent no OTRv3 message, nobody asked for its tag): a receiver tag
	// other than zero then names a sibling instance, whatever its value. (The own tag is only ever read through the
	// snapshot: GetOurInstanceTag draws one.)
	btag := 0x100 + g.r.Uint32()%0xfffffe00
	if g.r.Intn(3) == 0 {
		btag = 0
	}
	a := w.newParty(partyCfg{policies: 4, keyIdx: 0, errh: g.r.Intn(2) == 0, tag: 0x100 + g.r.Uint32()%0xfffffe00, fragSize: []int{0, 0, 90, 200}[g.r.Intn(4)]})
	b := w.newParty(partyCfg{policies: 4, keyIdx: 1, errh: g.r.Intn(2) == 0, tag: btag})
	l := &link{w: w, a: a, b: b}
	// three states: nothing seen yet / committed to OTRv3 but not bound to a peer instance / bound
	st := g.r.Intn(4)
	if btag == 0 && st >= 2 && g.r.Intn(2) == 0 {
		st = 0 // (a conversation that has completed a key exchange has drawn its tag)
	}
	bound := st >= 2
	committed, preset := st == 1, false
	if committed {
		if preset = g.r.Intn(3) == 0; preset {
			// created for OTRv3 by the client (NewConversationWithVersion)
			delete(w.parties, b.id)
			if btag != 0 {
				btag = 0x100 + g.r.Uint32()%0xfffffe00
			}
			b = w.newParty(partyCfg{version: 3, policies: 4, keyIdx: 1, errh: g.r.Intn(2) == 0, tag: btag})
			l.b = b
		} else {
			// has received the query and sent its D-H Commit, which is still on its way
			l.enqueue(a, []otr3.ValidMessage{w.query(a)})
			l.deliver(true)
			for _, m := range l.qba {
				checkEmitted(w, b, []otr3.ValidMessage{m})
			}
		}
		if cs := otr3.VerifSnapshot(b.c); cs.Version != 3 || cs.TheirTag != 0 {
			committed = false // (not the state this branch is about)
		}
	}
	if bound {
		l.enqueue(a, []otr3.ValidMessage{w.query(a)})
		for i := 0; i < 30 && (len(l.qab) > 0 || len(l.qba) > 0); i++ {
			if len(l.qab) > 0 {
				checkEmitted(w, a, []otr3.ValidMessage{l.qab[0]})
				l.deliver(true)
			}
			if len(l.qba) > 0 {
				checkEmitted(w, b, []otr3.ValidMessage{l.qba[0]})
				l.deliver(false)
			}
		}
	}
	sb := otr3.VerifSnapshot(b.c)
	sa := otr3.VerifSnapshot(a.c)
	own, peer := sb.OurTag, sa.OurTag
	vals := []uint32{0, 1, 0xff, 0x100, own, peer, 0x12345678}
	disturbed := false // an injected message was accepted (reply, step of the key exchange, stored fragment)
	strayDesc := ""
	trials := 10
	if committed {
		trials = 1 + g.r.Intn(4) // few, so that often none of them is accepted and the genuine exchange below is run
	}
	for trial := 0; trial < trials && !w.dead; trial++ {
		s, r := vals[g.r.Intn(len(vals))], vals[g.r.Intn(len(vals))]
		kind := g.r.Intn(6)
		if committed && g.r.Intn(3) != 0 {
			kind = []int{0, 4, 5}[g.r.Intn(3)] // nothing that a conversation waiting for a D-H Key accepts
		}
		if committed && g.r.Intn(2) == 0 {
			// valid tags naming a stranger (or somebody claiming to be the peer), addressed to this instance or to nobody
			s, r = []uint32{0x100, 0x12345678, peer, 0x100 + g.r.Uint32()%0xfffffe00}[g.r.Intn(4)], []uint32{0, own}[g.r.Intn(2)]
		}
		if otr3.VerifSnapshot(b.c).OurTag == 0 && g.r.Intn(4) < map[bool]int{true: 3, false: 2}[trial == 0] {
			// no own tag yet: traffic of a valid sender addressed to a sibling instance (what the peer sends once it is
			// bound to the user's other client) - a D-H Commit, a data message, a whole or a first fragment
			s = []uint32{0x100, 0x12345678, peer, 0x100 + g.r.Uint32()%0xfffffe00}[g.r.Intn(4)]
			r = []uint32{0x100, 0x12345678, 0xffffffff, 0x100 + g.r.Uint32()%0xfffffe00}[g.r.Intn(4)]
			kind = []int{0, 1, 2, 3}[g.r.Intn(4)]
			g.dist["tags:no-own-tag-yet:sibling-instance-traffic"]++
		}
		m := tagMsg(kind, s, r, g)
		// the routing helper reports exactly the two tags the message or fragment carries
		if xo, xt, xok := xtags(w, m); !xok || xo != r || xt != s {
			olog.viol("C15", "extract-wrong-tags", fmt.Sprintf("ExtractInstanceTags(%.50q…) = (%#x,%#x,%v), the message carries sender=%#x receiver=%#x", m, xo, xt, xok, s, r))
		}
		before := otr3.VerifSnapshot(b.c)
		plain, ts, rerr, pan := w.recv(b, m)
		after := otr3.VerifSnapshot(b.c)
		if pan {
			olog.viol("C13", "receive-panics", fmt.Sprintf("Receive panicked on a message with tags %x/%x", s, r))
			return
		}
		if d := snapDiff(before, after); d != "no-visible-state-change" && d != "theirTag" {
			disturbed = true
		}
		for _, t := range ts {
			if !isErrorReply(t) {
				disturbed = true
			}
		}
		olog.ok("C15")
		wellFormed := s >= 0x100 && (r == 0 || r >= 0x100)
		// (while no own tag exists every receiver tag other than zero names another instance)
		foreign := (r != 0 && r != before.OurTag) || (before.TheirTag != 0 && s != before.TheirTag)
		desc := fmt.Sprintf("kind %d sender %x receiver %x (own %x, bound peer %x): plain=%v replies=%d err=%v change=%s; message %.70q", kind, s, r, before.OurTag, before.TheirTag, plain != nil, len(ts), rerr, snapDiff(before, after), m)
		if !wellFormed {
			if after.TheirTag != before.TheirTag {
				olog.viol("C15", "malformed-tag-binds-peer", desc)
			}
			if plain != nil {
				olog.viol("C15", "malformed-tag-delivered", desc)
			}
		} else if foreign {
			nonErr := 0
			for _, t := range ts {
				if !isErrorReply(t) {
					nonErr++
				}
			}
			if plain != nil || nonErr > 0 || snapDiff(before, after) != "no-visible-state-change" {
				// the version may be committed by the very first message (known finding of C06), nothing else may change
				if !(snapDiff(before, after) == "version" && plain == nil && nonErr == 0) {
					olog.viol("C15", "foreign-instance-not-ignored", desc)
				}
			}
		} else if before.TheirTag == 0 && after.TheirTag != 0 && after.TheirTag != s {
			olog.viol("C15", "wrong-peer-tag-learned", desc)
		} else if before.TheirTag == 0 && after.TheirTag != 0 && (rerr != nil || (plain == nil && len(ts) == 0 && snapDiff(before, after) == "theirTag")) {
			// the message was rejected (an error), or had no effect whatsoever: not an accepted message
			strayDesc = fmt.Sprintf("Receive(%q) in a conversation %s (own instance %#x, no peer instance yet) returns err=%v plain=%v replies=%d, and the conversation is bound to peer instance %#x",
				m, map[bool]string{true: "committed to OTRv3", false: "that has seen nothing yet"}[before.Version == 3], before.OurTag, rerr, plain != nil, len(ts), after.TheirTag)
			olog.viol("C15", "rejected-message-binds-peer", strayDesc)
		}
		// anything the injection caused to be emitted is dropped (it is addressed to a phantom)
	}
	// committed state: nothing of the noise was accepted, so the key exchange with the genuine peer completes
	if committed {
		g.dist["tags:committed-to-v3-not-bound"]++
	}
	if committed && !disturbed && !w.dead {
		g.dist["tags:committed-to-v3-not-bound:genuine-exchange-after-noise"]++
		why := "none of the injected messages was accepted"
		if strayDesc != "" {
			why = strayDesc
		}
		if preset {
			// (a conversation made by NewConversationWithVersion never chooses a long-term key and cannot sign: the
			// exchange is followed up to the point where the genuine peer answers this conversation's D-H Commit)
			l.enqueue(a, []otr3.ValidMessage{w.query(a)})
			l.deliver(true)
			answered := len(l.qba) == 0 // (no D-H Commit: nothing to answer)
			for len(l.qba) > 0 && !w.dead {
				checkEmitted(w, b, []otr3.ValidMessage{l.qba[0]})
				m := l.qba[0]
				l.qba = l.qba[1:]
				_, ts, _, _ := w.recv(a, m)
				for _, t := range ts {
					if !isErrorReply(t) {
						answered = true
					}
				}
			}
			l.qab = nil
			olog.ok("C15")
			if !answered && !w.dead {
				olog.viol("C15", "genuine-peer-locked-out", fmt.Sprintf("the genuine peer (instance %#x) does not answer the D-H Commit the conversation sends after tag noise (it is bound to %#x): %s",
					otr3.VerifSnapshot(a.c).OurTag, otr3.VerifSnapshot(b.c).TheirTag, why))
			}
		} else {
			held := len(l.qba) // the D-H Commit, looked at when it was emitted
			for i := 0; i < 30 && (len(l.qab) > 0 || len(l.qba) > 0) && !w.dead; i++ {
				if len(l.qba) > 0 {
					if held > 0 {
						held--
					} else {
						checkEmitted(w, b, []otr3.ValidMessage{l.qba[0]})
					}
					l.deliver(false)
				}
				if len(l.qab) > 0 {
					checkEmitted(w, a, []otr3.ValidMessage{l.qab[0]})
					l.deliver(true)
				}
			}
			olog.ok("C15")
			fa, fb := otr3.VerifSnapshot(a.c), otr3.VerifSnapshot(b.c)
			if !w.dead && (!a.c.IsEncrypted() || !b.c.IsEncrypted() || fb.TheirTag != fa.OurTag) {
				olog.viol("C15", "genuine-peer-locked-out", fmt.Sprintf("the key exchange with the genuine peer (instance %#x) does not complete after tag noise (encrypted: %v/%v, bound to %#x): %s",
					fa.OurTag, a.c.IsEncrypted(), b.c.IsEncrypted(), fb.TheirTag, why))
			} else {
				bound = true // and the probe below is delivered
			}
		}
	}
	// the genuine peer must still get through
	if bound && !w.dead {
		ts, err := w.send(a, []byte("probe-after-tag-noise"))
		checkEmitted(w, a, ts)
		if err == nil {
			got := false
			for _, t := range ts {
				p, back, _, _ := w.recv(b, t)
				if string(p) == "probe-after-tag-noise" {
					got = true
				}
				l.enqueue(b, back)
			}
			if !got {
				olog.viol("C15", "genuine-peer-locked-out", "after foreign/malformed tag traffic the genuine peer's message is no longer delivered")
			}
		}
	}
}

// The binding to the peer instance is a property of the conversation object, not of one private conversation held
// through it: once instance A has been learnt, it survives every lifecycle step (End by the local user, the peer's
// disconnect, a refreshed key exchange, a key exchange that fails half way, time passing, an error message). After
// the steps a stranger's well-formed traffic (valid sender tag other than A's, addressed to this instance or to nobody)
// is ignored - no plaintext, no reply, no state change - and instance A can still start a new private conversation.
func (g *gen) bindingLifecycleScenario(w *world) {
	w.parties = map[string]*party{}
	w.dead = false
	btag := 0x100 + g.r.Uint32()%0xfffffe00
	if g.r.Intn(3) == 0 {
		btag = 0 // drawn during the key exchange
	}
	a := w.newParty(partyCfg{policies: 4, keyIdx: 0, errh: g.r.Intn(2) == 0, tag: 0x100 + g.r.Uint32()%0xfffffe00, fragSize: []int{0, 0, 0, 200}[g.r.Intn(4)]})
	b := w.newParty(partyCfg{policies: 4, keyIdx: 1, errh: g.r.Intn(2) == 0, tag: btag})
	l := &link{w: w, a: a, b: b}
	g.dist["tags:lifecycle"]++
	// the conversation learns the peer instance: a complete key exchange, started by either side
	if g.r.Intn(2) == 0 {
		l.enqueue(a, []otr3.ValidMessage{w.query(a)})
	} else {
		l.enqueue(b, []otr3.ValidMessage{w.query(b)})
	}
	l.settle(200)
	peer := otr3.VerifSnapshot(a.c).OurTag
	own := otr3.VerifSnapshot(b.c).OurTag
	if w.dead || !a.c.IsEncrypted() || !b.c.IsEncrypted() || peer < 0x100 || own < 0x100 || b.c.GetTheirInstanceTag() != peer {
		g.dist["tags:lifecycle:setup-incomplete"]++
		return
	}
	steps := ""
	nsteps := 1 + g.r.Intn(3)
	for i := 0; i < nsteps && !w.dead; i++ {
		step := g.r.Intn(7)
		name := ""
		switch step {
		case 0, 1: // the local user ends the conversation (in whatever state it is); the disconnect message arrives or is lost
			name = "End"
			ts, _ := w.end(b)
			if g.r.Intn(2) == 0 {
				name = "End(disconnect delivered)"
				l.enqueue(b, ts)
				l.settle(50)
			}
		case 2: // the peer leaves
			name = "peer-disconnect"
			ts, _ := w.end(a)
			l.enqueue(a, ts)
			l.settle(50)
		case 3: // the peer refreshes the conversation (or starts a new one)
			name = "refresh"
			w.tick(75) // (a query that follows a state change within a minute is not answered)
			l.enqueue(a, []otr3.ValidMessage{w.query(a)})
			l.settle(200)
		case 4: // a key exchange with the peer that fails half way: the rest is lost, something unparsable arrives in its place
			name = "failed-exchange"
			w.tick(75)
			l.enqueue(a, []otr3.ValidMessage{w.query(a)})
			l.settle(1 + g.r.Intn(2))
			l.qab, l.qba = nil, nil
			w.recv(b, tagMsg(4+g.r.Intn(2), peer, []uint32{0, own}[g.r.Intn(2)], g))
		case 5:
			name = "time-passes"
			w.tick([]int{75, 120, 3600}[g.r.Intn(3)])
		case 6:
			name = "error-message"
			w.recv(b, []byte("?OTR Error: something went wrong"))
		}
		g.dist["tags:lifecycle:step:"+name]++
		if steps != "" {
			steps += ", "
		}
		steps += name
		olog.ok("C15")
		if got := b.c.GetTheirInstanceTag(); got != peer {
			olog.viol("C15", "peer-binding-lost-over-lifecycle", fmt.Sprintf("the conversation (own instance %#x) had completed a key exchange with peer instance %#x; after [%s] GetTheirInstanceTag() = %#x", own, peer, steps, got))
		}
	}
	// a stranger: another client of the peer's account, or somebody else altogether
	for trial, trials := 0, 2+g.r.Intn(3); trial < trials && !w.dead; trial++ {
		s := []uint32{0x100, 0x12345678, own, 0xffffffff, 0x100 + g.r.Uint32()%0xfffffe00}[g.r.Intn(5)]
		if s == peer {
			s = peer ^ 0x1000
		}
		r := []uint32{0, own}[g.r.Intn(2)]
		kind := []int{0, 1, 1, 2, 2, 3, 4}[g.r.Intn(7)]
		m := tagMsg(kind, s, r, g)
		before := otr3.VerifSnapshot(b.c)
		plain, ts, rerr, pan := w.recv(b, m)
		if pan {
			olog.viol("C13", "receive-panics", fmt.Sprintf("Receive panicked on a message with tags %x/%x", s, r))
			return
		}
		after := otr3.VerifSnapshot(b.c)
		g.dist[fmt.Sprintf("tags:lifecycle:stranger-kind-%d", kind)]++
		olog.ok("C15")
		if plain != nil || len(ts) > 0 || snapDiff(before, after) != "no-visible-state-change" {
			to := ""
			for _, t := range ts {
				if xo, xt, xok := otr3.ExtractInstanceTags(t); xok {
					to += fmt.Sprintf(" (reply from %#x to %#x)", xt, xo)
				}
			}
			olog.viol("C15", "foreign-instance-not-ignored:after-lifecycle", fmt.Sprintf("the conversation (own instance %#x) had learnt peer instance %#x; after [%s] a message of kind %d from instance %#x to %#x is not ignored: plain=%v replies=%d%s err=%v change=%s, peer instance now %#x; message %.70q",
				own, peer, steps, kind, s, r, plain != nil, len(ts), to, rerr, snapDiff(before, after), after.TheirTag, m))
		}
	}
	if w.dead {
		return
	}
	// the peer instance starts a new private conversation (everything still in flight is lost)
	// (later than a minute after the last step: a query that follows a state change faster is not answered)
	l.qab, l.qba = nil, nil
	w.tick(3600)
	l.enqueue(a, []otr3.ValidMessage{w.query(a)})
	l.settle(200)
	olog.ok("C15")
	fa, fb := otr3.VerifSnapshot(a.c), otr3.VerifSnapshot(b.c)
	if w.dead {
		return
	}
	if !a.c.IsEncrypted() || !b.c.IsEncrypted() || fb.TheirTag != peer || fa.TheirTag != own {
		olog.viol("C15", "genuine-peer-locked-out:after-lifecycle", fmt.Sprintf("peer instance %#x, to which the conversation (own instance %#x) was bound, cannot start a new private conversation after [%s] and a stranger's traffic: encrypted %v/%v, the conversation is bound to %#x, the peer to %#x",
			peer, own, steps, a.c.IsEncrypted(), b.c.IsEncrypted(), fb.TheirTag, fa.TheirTag))
		return
	}
	ts, err := w.send(a, []byte("probe-after-lifecycle"))
	if err == nil {
		got := false
		for _, t := range ts {
			p, _, _, _ := w.recv(b, t)
			if string(p) == "probe-after-lifecycle" {
				got = true
			}
		}
		if !got && !w.dead {
			olog.viol("C15", "genuine-peer-locked-out:after-lifecycle", fmt.Sprintf("after [%s] and a stranger's traffic the message of peer instance %#x in the new private conversation is not delivered", steps, peer))
		}
	}
}

// own tag generation when the randomness source keeps producing values below 0x100
func (g *gen) ownTagScenario(w *world) {
	w.parties = map[string]*party{}
	w.dead = false
	a := w.newParty(partyCfg{policies: 4, keyIdx: 0})
	k := g.r.Intn(6)
	for i := 0; i < k; i++ {
		a.rnd.forced = append(a.rnd.forced, []byte{0, 0, 0, byte(g.r.Intn(256))})
	}
	if g.r.Intn(4) == 0 {
		a.rnd.forced = append(a.rnd.forced, []byte{0, 0, 1, 0}) // exactly 0x100
	}
	if g.r.Intn(5) == 0 {
		a.rnd.failAt = a.rnd.reads + k
	}
	// a v3 DH-Commit makes the conversation generate its tag for the reply
	m := tagMsg(1, 0x4242, 0, g)
	_, ts, _, _ := w.recv(a, m)
	olog.ok("C15")
	s := otr3.VerifSnapshot(a.c)
	if s.OurTag != 0 && s.OurTag < 0x100 {
		olog.viol("C15", "own-tag-below-0x100", fmt.Sprintf("own instance tag %#x", s.OurTag))
	}
	checkEmitted(w, a, ts)
	tag0 := s.OurTag
	_, ts2, _, _ := w.recv(a, tagMsg(1, 0x4242, 0, g))
	if s2 := otr3.VerifSnapshot(a.c); tag0 != 0 && s2.OurTag != tag0 {
		olog.viol("C15", "own-tag-regenerated", "an existing own instance tag was replaced")
	}
	checkEmitted(w, a, ts2)
	// the application may preset the own tag (InitializeInstanceTag): the conversation must not end up
	// using one below 0x100 either way
	preset := uint32(1 + g.r.Intn(0xff))
	b := w.newParty(partyCfg{policies: 4, keyIdx: 1, tag: preset})
	_, ts3, _, _ := w.recv(b, tagMsg(1, 0x4242, 0, g))
	olog.ok("C15")
	if sb := otr3.VerifSnapshot(b.c); sb.OurTag != 0 && sb.OurTag < 0x100 {
		olog.viol("C15", "own-tag-below-0x100:preset-by-application", fmt.Sprintf("InitializeInstanceTag(%#x) is accepted: the conversation uses the own instance tag %#x and writes it into %d message(s) (a conforming peer rejects them as malformed)", preset, sb.OurTag, len(ts3)))
	}
}

func init() {
	profiles["tags"] = func(seed int64, n int, out *emitter, extra map[string]interface{}) map[string]int {
		g := &gen{r: rand.New(rand.NewSource(seed)), out: out, dist: map[string]int{}}
		olog = &oracleLog{checked: map[string]int{}, out: out}
		w := newWorld(g)
		g.oddFragmentHeaders(w)
		for i := 0; i < n; i++ {
			g.tagsScenario(w)
			g.ownTagScenario(w)
			// the helper on arbitrary input
			for k := 0; k < 6; k++ {
				xtags(w, g.garbage())
				xtags(w, g.mutate([]byte("?OTR|0000ABCD|00001234,00001,00002,data,")))
				xtags(w, g.mutate(tagMsg(0, g.r.Uint32(), g.r.Uint32(), g)))
			}
			// line breaks inside the base64 text are skipped by the decoder: the text is long, what it
			// decodes to is shorter than a header
			for _, m := range []string{"?OTR:AA==\n.", "?OTR:\r\n\r\n\r\n.", "?OTR:AAM=\n.", "?OTR:AAMD\r\n\r\n.", "?OTR:AAMDAAAB\nAA==\n\n."} {
				olog.ok("C15")
				if o, t, ok := xtags(w, []byte(m)); ok {
					olog.viol("C15", "extract-tags-from-untagged", fmt.Sprintf("ExtractInstanceTags(%q) = (%#x,%#x,true): the message is shorter than a header", m, o, t))
				}
			}
			full := tagMsg(0, 0x11223344, 0x55667788, g)
			broken := append(append(append([]byte{}, full[:20]...), '\r', '\n'), full[20:]...)
			if o, t, ok := xtags(w, broken); !ok || o != 0x55667788 || t != 0x11223344 {
				olog.viol("C15", "extract-wrong-tags", fmt.Sprintf("ExtractInstanceTags of a message with a line break inside its base64 text = (%#x,%#x,%v)", o, t, ok))
			}
			xtags(w, []byte("?OTR:"))
			xtags(w, []byte("?OTR:AAIDAAAA."))
		}
		// (appended after the random part above: the traces of the scenarios above stay what they were)
		for i := 0; i < n; i++ {
			g.bindingLifecycleScenario(w)
		}
		extra["panics"] = panicCount
		olog.export(extra)
		return g.dist
	}
}
