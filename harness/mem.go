package main

// Profile "mem" (C08, C19): what a conversation retains. After every API call the object graph
// reachable from the *Conversation is scanned (hook VerifScan) for the bytes of every secret the
// harness handed out through Conversation.Rand and of every text passed to Send. Buffers in which
// a secret was seen are remembered by alias, so that once they are no longer reachable the oracle
// can tell "zeroed in place" from "merely dropped". The total size of reachable buffers is sampled
// for the boundedness property.

import (
	"bytes"
	"crypto/sha256"
	"encoding/binary"
	"encoding/hex"
	"fmt"
	"math/big"
	"math/rand"
	"regexp"
	"strings"

	otr3 "github.com/coyim/otr3"
)

type needle struct {
	b     []byte
	class string // dh (40 byte exponent), r16, smp (SMP exponent), text, akekey (c, c', m1, m2, m1', m2' of a key exchange)
	born  int    // op counter when it appeared
}

type memSide struct {
	p        *party
	needles  []needle
	seenRand int // how many entries of the rand log have been turned into needles
	aliases  []memAlias
	texts    [][]byte
	// DH exponents that have been one of the conversation's own key generations (seen at
	// c.keys.ourCurrentDHKeys / ourPreviousDHKeys): once such an exponent is no longer there, the
	// generation is retired and nothing else may still hold it
	sessionKey map[int]bool
}

type memAlias struct {
	n    int
	path string
	buf  []byte
	bi   interface{ Sign() int }
	off  int // where in buf the secret began when it was seen there
}

var dhAllowed = regexp.MustCompile(`^c\.(keys\.our(Current|Previous)DHKeys\.priv|ake\.secretExponent|ake\.keys\.our(Current|Previous)DHKeys\.priv)$`)
var dhSession = regexp.MustCompile(`^c\.keys\.our(Current|Previous)DHKeys\.priv$`)
var smpAllowed = regexp.MustCompile(`^c\.smp\.(s1|s2|s3)\.`)
var textAllowed = regexp.MustCompile(`^c\.resend\.messages\.m\[\d+\]\.m$`)

// the harness keeps its own copy of all randomness handed out: logRand.history
func (ms *memSide) absorbRandom() {
	h := ms.p.rnd.history
	for ; ms.seenRand < len(h); ms.seenRand++ {
		b := h[ms.seenRand]
		switch {
		case len(b) == 40:
			ms.needles = append(ms.needles, needle{b, "dh", 0})
		case len(b) == 16:
			ms.needles = append(ms.needles, needle{b, "r16", 0})
		case len(b) == 192:
			ms.needles = append(ms.needles, needle{trimZeros(b), "smp", 0})
		}
	}
}

func trimZeros(b []byte) []byte {
	for len(b) > 0 && b[0] == 0 {
		b = b[1:]
	}
	return b
}

func (g *gen) memCheck(w *world, ms *memSide, where string) int {
	ms.absorbRandom()
	raw := make([][]byte, len(ms.needles))
	for i, n := range ms.needles {
		raw[i] = n.b
	}
	hits, total := otr3.VerifScan(ms.p.c, raw)
	snap := otr3.VerifSnapshot(ms.p.c)
	olog.ok("C08")
	// C19: whatever a call owes the peer it hands out itself; nothing waits inside the conversation
	// for some later call (where it would pile up with every further call of the kind)
	olog.ok("C19")
	if snap.Injections > 0 {
		olog.viol("C19", "replies-queue-up", fmt.Sprintf("%s: the call has returned and %d message(s) for the peer are still held back inside the conversation (msgState %d, smp %d, our key id %d)", where, snap.Injections, snap.MsgState, snap.SmpState, snap.OurKeyID))
	}
	reachable := map[int]bool{}
	textsReachable := 0
	if ms.sessionKey == nil {
		ms.sessionKey = map[int]bool{}
	}
	inSession := map[int]bool{}
	for _, h := range hits {
		if ms.needles[h.Needle].class == "dh" && dhSession.MatchString(h.Path) {
			inSession[h.Needle] = true
		}
	}
	exchangeOver := !snap.HasAke || snap.AkeState == 0
	for _, h := range hits {
		n := ms.needles[h.Needle]
		reachable[h.Needle] = true
		desc := fmt.Sprintf("%s: %s secret #%d reachable at %s (msgState %d, ake %v/%d, smp %d)", where, n.class, h.Needle, h.Path, snap.MsgState, snap.HasAke, snap.AkeState, snap.SmpState)
		switch n.class {
		case "dh":
			if !dhAllowed.MatchString(h.Path) {
				olog.viol("C08", "dh-exponent-retained:"+pathClass(h.Path), desc)
			} else if snap.MsgState != 1 && strings.HasPrefix(h.Path, "c.keys.") {
				olog.viol("C08", "dh-exponent-after-session-end", desc)
			} else if ms.sessionKey[h.Needle] && !inSession[h.Needle] {
				// it was the current or the previous key of the conversation and no longer is: retired
				olog.viol("C08", "dh-exponent-retained:"+pathClass(h.Path), desc+": the exponent belongs to a retired key generation (it is neither the current nor the previous DH key any more)")
			} else if inSession[h.Needle] && exchangeOver && strings.HasPrefix(h.Path, "c.ake.") {
				// the exchange has completed (its exponent has become a key of the conversation) and
				// no other is in progress: the context of the exchange must have been erased
				olog.viol("C08", "ake-ephemeral-retained:"+pathClass(h.Path), desc+": the key exchange is over, its context still holds the secret exponent")
			}
		case "r16":
			// r is public once the Reveal-Signature message that carries it has been built
			if strings.HasPrefix(h.Path, "c.ake.state.revealSigMsg") {
				continue
			}
			if !(strings.HasPrefix(h.Path, "c.ake.r") && snap.HasAke && snap.AkeState != 0) && !smpAllowed.MatchString(h.Path) {
				olog.viol("C08", "ake-ephemeral-retained:"+pathClass(h.Path), desc)
			}
		case "akekey":
			// the encryption and MAC keys of the Reveal Signature / Signature messages live in the
			// context of the exchange, as long as it is in progress
			if !((strings.HasPrefix(h.Path, "c.ake.revealKey.") || strings.HasPrefix(h.Path, "c.ake.sigKey.")) && !exchangeOver) {
				olog.viol("C08", "ake-ephemeral-retained:"+pathClass(h.Path), desc)
			}
		case "smp":
			if !smpAllowed.MatchString(h.Path) {
				olog.viol("C08", "smp-exponent-retained:"+pathClass(h.Path), desc)
			} else if snap.MsgState != 1 {
				olog.viol("C08", "smp-exponent-after-session-end", desc)
			}
		case "text":
			textsReachable++
			if !textAllowed.MatchString(h.Path) {
				olog.viol("C08", "text-retained:"+pathClass(h.Path), desc)
			}
		}
		ms.aliases = append(ms.aliases, memAlias{h.Needle, h.Path, h.Buf, bigOrNil(h), bytes.Index(h.Buf, n.b)})
	}
	for i := range inSession {
		ms.sessionKey[i] = true
	}
	if snap.MsgState == 1 && textsReachable > 1 {
		olog.viol("C08", "session-history-retained", fmt.Sprintf("%s: %d earlier texts are reachable while encrypted", where, textsReachable))
	}
	// dropped but not wiped?
	textSeen := map[*byte]bool{}
	kept := ms.aliases[:0]
	for _, a := range ms.aliases {
		if reachable[a.n] {
			kept = append(kept, a)
			continue
		}
		n := ms.needles[a.n]
		still := false
		if a.buf != nil {
			still = bytes.Contains(a.buf, n.b)
		} else if a.bi != nil {
			still = a.bi.Sign() != 0
		}
		if n.class == "text" {
			// a text: every byte of the place that held it must have been zeroed, not only its
			// beginning (looking for the whole text in the old buffer would miss a surviving tail)
			if a.buf == nil || a.off < 0 || !textAllowed.MatchString(a.path) {
				continue
			}
			region := a.buf[a.off : a.off+len(n.b)]
			left, firstAt := 0, -1
			for i, c := range region {
				if c != 0 {
					if firstAt < 0 {
						firstAt = i
					}
					left++
				}
			}
			if left == 0 {
				continue
			}
			call := strings.TrimPrefix(where[strings.LastIndex(where, "; ")+1:], " ")
			intact := left == len(n.b) && bytes.Equal(region, n.b)
			// (texts taken off the list by a retransmission are erased like those that Send replaces and
			// End forgets: the library once dropped them as they were)
			key := "dropped-without-wiping:text:" + pathClass(a.path)
			what := "untouched"
			if !intact {
				key, what = "dropped-without-wiping:text-tail", "erased only in part"
			}
			if textSeen[&a.buf[0]] {
				continue // the same buffer, seen at several scans
			}
			textSeen[&a.buf[0]] = true
			g.dist["mem:"+key+":"+call]++
			olog.viol("C08", key, fmt.Sprintf("%s: the %d byte text %s (given to Send at step %d) was held at %s; that buffer is no longer reachable from the conversation and was %s: %d of its %d bytes are not zero, from offset %d on: %s", where, len(n.b), shortText(n.b), n.born, a.path, what, left, len(n.b), firstAt, shortText(region[firstAt:])))
			continue
		}
		if still {
			key := "dropped-without-wiping:" + n.class + ":" + pathClass(a.path)
			if strings.HasPrefix(a.path, "c.smp.s") {
				key = "smp-exponents-dropped-without-wiping"
			}
			olog.viol("C08", key, fmt.Sprintf("%s: the buffer at %s that held %s secret #%d is no longer reachable but was not zeroed", where, a.path, n.class, a.n))
		}
	}
	ms.aliases = kept
	return total
}

// a text in a description: quoted, long ones by their beginning and their end (the .ops file has the
// whole text in the send operation)
func shortText(b []byte) string {
	if len(b) <= 72 {
		return fmt.Sprintf("%q", b)
	}
	return fmt.Sprintf("%q...%q", b[:40], b[len(b)-24:])
}

func bigOrNil(h otr3.VerifHit) interface{ Sign() int } {
	if h.Int == nil {
		return nil
	}
	return h.Int
}

var idxRe = regexp.MustCompile(`\[\d+\]`)

func pathClass(p string) string { return idxRe.ReplaceAllString(p, "[]") }

func (g *gen) memScenario(w *world, steps int) {
	w.parties = map[string]*party{}
	w.dead = false
	version := 2 + g.r.Intn(2)
	pol := 2
	if version == 3 {
		pol = 4
	}
	if g.r.Intn(3) == 0 {
		pol |= 8
	}
	a := w.newParty(partyCfg{policies: pol | 64, keyIdx: 0, errh: true})
	b := w.newParty(partyCfg{policies: pol &^ 8, keyIdx: 1, errh: true})
	l := &link{w: w, a: a, b: b}
	sa, sb := &memSide{p: a}, &memSide{p: b}
	side := func(p *party) *memSide {
		if p == a {
			return sa
		}
		return sb
	}
	after := func(p *party, what string) { g.memCheck(w, side(p), what) }
	deliver := func(toB bool) {
		q, p := &l.qab, b
		if !toB {
			q, p = &l.qba, a
		}
		if len(*q) == 0 {
			return
		}
		m := (*q)[0]
		*q = (*q)[1:]
		_, ts, _, _ := w.recv(p, m)
		l.enqueue(p, ts)
		after(p, "after Receive")
	}
	settle := func() {
		for i := 0; i < 200 && (len(l.qab) > 0 || len(l.qba) > 0) && !w.dead; i++ {
			deliver(true)
			deliver(false)
		}
	}
	l.enqueue(a, []otr3.ValidMessage{w.query(a)})
	settle()
	ps := []*party{a, b}
	var sizes []int
	for i := 0; i < steps && !w.dead; i++ {
		p := ps[g.r.Intn(2)]
		switch k := g.r.Intn(25); {
		case k < 8:
			text := g.cleanText()
			side(p).needles = append(side(p).needles, needle{text, "text", i})
			ts, _ := w.send(p, text)
			l.enqueue(p, ts)
			after(p, "after Send")
		case k < 14:
			deliver(g.r.Intn(2) == 0)
		case k < 16:
			settle()
		case k < 17:
			ts, _ := w.end(p)
			l.enqueue(p, ts)
			after(p, "after End")
		case k < 18:
			l.enqueue(p, []otr3.ValidMessage{w.query(p)})
		case k < 19:
			ts, _ := w.smpStart(p, "", []byte("s3"))
			l.enqueue(p, ts)
			after(p, "after StartAuthenticate")
		case k < 20:
			ts, _ := w.smpSecret(p, []byte("s3"))
			l.enqueue(p, ts)
			after(p, "after ProvideAuthenticationSecret")
		case k < 21:
			ts, _ := w.smpAbort(p)
			l.enqueue(p, ts)
			after(p, "after AbortAuthentication")
		case k < 22:
			_, ts, _, _ := w.recv(p, []byte("?OTR Error: x"))
			l.enqueue(p, ts)
			after(p, "after an error message")
		case k < 23:
			// a re-keying that is overtaken by the peer's own: p has sent its Reveal Signature
			// (AWAITING_SIG, the new exchange's exponent is held twice) when a DH-Commit arrives
			settle()
			if w.dead || !a.c.IsEncrypted() || !b.c.IsEncrypted() {
				break
			}
			o := a
			if p == a {
				o = b
			}
			q := []byte("?OTRv2?")
			if version == 3 {
				q = []byte("?OTRv3?")
			}
			w.tick(75)
			_, commit, _, _ := w.recv(p, q)
			after(p, "after starting to re-key")
			var reveal []otr3.ValidMessage
			for _, m := range commit {
				_, dhkey, _, _ := w.recv(o, m)
				for _, m2 := range dhkey {
					_, r, _, _ := w.recv(p, m2)
					reveal = append(reveal, r...)
				}
			}
			after(p, "after sending the Reveal Signature message of a re-keying")
			w.tick(75)
			_, commit2, _, _ := w.recv(o, q)
			for _, m := range commit2 {
				_, ts, _, _ := w.recv(p, m)
				l.enqueue(p, ts)
			}
			after(p, "after a DH-Commit overtook our re-keying")
			after(o, "after a DH-Commit overtook our re-keying (peer)")
			_ = reveal // never delivered
			settle()
			after(p, "after the overtaking exchange completed")
		default:
			w.tick(75)
		}
		if i%10 == 9 {
			sizes = append(sizes, g.memCheck(w, sa, "sampling")+g.memCheck(w, sb, "sampling"))
		}
	}
	settle()
	// C19: the retained size must not grow with the history
	olog.ok("C19")
	if len(sizes) >= 6 {
		first, last := sizes[1], sizes[len(sizes)-1]
		if last > 4*first+65536 {
			olog.viol("C19", "retained-bytes-grow", fmt.Sprintf("reachable buffer bytes grew from %d to %d over %d operations: %v", first, last, steps, sizes))
		}
	}
	_ = hex.EncodeToString
}


// C08: the randomness source of one side fails exactly at the last draw of a key exchange (the first
// follow-up DH key, drawn when the exchange completes: while the Signature message is processed by
// the side that sent the D-H Commit, or the Reveal Signature message by the other one), then works
// again. The conversation goes on - for the peer the exchange went through - and keys rotate. After
// every call the conversation is scanned: the exponent of the exchange must be gone once its key
// generation is retired, r and the keys of the Reveal Signature / Signature messages (derived here
// from both exponents) once the exchange is over.
func (g *gen) lastDrawFails(w *world, sigSide bool, k int) (readsInCall int) {
	w.parties = map[string]*party{}
	w.dead = false
	version := 2 + g.r.Intn(2)
	pol := 2
	if version == 3 {
		pol = 4
	}
	a := w.newParty(partyCfg{policies: pol, keyIdx: 0, errh: true})
	b := w.newParty(partyCfg{policies: pol, keyIdx: 1, errh: true})
	l := &link{w: w, a: a, b: b}
	sa, sb := &memSide{p: a}, &memSide{p: b}
	side := func(p *party) *memSide {
		if p == a {
			return sa
		}
		return sb
	}
	role := "the Reveal Signature message"
	failing := a
	if sigSide {
		role, failing = "the Signature message", b
	}
	ctx := fmt.Sprintf("OTRv%d, key exchange started by %s (D-H Commit) with %s", version, b.id, a.id)
	after := func(p *party, what string) { g.memCheck(w, side(p), ctx+"; "+what) }
	step := func(p *party, ms []otr3.ValidMessage, what string) (out []otr3.ValidMessage) {
		for _, m := range ms {
			_, ts, _, _ := w.recv(p, m)
			out = append(out, ts...)
			after(p, what)
		}
		return
	}
	// a asks, b starts: b -> D-H Commit, a -> D-H Key, b -> Reveal Signature, a -> Signature
	commit := step(b, []otr3.ValidMessage{w.query(a)}, "after the query message")
	dhkey := step(a, commit, "after the D-H Commit message")
	reveal := step(b, dhkey, "after the D-H Key message")
	if w.dead || len(reveal) == 0 {
		return 0
	}
	// the keys of this exchange, from the two exponents (the first 40 byte draw of either side)
	first40 := func(p *party) []byte {
		for _, d := range p.rnd.history {
			if len(d) == 40 {
				return d
			}
		}
		return nil
	}
	if x, y := first40(b), first40(a); x != nil && y != nil {
		e := new(big.Int).Mul(new(big.Int).SetBytes(x), new(big.Int).SetBytes(y))
		sb2 := new(big.Int).Exp(big.NewInt(2), e, specDHP).Bytes()
		sec := append(binary.BigEndian.AppendUint32(nil, uint32(len(sb2))), sb2...)
		for i := byte(1); i <= 5; i++ {
			d := sha256.Sum256(append([]byte{i}, sec...))
			parts := [][]byte{d[:]}
			if i == 1 {
				parts = [][]byte{d[:16], d[16:]}
			}
			for _, part := range parts {
				for _, ms := range []*memSide{sa, sb} {
					ms.needles = append(ms.needles, needle{append([]byte{}, part...), "akekey", 0})
				}
			}
		}
	}
	var sig []otr3.ValidMessage
	if sigSide {
		sig = step(a, reveal, "after the Reveal Signature message")
	}
	base := failing.rnd.reads
	ctx = fmt.Sprintf("OTRv%d, key exchange started by %s (D-H Commit) with %s, the randomness source of %s fails at its read #%d (counted from 0; %d reads were made before this call) while it processes %s", version, b.id, a.id, failing.id, base+k, base, role)
	if sigSide {
		b.rnd.failAt = base + k
		l.enqueue(b, step(b, sig, "after the Signature message (randomness failed)"))
	} else {
		a.rnd.failAt = base + k
		sig = step(a, reveal, "after the Reveal Signature message (randomness failed)")
		l.enqueue(a, sig)
	}
	readsInCall = failing.rnd.reads - base
	hit := readsInCall > k
	failing.rnd.failAt = -1 // the source has recovered
	g.dist[fmt.Sprintf("lastdraw:sig=%v:hit=%v", sigSide, hit)]++
	if hit {
		ctx += "; the source works again"
	} else {
		ctx = fmt.Sprintf("OTRv%d, key exchange started by %s (D-H Commit) with %s, no randomness failure", version, b.id, a.id)
	}
	deliver := func(toB bool) {
		q, p := &l.qab, b
		if !toB {
			q, p = &l.qba, a
		}
		if len(*q) == 0 {
			return
		}
		m := (*q)[0]
		*q = (*q)[1:]
		_, ts, _, _ := w.recv(p, m)
		l.enqueue(p, ts)
		after(p, "after Receive")
	}
	settle := func() {
		for i := 0; i < 40 && (len(l.qab) > 0 || len(l.qba) > 0) && !w.dead; i++ {
			deliver(true)
			deliver(false)
		}
	}
	settle()
	ctx0 := ctx
	// ping-pong, the side for which the exchange went through begins: every round trip rotates keys
	order := []*party{a, b}
	if !sigSide {
		order = []*party{b, a}
	}
	rounds := 4 + g.r.Intn(2)
	for i := 0; i < rounds && !w.dead; i++ {
		for _, p := range order {
			ctx = fmt.Sprintf("%s; round trip #%d of the exchange of texts that follows, %s speaks", ctx0, i+1, p.id)
			text := g.cleanText()
			side(p).needles = append(side(p).needles, needle{text, "text", i})
			ts, _ := w.send(p, text)
			l.enqueue(p, ts)
			after(p, "after Send")
			settle()
		}
	}
	return
}


// C19 / C18: rounds of "the peer reports the last message unreadable, the key exchange is repeated"
// without any new Send: what is kept for retransmission must not grow from round to round
func (g *gen) resendRounds(w *world) {
	w.parties = map[string]*party{}
	w.dead = false
	version := 2 + g.r.Intn(2)
	pol := 2
	if version == 3 {
		pol = 4
	}
	a := w.newParty(partyCfg{policies: pol | 64, keyIdx: 0, errh: true})
	b := w.newParty(partyCfg{policies: pol, keyIdx: 1, errh: true})
	l := &link{w: w, a: a, b: b}
	l.enqueue(a, []otr3.ValidMessage{w.query(a)})
	l.settle(30)
	if !a.c.IsEncrypted() || !b.c.IsEncrypted() {
		return
	}
	text := g.cleanText()
	ts, _ := w.send(a, text)
	l.enqueue(a, ts)
	l.settle(10)
	bound := len(text) + len("[resent] ")
	for round := 1; round <= 6+g.r.Intn(6) && !w.dead; round++ {
		w.tick(75)
		_, ts, _, _ := w.recv(a, []byte("?OTR Error: could not read that"))
		l.enqueue(a, ts)
		l.settle(30)
		olog.ok("C19")
		kept := 0
		for _, m := range otr3.VerifSnapshot(a.c).Resend {
			kept += len(m)
		}
		if kept > bound {
			olog.viol("C19", "resend-text-grows", fmt.Sprintf("OTRv%d: after %d rounds of error message + repeated key exchange without a new Send, %d bytes are kept for retransmission (the only text ever sent has %d bytes)", version, round, kept, len(text)))
			return
		}
		for _, p := range b.received {
			if len(p) > bound {
				olog.viol("C19", "resend-text-grows", fmt.Sprintf("OTRv%d: after %d rounds the peer was handed a text of %d bytes (the only text ever sent has %d bytes)", version, round, len(p), len(text)))
				return
			}
		}
	}
}


// C19: replies the conversation owes (error messages) are handed out by the call that caused them;
// nothing queues up however many rejected messages or fragments arrive
func (g *gen) rejectedInputRounds(w *world) {
	w.parties = map[string]*party{}
	w.dead = false
	a := w.newParty(partyCfg{policies: 4, keyIdx: 0, errh: true, tag: 0x300})
	kinds := []string{
		"?OTR|00000005|00000300,00001,00002,abc,", // malformed sender tag in a fragment
		"?OTR|00000400|00000007,00001,00002,abc,", // malformed receiver tag in a fragment
		"?OTR:AAMDAAAABQAAAwAA.",                   // malformed tags in an encoded message
		"?OTR:AAMD.",
		"?OTR|00000400|00000300,00003,00002,abc,", // illegal fragment numbers
	}
	for round := 1; round <= 12 && !w.dead; round++ {
		m := []byte(kinds[g.r.Intn(len(kinds))])
		w.recv(a, m)
		olog.ok("C19")
		if n := otr3.VerifSnapshot(a.c).Injections; n > 0 {
			olog.viol("C19", "replies-queue-up", fmt.Sprintf("after %d rejected inputs (last: %q) %d replies are still held back in the conversation", round, m, n))
			return
		}
	}
}


// C19: user calls that are refused leave nothing behind. The calls that send a data message of their
// own (AbortAuthentication, StartAuthenticate, ProvideAuthenticationSecret, UseExtraSymmetricKey, End)
// are made, many times, where that message cannot be built:
//   mode 0: in a conversation the peer has ended (finished), then - after End - in plaintext, then the
//           next conversation begins;
//   mode 1: in a private conversation whose randomness source failed exactly when the key exchange
//           completed (no data message can be built until the peer's next message has moved the keys
//           on); the peer's next message then arrives and the conversation goes on;
//   mode 2: the same fault on the side that answers the Reveal Signature message (its Signature message
//           is lost with the failure, the peer never speaks): the user gives up and ends the conversation.
// Every scenario is run twice with new parties, without and with the refused calls (kinds), and ends
// with the same closing calls. Oracle (a) after every call nothing is held back inside the conversation;
// (b) each closing call hands out a batch of the same shape (how many messages, of which kind) in
// both runs: what a Send / Receive / End returns does not depend on how many calls were refused before.
var refusedKindNames = []string{"AbortAuthentication", "StartAuthenticate", "ProvideAuthenticationSecret", "UseExtraSymmetricKey"}

func batchShape(ms []otr3.ValidMessage) string {
	var s []string
	for _, m := range ms {
		switch {
		case bytes.HasPrefix(m, []byte("?OTR Error:")):
			s = append(s, fmt.Sprintf("error message %q", []byte(m)))
		case isDataWire(m):
			s = append(s, "data message")
		case bytes.HasPrefix(m, []byte("?OTR:")) || bytes.HasPrefix(m, []byte("?OTR|")):
			s = append(s, "key exchange message")
		case bytes.HasPrefix(m, []byte("?OTR")):
			s = append(s, "query message")
		default:
			s = append(s, "plain text")
		}
	}
	return fmt.Sprintf("%d message(s) [%s]", len(ms), strings.Join(s, ", "))
}

type refusedRun struct {
	reached bool
	labels  []string
	shapes  []string
	refused int // calls that returned an error
}

func (g *gen) refusedCalls(w *world, version, mode int, kinds []int) (run refusedRun) {
	w.parties = map[string]*party{}
	w.dead = false
	pol := 2
	if version == 3 {
		pol = 4
	}
	a := w.newParty(partyCfg{policies: pol, keyIdx: 0, errh: true})
	b := w.newParty(partyCfg{policies: pol, keyIdx: 1, errh: true})
	l := &link{w: w, a: a, b: b}
	ctx := fmt.Sprintf("OTRv%d, %s", version, []string{
		"conversation ended by the peer",
		"private conversation, randomness failed when the key exchange completed (Signature message)",
		"private conversation, randomness failed when the key exchange completed (Reveal Signature message)"}[mode])
	calls := 0
	var made []string // the refused calls so far, in order
	history := func() string {
		if len(made) == 0 {
			return "no refused calls before"
		}
		var parts []string
		for i := 0; i < len(made); {
			j := i
			for j < len(made) && made[j] == made[i] {
				j++
			}
			parts = append(parts, fmt.Sprintf("%dx %s", j-i, made[i]))
			i = j
		}
		return fmt.Sprintf("%d refused user calls before: %s", len(made), strings.Join(parts, ", "))
	}
	// (a) nothing is held back once a call has returned
	held := func(p *party, what string) {
		calls++
		olog.ok("C19")
		if sn := otr3.VerifSnapshot(p.c); sn.Injections > 0 {
			olog.viol("C19", "replies-queue-up", fmt.Sprintf("%s: after %s (call #%d of the scenario; %s) %d message(s) for the peer are held back inside the conversation of %s (msgState %d, our key id %d): they will be handed out by some later Send or Receive", ctx, what, calls, history(), sn.Injections, p.id, sn.MsgState, sn.OurKeyID))
		}
	}
	refuse := func(p *party, state string) {
		var waiting []int // messages held back after each call of this round
		grew := false
		for _, k := range kinds {
			var ts []otr3.ValidMessage
			var err error
			switch k {
			case 0:
				ts, err = w.smpAbort(p)
			case 1:
				ts, err = w.smpStart(p, "", []byte("s3"))
			case 2:
				ts, err = w.smpSecret(p, []byte("s3"))
			default:
				_, ts, err = w.extraKey(p, 7, []byte("use"))
			}
			if w.dead {
				return
			}
			if err != nil {
				run.refused++
				made = append(made, refusedKindNames[k])
			} else {
				g.dist["mem:refused-calls:not-refused:"+refusedKindNames[k]+":"+state]++
			}
			l.enqueue(p, ts)
			calls++
			olog.ok("C19")
			n := otr3.VerifSnapshot(p.c).Injections
			waiting = append(waiting, n)
			grew = grew || n > 0
		}
		if grew {
			olog.viol("C19", "refused-calls-queue-up", fmt.Sprintf("%s: %d user calls %s (%s): the number of messages for the peer that are held back inside the conversation of %s after each of them: %v; a refused call must leave nothing behind", ctx, len(kinds), state, history(), p.id, waiting))
		}
	}
	closing := func(p *party, label string, ts []otr3.ValidMessage) {
		run.labels = append(run.labels, ctx+": "+label+" ("+history()+")")
		run.shapes = append(run.shapes, batchShape(ts))
		l.enqueue(p, ts)
		held(p, label)
	}
	switch mode {
	case 0:
		l.enqueue(a, []otr3.ValidMessage{w.query(a)})
		l.settle(40)
		if w.dead || !a.c.IsEncrypted() || !b.c.IsEncrypted() {
			return
		}
		ts, _ := w.send(b, g.cleanText())
		l.enqueue(b, ts)
		l.settle(10)
		ts, _ = w.end(b)
		l.enqueue(b, ts)
		l.settle(10)
		if w.dead || otr3.VerifSnapshot(a.c).MsgState != 2 {
			return
		}
		run.reached = true
		refuse(a, "in the conversation the peer has ended")
		ts, _ = w.send(a, g.cleanText())
		closing(a, "Send in the conversation the peer has ended", ts)
		_, ts, _, _ = w.recv(a, []byte("are you there"))
		closing(a, "Receive (a plain text) in the conversation the peer has ended", ts)
		refuse(a, "in the conversation the peer has ended")
		ts, _ = w.end(a)
		closing(a, "End of the conversation the peer has ended", ts)
		refuse(a, "in plaintext")
		ts, _ = w.send(a, g.cleanText())
		closing(a, "Send in plaintext", ts)
		refuse(a, "in plaintext")
		_, ts, _, _ = w.recv(a, []byte("?OTR Error: what was that"))
		closing(a, "Receive (an error message) in plaintext", ts)
		refuse(a, "in plaintext")
		// the next conversation
		w.tick(75)
		_, ts, _, _ = w.recv(a, w.query(b))
		closing(a, "Receive (the query message that starts the next conversation)", ts)
		l.settle(40)
		if w.dead || !a.c.IsEncrypted() || !b.c.IsEncrypted() {
			return
		}
		ts, _ = w.send(a, g.cleanText())
		closing(a, "Send in the next conversation", ts)
		l.settle(10)
	case 1, 2:
		// a asks, b starts: b -> D-H Commit, a -> D-H Key, b -> Reveal Signature, a -> Signature
		step := func(p *party, ms []otr3.ValidMessage) (out []otr3.ValidMessage) {
			for _, m := range ms {
				_, ts, _, _ := w.recv(p, m)
				out = append(out, ts...)
			}
			return
		}
		reveal := step(b, step(a, step(b, []otr3.ValidMessage{w.query(a)})))
		if w.dead || len(reveal) == 0 {
			return
		}
		p, o := b, a
		if mode == 1 {
			sig := step(a, reveal)
			b.rnd.failAt = b.rnd.reads // the one draw of the call: the next D-H key
			l.enqueue(b, step(b, sig))
		} else {
			p, o = a, b
			a.rnd.failAt = a.rnd.reads
			l.enqueue(a, step(a, reveal))
		}
		p.rnd.failAt = -1 // the source works again
		if sn := otr3.VerifSnapshot(p.c); w.dead || !p.c.IsEncrypted() || sn.OurKeyID != 1 {
			return
		}
		run.reached = true
		state := "in the private conversation that cannot build data messages"
		refuse(p, state)
		ts, _ := w.send(p, g.cleanText())
		closing(p, "Send in the private conversation that cannot build data messages", ts)
		l.settle(10)
		refuse(p, state)
		if mode == 1 {
			// the peer's next message moves the keys on
			ts, _ = w.send(o, g.cleanText())
			l.enqueue(o, ts)
			for len(l.qab) > 0 && !w.dead {
				m := l.qab[0]
				l.qab = l.qab[1:]
				_, ts, _, _ = w.recv(p, m)
				closing(p, "Receive (the peer's next message, after which data messages can be built again)", ts)
			}
			l.settle(10)
			ts, _ = w.send(p, g.cleanText())
			closing(p, "Send after the peer's next message", ts)
			l.settle(10)
			ts, _ = w.end(p)
			closing(p, "End", ts)
			l.settle(10)
		} else {
			ts, _ = w.end(p)
			closing(p, "End of the private conversation that cannot build data messages", ts)
			l.settle(10)
			ts, _ = w.send(p, g.cleanText())
			closing(p, "Send in plaintext, after End", ts)
		}
	}
	return
}

func (g *gen) refusedCallRounds(w *world) {
	for mode := 0; mode < 3; mode++ {
		version := 2 + g.r.Intn(2)
		kinds := make([]int, 4+g.r.Intn(6))
		for i := range kinds {
			kinds[i] = []int{0, 0, 0, 0, 1, 2, 3, 3}[g.r.Intn(8)]
		}
		without := g.refusedCalls(w, version, mode, nil)
		with := g.refusedCalls(w, version, mode, kinds)
		g.dist[fmt.Sprintf("mem:refused-calls:mode=%d:reached=%v", mode, without.reached && with.reached)]++
		if !without.reached || !with.reached || w.dead {
			continue
		}
		g.dist["mem:refused-calls:refused"] += with.refused
		// (b) the same closing calls hand out the same batches
		olog.ok("C19")
		for i := 0; i < len(with.shapes) && i < len(without.shapes); i++ {
			if with.shapes[i] != without.shapes[i] {
				olog.viol("C19", "refused-calls-are-remembered", fmt.Sprintf("%s hands out %s; the same call at the same point of the same scenario run without the refused calls hands out %s", with.labels[i], with.shapes[i], without.shapes[i]))
				break
			}
		}
	}
}

// C08 / C18: the texts of a conversation that has ended are neither kept nor sent again in the next
// one - whether it was ended here, by the peer, or both, with or without an unanswered error report
func (g *gen) closedSessionText(w *world) {
	w.parties = map[string]*party{}
	w.dead = false
	version := 2 + g.r.Intn(2)
	pol := 2
	if version == 3 {
		pol = 4
	}
	req := 0
	if g.r.Intn(2) == 0 {
		req = 8
	}
	a := w.newParty(partyCfg{policies: pol | req, keyIdx: 0, errh: true})
	b := w.newParty(partyCfg{policies: pol, keyIdx: 1, errh: true})
	l := &link{w: w, a: a, b: b}
	l.enqueue(b, []otr3.ValidMessage{w.query(b)})
	l.settle(40)
	if !a.c.IsEncrypted() || !b.c.IsEncrypted() || w.dead {
		return
	}
	old := g.cleanText()
	ts, _ := w.send(a, old)
	l.enqueue(a, ts)
	l.settle(10)
	// the buffer(s) in which the conversation holds the text now, to be looked at after the end
	var held []otr3.VerifHit
	var heldAt []int
	hs, _ := otr3.VerifScan(a.c, [][]byte{old})
	for _, h := range hs {
		if at := bytes.Index(h.Buf, old); at >= 0 && textAllowed.MatchString(h.Path) {
			held, heldAt = append(held, h), append(heldAt, at)
		}
	}
	reported := g.r.Intn(2) == 0
	if reported { // the peer says it could not read it (nothing is resent unless a new exchange follows)
		_, back, _, _ := w.recv(a, []byte("?OTR Error: unreadable"))
		l.enqueue(a, back)
		l.settle(10)
	}
	how := g.r.Intn(3)
	if how != 0 { // the peer ends the conversation
		ts, _ = w.end(b)
		l.enqueue(b, ts)
		l.settle(10)
	}
	if how != 1 { // and / or we do
		ts, _ = w.end(a)
		l.enqueue(a, ts)
		l.settle(10)
	} else {
		ts, _ = w.end(a) // after the peer's disconnect the user has to end it here too
		l.enqueue(a, ts)
		l.settle(10)
	}
	olog.ok("C08")
	desc := fmt.Sprintf("OTRv%d, requireEncryption=%v, error reported=%v, ended by %s", version, req != 0, reported, []string{"us", "the peer, then us", "the peer and us"}[how])
	hits, _ := otr3.VerifScan(a.c, [][]byte{old})
	if len(hits) > 0 {
		olog.viol("C08", "text-retained-after-end", fmt.Sprintf("%s: after End() the last text of the conversation is still reachable at %s", desc, hits[0].Path))
	}
	for k, h := range held {
		if len(hits) > 0 {
			break // still reachable: reported above
		}
		// not reachable any more: erased, all of it?
		region := h.Buf[heldAt[k] : heldAt[k]+len(old)]
		left, firstAt := 0, -1
		for i, c := range region {
			if c != 0 {
				if firstAt < 0 {
					firstAt = i
				}
				left++
			}
		}
		if left > 0 {
			key := "dropped-without-wiping:text:" + pathClass(h.Path)
			if firstAt > 0 {
				key = "dropped-without-wiping:text-tail"
			}
			olog.viol("C08", key, fmt.Sprintf("%s: the last text of the conversation, %d bytes %s, was held at %s; after End() that buffer is no longer reachable but %d of the %d bytes are not zero, from offset %d on: %s", desc, len(old), shortText(old), h.Path, left, len(old), firstAt, shortText(region[firstAt:])))
			g.dist["mem:"+key+":closed session"]++
		}
	}
	// the next conversation
	w.tick(75)
	before := len(b.received)
	if req != 0 {
		ts, _ = w.send(a, g.cleanText())
		l.enqueue(a, ts)
	} else {
		l.enqueue(b, []otr3.ValidMessage{w.query(b)})
	}
	l.settle(60)
	for _, p := range b.received[before:] {
		if bytes.Contains(p, old) {
			olog.viol("C08", "closed-session-text-retransmitted", fmt.Sprintf("%s: the next conversation delivers %q to the peer again", desc, p))
		}
	}
}


// C19 under repeated re-keying: one side only receives; the peer starts a new key exchange after every
// message (here: because it gets a whitespace-tagged plaintext each time, which needs no waiting time).
// What the receiving side keeps for disclosure must not grow with the number of exchanges.
func (g *gen) repeatedRekeying(w *world) {
	w.parties = map[string]*party{}
	w.dead = false
	version := 2 + g.r.Intn(2)
	pol := 2
	if version == 3 {
		pol = 4
	}
	a := w.newParty(partyCfg{policies: pol, keyIdx: 0, errh: true})
	b := w.newParty(partyCfg{policies: pol | 32, keyIdx: 1, errh: true})
	l := &link{w: w, a: a, b: b}
	l.enqueue(a, []otr3.ValidMessage{w.query(a)})
	l.settle(40)
	tag := " \t  \t\t\t\t \t \t \t  " + map[int]string{2: "  \t\t  \t ", 3: "  \t\t  \t\t"}[version]
	var sizes []int
	for cycle := 1; cycle <= 12 && !w.dead; cycle++ {
		if !a.c.IsEncrypted() || !b.c.IsEncrypted() {
			return
		}
		ts, _ := w.send(b, g.cleanText())
		l.enqueue(b, ts)
		l.settle(10)
		_, ts2, _, _ := w.recv(b, []byte("hi"+tag)) // b starts a new exchange
		l.enqueue(b, ts2)
		l.settle(30)
		sn := otr3.VerifSnapshot(a.c)
		sizes = append(sizes, sn.OldMACKeys)
		olog.ok("C19")
		if sn.OldMACKeys > 8 {
			olog.viol("C19", "reveal-queue-grows-with-rekeying", fmt.Sprintf("OTRv%d: after %d rounds of (one message received, key exchange repeated by the peer) %d MAC keys wait to be revealed: %v", version, cycle, sn.OldMACKeys, sizes))
			return
		}
	}
}

// C08: long texts. A text of more than 256 bytes is sent; then it is replaced as the remembered last
// message by the next Send, or the conversation is ended (by this side, or by the peer and then this
// side). The conversation is scanned after every call: the buffer that held the text, once it is no
// longer reachable, must be zero in every byte.
func (g *gen) longText() []byte {
	n := 257 + g.r.Intn(1744)
	switch g.r.Intn(6) {
	case 0:
		n = 257 + g.r.Intn(4)
	case 1:
		n = 500 + g.r.Intn(30)
	}
	b := make([]byte, n)
	for i := range b {
		b[i] = byte('a' + g.r.Intn(26))
		if g.r.Intn(7) == 0 {
			b[i] = ' '
		}
	}
	b[0], b[n-1] = 'T', '.'
	return b
}

func (g *gen) longTextErased(w *world) {
	w.parties = map[string]*party{}
	w.dead = false
	version := 2 + g.r.Intn(2)
	pol := 2
	if version == 3 {
		pol = 4
	}
	a := w.newParty(partyCfg{policies: pol, keyIdx: 0, errh: true})
	b := w.newParty(partyCfg{policies: pol, keyIdx: 1, errh: true})
	l := &link{w: w, a: a, b: b}
	sa, sb := &memSide{p: a}, &memSide{p: b}
	side := func(p *party) *memSide {
		if p == a {
			return sa
		}
		return sb
	}
	ctx := fmt.Sprintf("OTRv%d, long texts", version)
	after := func(p *party, what string) { g.memCheck(w, side(p), ctx+"; "+what) }
	settle := func() {
		for i := 0; i < 60 && (len(l.qab) > 0 || len(l.qba) > 0) && !w.dead; i++ {
			for _, toB := range []bool{true, false} {
				q, p := &l.qab, b
				if !toB {
					q, p = &l.qba, a
				}
				if len(*q) == 0 {
					continue
				}
				m := (*q)[0]
				*q = (*q)[1:]
				_, ts, _, _ := w.recv(p, m)
				l.enqueue(p, ts)
				after(p, "after Receive")
			}
		}
	}
	step := 0
	say := func(p *party, text []byte) {
		step++
		side(p).needles = append(side(p).needles, needle{text, "text", step})
		ts, _ := w.send(p, text)
		l.enqueue(p, ts)
		after(p, "after Send")
	}
	l.enqueue(a, []otr3.ValidMessage{w.query(a)})
	settle()
	if w.dead || !a.c.IsEncrypted() || !b.c.IsEncrypted() {
		return
	}
	g.dist["mem:long-texts"]++
	ps := []*party{a, b}
	// sent, then replaced by the next Send (a long or a short one)
	for i, rounds := 0, 2+g.r.Intn(2); i < rounds && !w.dead; i++ {
		p := ps[g.r.Intn(2)]
		ctx = fmt.Sprintf("OTRv%d, long texts: round %d, %s sends a long text and then another text", version, i+1, p.id)
		say(p, g.longText())
		if g.r.Intn(2) == 0 {
			settle()
		}
		if g.r.Intn(2) == 0 {
			say(p, g.longText())
		} else {
			say(p, g.cleanText())
		}
		settle()
	}
	// sent, then the conversation ends
	p, o := a, b
	if g.r.Intn(2) == 0 {
		p, o = b, a
	}
	peerFirst := g.r.Intn(3) == 0
	ctx = fmt.Sprintf("OTRv%d, long texts: %s sends a long text, then the conversation is ended (by the peer first: %v)", version, p.id, peerFirst)
	say(p, g.longText())
	if g.r.Intn(2) == 0 || peerFirst {
		settle()
	}
	if peerFirst {
		ts, _ := w.end(o)
		l.enqueue(o, ts)
		after(o, "after End")
		settle()
	}
	ts, _ := w.end(p)
	l.enqueue(p, ts)
	after(p, "after End")
	settle()
	after(a, "after End (at rest)")
	after(b, "after End (at rest)")
}

func init() {
	profiles["mem"] = func(seed int64, n int, out *emitter, extra map[string]interface{}) map[string]int {
		g := &gen{r: rand.New(rand.NewSource(seed)), out: out, dist: map[string]int{}}
		olog = &oracleLog{checked: map[string]int{}, out: out}
		w := newWorld(g)
		for i := 0; i < n; i++ {
			g.memScenario(w, 40+g.r.Intn(60))
			if i%4 == 0 {
				g.resendRounds(w)
				g.rejectedInputRounds(w)
			}
			if i%4 == 1 {
				g.repeatedRekeying(w)
			}
			if i%2 == 0 {
				g.closedSessionText(w)
			}
		}
		// after everything else (the scenarios above keep their random choices): a key exchange in
		// which the randomness source fails at one of the last reads, swept over the reads of the call
		for i := 0; i < (n+9)/10; i++ {
			for _, sigSide := range []bool{true, false} {
				for k := 0; k < 4; k++ {
					if k >= g.lastDrawFails(w, sigSide, k) {
						break // the call makes no more than k reads: every index has been covered
					}
				}
			}
		}
		// long texts (again after everything else)
		for i := 0; i < (n+4)/5; i++ {
			g.longTextErased(w)
		}
		// refused user calls (again after everything else)
		for i := 0; i < (n+2)/3; i++ {
			g.refusedCallRounds(w)
		}
		extra["panics"] = panicCount
		olog.export(extra)
		return g.dist
	}
}
