package main

// Profile "sched": two honest parties in an established session over two FIFO queues,
// random (and, for small depths, exhaustive) interleavings of sends and deliveries with
// fragmentation, heartbeats (clock jumps), SMP and extra-key traffic in between.
// Oracles: C04 (exactly-once in-order delivery), C05 (replayed data messages are never
// accepted again), C09 (MAC key disclosure), C19 (bounded retained state / message size).

import (
	"bytes"
	"crypto/hmac"
	"crypto/sha1"
	"fmt"
	"math/rand"
	"strings"

	otr3 "github.com/coyim/otr3"
)

type viol struct {
	Prop string `json:"prop"`
	Key  string `json:"key"`
	Desc string `json:"desc"`
	Op   int    `json:"op"` // index of the op (line in the .ops file) at which it was observed
}

type oracleLog struct {
	violations []viol
	checked    map[string]int
	out        *emitter
	perKey     map[string]int
}

func (o *oracleLog) viol(prop, key, desc string) {
	// at most 5 entries per (property, key): a frequent (for instance known) finding must never crowd
	// out a different one
	if o.perKey == nil {
		o.perKey = map[string]int{}
	}
	o.perKey[prop+"|"+key]++
	if o.perKey[prop+"|"+key] <= 5 && len(o.violations) < 400 {
		o.violations = append(o.violations, viol{prop, key, desc, o.out.n})
	}
}
func (o *oracleLog) ok(prop string) { o.checked[prop]++ }

func (o *oracleLog) export(extra map[string]interface{}) {
	if o.violations == nil {
		o.violations = []viol{}
	}
	extra["violations"] = o.violations
	extra["oracle_checked"] = o.checked
}

var olog *oracleLog

func isDataWire(m []byte) bool {
	return bytes.HasPrefix(m, []byte("?OTR:AAMD")) || bytes.HasPrefix(m, []byte("?OTR:AAID"))
}

func flagStr(wire []byte) string {
	if f, ok := otr3.VerifDataFlag(wire); ok {
		return fmt.Sprintf("%#02x", f)
	}
	return "?"
}

// reassemble the wire messages of one Send/Receive result into whole encoded messages
// (fragments are "<prefix>,<ix>,<total>,<data>," for both header formats)
func reassembleAll(ms []otr3.ValidMessage) [][]byte {
	var out [][]byte
	var cur []byte
	for _, m := range ms {
		s := string(m)
		if strings.HasPrefix(s, "?OTR|") || strings.HasPrefix(s, "?OTR,") {
			parts := strings.Split(s, ",")
			if len(parts) == 5 {
				cur = append(cur, []byte(parts[3])...)
				if parts[1] == parts[2] {
					out = append(out, cur)
					cur = nil
				}
			}
			continue
		}
		out = append(out, []byte(m))
	}
	return out
}

type schedSide struct {
	p               *party
	expect          [][]byte          // texts the peer sent, not yet delivered here (in order)
	acceptedKeys    map[string]string // MAC keys (hex) under which this side accepted a message -> pair "o:t"
	pendingDisclose map[string]string // accepted keys whose pair has been retired and that must be in the next outgoing data message -> what was accepted under them
	disclosed       map[string]bool
	seenWire        [][]byte // whole data messages delivered to this side (for replay)
	// accepted keys whose pairs went away when this side ended the conversation itself: nothing says in
	// which data message they have to appear, only that a later one discloses them (-> what was accepted)
	owed      map[string]string
	owedAtEnd int
	dataSince int // data messages emitted since the keys in owed became owed
}

type schedLink struct {
	*link
	sa, sb *schedSide
	g      *gen
	// the scenario makes one side draw a degenerate DH key: the secrets (and MAC keys) of different key
	// pairs coincide then, which the C09 bookkeeping (keys identified by their value) cannot tell apart
	keysMayCoincide bool
}

func (sl *schedLink) side(p *party) *schedSide {
	if p == sl.a {
		return sl.sa
	}
	return sl.sb
}
func (sl *schedLink) peer(p *party) *party {
	if p == sl.a {
		return sl.b
	}
	return sl.a
}

// C09 / C19 checks on everything a party emits
func (sl *schedLink) inspectOutgoing(p *party, ms []otr3.ValidMessage) {
	if sl.keysMayCoincide {
		return
	}
	s := sl.side(p)
	win := otr3.VerifMACKeys(p.c)
	for _, whole := range reassembleAll(ms) {
		if !isDataWire(whole) {
			continue
		}
		old, ok := otr3.VerifOldMACKeys(whole)
		if !ok {
			continue
		}
		olog.ok("C09")
		olog.ok("C19")
		if len(old) > 8 {
			olog.viol("C19", "reveal-field-grows", fmt.Sprintf("%s emitted a data message revealing %d MAC keys", p.id, len(old)))
		}
		got := map[string]bool{}
		for _, k := range old {
			h := fmt.Sprintf("%x", k)
			got[h] = true
			for pair, wk := range win {
				if bytes.Equal(wk, k) {
					olog.viol("C09", "disclosed-live-key", fmt.Sprintf("%s disclosed the receiving MAC key of pair %s which is still in its window", p.id, pair))
				}
			}
			s.disclosed[h] = true
			delete(s.owed, h)
		}
		s.dataSince++
		for h, what := range s.pendingDisclose {
			if !got[h] && !s.disclosed[h] {
				olog.viol("C09", "used-key-not-disclosed", fmt.Sprintf("%s retired a MAC key it had accepted a message under but the next data message does not disclose it: receiving MAC key of key pair %s", p.id, what))
			}
			delete(s.pendingDisclose, h)
		}
	}
	snap := otr3.VerifSnapshot(p.c)
	if len(snap.Counters) > 6 || len(snap.MacHistory) > 6 || snap.OldMACKeys > 8 || len(snap.Resend) > 1 && snap.MsgState == 1 || snap.Injections > 4 {
		olog.viol("C19", "state-grows", fmt.Sprintf("%s retains counters=%d macHistory=%d oldMACKeys=%d resend=%d injections=%d",
			p.id, len(snap.Counters), len(snap.MacHistory), snap.OldMACKeys, len(snap.Resend), snap.Injections))
	}
}

// p has ended the conversation itself: every key it accepted a message under and has not disclosed yet
// is retired now (no message is accepted any more); End leaves them with the conversation so that a
// later session discloses them
func (sl *schedLink) oweAll(p *party) {
	s := sl.side(p)
	if s.owed == nil {
		s.owed = map[string]string{}
	}
	for h, pair := range s.acceptedKeys {
		if !s.disclosed[h] {
			s.owed[h] = pair
		}
		delete(s.acceptedKeys, h)
	}
	for h, pair := range s.pendingDisclose { // (retired, no data message since)
		if !s.disclosed[h] {
			s.owed[h] = pair
		}
		delete(s.pendingDisclose, h)
	}
	s.dataSince = 0
	s.owedAtEnd = len(s.owed)
}

// after any call on p: which accepted keys have left the window?
func (sl *schedLink) noteRetired(p *party) {
	s := sl.side(p)
	win := otr3.VerifMACKeys(p.c)
	live := map[string]bool{}
	for _, k := range win {
		live[fmt.Sprintf("%x", k)] = true
	}
	for h := range s.acceptedKeys {
		if !live[h] {
			s.pendingDisclose[h] = s.acceptedKeys[h]
			delete(s.acceptedKeys, h)
		}
	}
}

func (sl *schedLink) sendText(p *party, text []byte) {
	ts, err := sl.w.send(p, text)
	if err == nil {
		sl.side(sl.peer(p)).expect = append(sl.side(sl.peer(p)).expect, text)
	}
	sl.inspectOutgoing(p, ts)
	sl.enqueue(p, ts)
}

// a text together with arbitrary TLVs in one data message flagged IGNORE_UNREADABLE (the hook
// otr3.VerifSendTLVs, op "sendtlvs" with the text): the text counts as sent like any other
func (sl *schedLink) sendTextTLVs(p *party, text []byte, types []uint16, values [][]byte) {
	w := sl.w
	var ts []otr3.ValidMessage
	var err error
	w.sync(p)
	res := guard(func() string {
		ts, err = otr3.VerifSendTLVs(p.c, text, types, values)
		return fmt.Sprintf("send=%s err=%s", msgsStr(ts), otr3.VerifErrClass(err))
	})
	if res != "PANIC" {
		res += " ev=" + p.drainEvents() + " " + otr3.VerifSnapString(p.c)
	} else {
		p.events = nil
		w.dead = true
	}
	var args []string
	for i := range types {
		args = append(args, fmt.Sprintf("%d %s", types[i], hx(values[i])))
	}
	w.g.out.emit(fmt.Sprintf("sendtlvs %s %s %s%s", p.id, hx(text), strings.Join(args, " "), p.tail()), res)
	w.g.dist["op:sendtlvs"]++
	if w.dead {
		return
	}
	if err == nil && len(text) > 0 {
		sl.side(sl.peer(p)).expect = append(sl.side(sl.peer(p)).expect, text)
	}
	sl.inspectOutgoing(p, ts)
	sl.enqueue(p, ts)
}

func (sl *schedLink) deliverOne(toB bool) bool {
	q := &sl.qab
	p := sl.b
	if !toB {
		q = &sl.qba
		p = sl.a
	}
	if len(*q) == 0 {
		return false
	}
	m := (*q)[0]
	*q = (*q)[1:]
	s := sl.side(p)
	before := otr3.VerifMACKeys(p.c)
	plain, ts, err, _ := sl.w.recv(p, m)
	olog.ok("C04")
	if plain != nil {
		if len(s.expect) == 0 {
			olog.viol("C04", "unexpected-plaintext", fmt.Sprintf("%s received %q which the peer never sent (or twice)", p.id, plain))
		} else if !bytes.Equal(s.expect[0], plain) {
			olog.viol("C04", "wrong-or-reordered", fmt.Sprintf("%s received %q, expected %q", p.id, plain, s.expect[0]))
			// resynchronise
			for i, e := range s.expect {
				if bytes.Equal(e, plain) {
					s.expect = s.expect[i+1:]
					break
				}
			}
		} else {
			s.expect = s.expect[1:]
		}
	}
	if err != nil {
		olog.viol("C04", "genuine-message-rejected", fmt.Sprintf("%s rejected a genuine in-order message: %v", p.id, err))
	}
	// which key was this accepted under?
	if isDataWire(m) && err == nil {
		if sk, rk, _, ok := otr3.VerifDataIDs(m); ok {
			if k, ok := before[fmt.Sprintf("%d:%d", rk, sk)]; ok {
				s.acceptedKeys[fmt.Sprintf("%x", k)] = fmt.Sprintf("%d:%d", rk, sk)
			}
		}
		s.seenWire = append(s.seenWire, m)
	}
	sl.noteRetired(p)
	sl.inspectOutgoing(p, ts)
	sl.enqueue(p, ts)
	return true
}

// C05: deliver an already seen whole data message again
func (sl *schedLink) replay(p *party) {
	s := sl.side(p)
	if len(s.seenWire) == 0 {
		return
	}
	m := s.seenWire[sl.g.r.Intn(len(s.seenWire))]
	plain, ts, _, _ := sl.w.recv(p, m)
	olog.ok("C05")
	if plain != nil {
		olog.viol("C05", "replay-delivered", fmt.Sprintf("%s delivered a replayed data message again: %q", p.id, plain))
	}
	for _, t := range ts {
		if isDataWire(t) || bytes.HasPrefix(t, []byte("?OTR|")) || bytes.HasPrefix(t, []byte("?OTR,")) {
			olog.viol("C05", "replay-answered", fmt.Sprintf("%s answered a replayed data message with a data message", p.id))
		}
	}
	sl.enqueue(p, nil)
	// an error reply ("?OTR Error:") may be produced; it is delivered like any other message
	for _, t := range ts {
		if bytes.HasPrefix(t, []byte("?OTR Error:")) {
			// drop it: the peer's policy might restart the AKE, which is outside this profile
			continue
		}
	}
}

// C05: everything p has accepted lately, delivered once more right away (the moment after a rotation
// is when counters are forgotten)
func (sl *schedLink) replayLast(p *party, k int) {
	s := sl.side(p)
	for i := len(s.seenWire) - 1; i >= 0 && i >= len(s.seenWire)-k && !sl.w.dead; i-- {
		plain, ts, _, _ := sl.w.recv(p, s.seenWire[i])
		olog.ok("C05")
		if plain != nil {
			olog.viol("C05", "replay-delivered", fmt.Sprintf("%s delivered a data message again that was replayed straight after it (and %d others) had been accepted: %q", p.id, len(s.seenWire)-1-i, plain))
		}
		for _, t := range ts {
			if isDataWire(t) {
				olog.viol("C05", "replay-answered", fmt.Sprintf("%s answered a replayed data message with a data message", p.id))
			}
		}
	}
}

func (sl *schedLink) drain() {
	for i := 0; i < 200000 && (len(sl.qab) > 0 || len(sl.qba) > 0); i++ {
		if !sl.deliverOne(true) {
			sl.deliverOne(false)
		} else {
			sl.deliverOne(false)
		}
	}
}

func newSchedLink(w *world, g *gen, version int, fragA, fragB int) *schedLink {
	pol := 2
	if version == 3 {
		pol = 4
	}
	a := w.newParty(partyCfg{policies: pol, keyIdx: 0, fragSize: fragA, errh: true})
	b := w.newParty(partyCfg{policies: pol, keyIdx: 1, fragSize: fragB, errh: true})
	mk := func(p *party) *schedSide {
		return &schedSide{p: p, acceptedKeys: map[string]string{}, pendingDisclose: map[string]string{}, disclosed: map[string]bool{}}
	}
	sl := &schedLink{link: &link{w: w, a: a, b: b}, sa: mk(a), sb: mk(b), g: g}
	sl.enqueue(a, []otr3.ValidMessage{w.query(a)})
	sl.settle(2000)
	return sl
}

func (g *gen) cleanText() []byte {
	n := 8 + g.r.Intn(24)
	if g.r.Intn(10) == 0 {
		n = 300 + g.r.Intn(500)
	}
	b := make([]byte, n)
	for i := range b {
		b[i] = byte('!' + g.r.Intn(90))
	}
	// never look like OTR at the start ...
	if b[0] == '?' {
		b[0] = 'x'
	}
	// ... but anything may occur inside a text, for instance what the debugging aid of the library
	// reacts to when it is switched on
	if g.r.Intn(12) == 0 && n > 12 {
		copy(b[4+g.r.Intn(n-10):], "?OTR!")
	}
	return b
}

func (g *gen) schedScenario(w *world, steps int) {
	version := 2 + g.r.Intn(2)
	frag := func() int {
		if g.r.Intn(3) == 0 {
			return []int{60, 90, 150, 400}[g.r.Intn(4)]
		}
		return 0
	}
	sl := newSchedLink(w, g, version, frag(), frag())
	if !sl.a.c.IsEncrypted() || !sl.b.c.IsEncrypted() {
		olog.viol("C07", "plain-ake-failed", "a plain query-started key exchange between two honest parties did not complete")
		return
	}
	ps := []*party{sl.a, sl.b}
	oneDirectional := g.r.Intn(5) == 0
	for i := 0; i < steps && !w.dead; i++ {
		p := ps[g.r.Intn(2)]
		if oneDirectional {
			p = sl.a
		}
		switch k := g.r.Intn(30); {
		case k < 11:
			sl.sendText(p, g.cleanText())
		case k < 22:
			sl.deliverOne(g.r.Intn(2) == 0)
		case k < 24:
			w.tick([]int{45, 45, 75, 120}[g.r.Intn(4)])
		case k < 26:
			sl.replay(p)
		case k < 27:
			_, ts, _ := w.extraKey(p, g.r.Uint32(), g.blob())
			sl.inspectOutgoing(p, ts)
			sl.enqueue(p, ts)
		case k < 28:
			ts, _ := w.smpStart(p, "", []byte("s3cret"))
			sl.inspectOutgoing(p, ts)
			sl.enqueue(p, ts)
		case k < 29:
			ts, _ := w.smpSecret(p, []byte("s3cret"))
			sl.inspectOutgoing(p, ts)
			sl.enqueue(p, ts)
		default:
			sl.drain()
		}
	}
	sl.drain()
	for _, s := range []*schedSide{sl.sa, sl.sb} {
		if len(s.expect) > 0 && !w.dead {
			olog.viol("C04", "lost", fmt.Sprintf("%s never received %d text(s) the peer sent, first %q", s.p.id, len(s.expect), s.expect[0]))
		}
	}
	w.info(sl.a)
	w.info(sl.b)
}

// exhaustive interleavings of {sendA, sendB, deliverAB, deliverBA} up to a depth, bounded in-flight
func (g *gen) schedExhaustive(w *world, depth, maxInFlight int, budget *int) {
	var rec func(prefix []int)
	run := func(seq []int) {
		w.parties = map[string]*party{}
		w.dead = false
		sl := newSchedLink(w, g, 3, 0, 0)
		n := 0
		for _, s := range seq {
			switch s {
			case 0:
				n++
				sl.sendText(sl.a, []byte(fmt.Sprintf("a-message-%d", n)))
			case 1:
				n++
				sl.sendText(sl.b, []byte(fmt.Sprintf("b-message-%d", n)))
			case 2:
				sl.deliverOne(true)
			case 3:
				sl.deliverOne(false)
			}
		}
		sl.drain()
		for _, s := range []*schedSide{sl.sa, sl.sb} {
			if len(s.expect) > 0 {
				olog.viol("C04", "lost", fmt.Sprintf("schedule %v: %s never received %d text(s)", seq, s.p.id, len(s.expect)))
			}
		}
	}
	rec = func(prefix []int) {
		if *budget <= 0 {
			return
		}
		if len(prefix) == depth {
			*budget--
			run(prefix)
			return
		}
		// abstract in-flight counts to prune impossible deliveries
		ab, ba := 0, 0
		for _, s := range prefix {
			switch s {
			case 0:
				ab++
			case 1:
				ba++
			case 2:
				if ab > 0 {
					ab--
				}
			case 3:
				if ba > 0 {
					ba--
				}
			}
		}
		for s := 0; s < 4; s++ {
			if s == 0 && ab >= maxInFlight || s == 1 && ba >= maxInFlight || s == 2 && ab == 0 || s == 3 && ba == 0 {
				continue
			}
			rec(append(append([]int{}, prefix...), s))
		}
	}
	rec(nil)
}


// C05 with loss and reordering inside a burst: of several messages sent under one key pair only a
// later one arrives (or a later one overtakes); neither it nor anything older is accepted afterwards
func (g *gen) lossyBurst(w *world) {
	w.parties = map[string]*party{}
	w.dead = false
	version := 2 + g.r.Intn(2)
	pol := 2
	if version == 3 {
		pol = 4
	}
	a := w.newParty(partyCfg{policies: pol, keyIdx: 0, errh: true})
	b := w.newParty(partyCfg{policies: pol, keyIdx: 1, errh: true})
	l := &link{w: w, a: a, b: b}
	l.enqueue(a, []otr3.ValidMessage{w.query(a)})
	l.settle(40)
	// a little ordinary traffic first so that the ratchets are somewhere
	for i := 0; i < g.r.Intn(4) && !w.dead; i++ {
		p := []*party{a, b}[g.r.Intn(2)]
		ts, _ := w.send(p, g.cleanText())
		l.enqueue(p, ts)
		l.settle(10)
	}
	if !a.c.IsEncrypted() || !b.c.IsEncrypted() || w.dead {
		return
	}
	n := 3 + g.r.Intn(3)
	var burst [][]byte
	var texts [][]byte
	for i := 0; i < n; i++ {
		t := g.cleanText()
		ts, _ := w.send(a, t)
		if len(ts) != 1 {
			return
		}
		burst = append(burst, ts[0])
		texts = append(texts, t)
	}
	k := 1 + g.r.Intn(n-1) // the message that gets through first
	plain, ts, _, _ := w.recv(b, burst[k])
	l.enqueue(b, ts)
	olog.ok("C05")
	if !bytes.Equal(plain, texts[k]) {
		return // (not accepted: nothing to replay)
	}
	for rep := 0; rep < n && !w.dead; rep++ {
		for j := 0; j <= k; j++ { // the accepted one again, and everything older
			p, back, _, _ := w.recv(b, burst[j])
			answered := false
			for _, m := range back { // an OTR error reply is the only thing a rejected message may cause
				if !isErrorReply(m) {
					answered = true
				}
			}
			if p != nil || answered {
				olog.viol("C05", "replay-delivered", fmt.Sprintf("OTRv%d: of a burst of %d messages number %d arrived first; afterwards number %d was delivered (repetition %d): %q", version, n, k+1, j+1, rep+1, p))
				return
			}
		}
	}
	// the newer ones are still fine, once
	for j := k + 1; j < n && !w.dead; j++ {
		p, back, _, _ := w.recv(b, burst[j])
		l.enqueue(b, back)
		olog.ok("C04")
		if !bytes.Equal(p, texts[j]) {
			olog.viol("C04", "genuine-message-rejected", fmt.Sprintf("OTRv%d: message %d of a burst was not delivered after message %d had overtaken it", version, j+1, k+1))
		}
	}
}


// C05 at the top of the counter range: the peer's data message carries the greatest counter there is,
// 0xFFFFFFFFFFFFFFFF (legal: any 8 byte value greater than the last one; this library's own sender
// counts 1, 2, 3 ... so the message is built here from a genuine one that is lost on the way: same
// key ids, next key, flags and plaintext, the counter replaced, enciphered with the sender's own AES
// key - hook VerifOpenData on the SENDER's conversation - and authenticated with the MAC key of the
// pair). Once it has been accepted, neither it nor any earlier message of the pair is accepted again,
// however often and in whatever order they are delivered.
func (g *gen) maxCounterReplay(w *world) {
	w.parties = map[string]*party{}
	w.dead = false
	version := 2 + g.r.Intn(2)
	pol := 2
	if version == 3 {
		pol = 4
	}
	a := w.newParty(partyCfg{policies: pol, keyIdx: 0, errh: true})
	b := w.newParty(partyCfg{policies: pol, keyIdx: 1, errh: true})
	l := &link{w: w, a: a, b: b}
	l.enqueue(a, []otr3.ValidMessage{w.query(a)})
	l.settle(40)
	for i := 0; i < g.r.Intn(3) && !w.dead; i++ { // the ratchets are somewhere
		p := []*party{a, b}[g.r.Intn(2)]
		ts, _ := w.send(p, g.cleanText())
		l.enqueue(p, ts)
		l.settle(10)
	}
	if !a.c.IsEncrypted() || !b.c.IsEncrypted() || w.dead {
		return
	}
	S, R := a, b
	if g.r.Intn(2) == 0 {
		S, R = b, a
	}
	// earlier messages of the pair, delivered in order
	var wires, texts [][]byte
	for i := 0; i < 1+g.r.Intn(3) && !w.dead; i++ {
		t := g.cleanText()
		ts, _ := w.send(S, t)
		if len(ts) != 1 || !isDataWire(ts[0]) {
			g.dist["sched:max-counter-no-message"]++
			return
		}
		plain, back, _, _ := w.recv(R, ts[0])
		l.enqueue(R, nil)
		_ = back // (whatever the addressee answers - a heartbeat, say - is lost: the sender's pair stays)
		if !bytes.Equal(plain, t) {
			g.dist["sched:max-counter-earlier-not-delivered"]++
			return
		}
		wires = append(wires, ts[0])
		texts = append(texts, t)
	}
	if w.dead {
		return
	}
	// the genuine message that is lost, and its twin with the greatest counter
	last := g.cleanText()
	ts, _ := w.send(S, last)
	if len(ts) != 1 || !isDataWire(ts[0]) || w.dead {
		return
	}
	bin := decodeWire(ts[0])
	f, ok := dataFields(bin, version)
	sk, rk, ctr, ok2 := otr3.VerifDataIDs(ts[0])
	clear, ok3 := otr3.VerifOpenData(S.c, ts[0], true)
	macKey := otr3.VerifMACKeys(R.c)[fmt.Sprintf("%d:%d", rk, sk)]
	if sk0, rk0, _, k := otr3.VerifDataIDs(wires[0]); !k || sk0 != sk || rk0 != rk {
		g.dist["sched:max-counter-pair-moved"]++
		return
	}
	if !ok || !ok2 || !ok3 || macKey == nil || f.encStart < 12 || len(clear) != f.encEnd-f.encStart {
		g.dist["sched:max-counter-not-built"]++
		return
	}
	top := append([]byte{}, bin...)
	for i := f.encStart - 12; i < f.encStart-4; i++ {
		top[i] = 0xff
	}
	copy(top[f.encStart:f.encEnd], clear)
	enc, ok := otr3.VerifOpenData(S.c, encodeWire(top), true) // (counter mode: enciphering = deciphering)
	if !ok || len(enc) != len(clear) {
		g.dist["sched:max-counter-not-built"]++
		return
	}
	copy(top[f.encStart:f.encEnd], enc)
	mac := hmac.New(sha1.New, macKey)
	mac.Write(top[:f.macStart])
	copy(top[f.macStart:f.macStart+20], mac.Sum(nil))
	topWire := encodeWire(top)
	plain, back, _, _ := w.recv(R, topWire)
	l.enqueue(R, nil)
	olog.ok("C05")
	if w.dead {
		return
	}
	if !bytes.Equal(plain, last) {
		// (the addressee does not take the counter value: nothing has been accepted, nothing to replay)
		g.dist["sched:max-counter-not-accepted"]++
		return
	}
	_ = back
	wires = append(wires, topWire)
	texts = append(texts, last)
	name := func(j int) string {
		if j == len(wires)-1 {
			return fmt.Sprintf("the message with counter 0xffffffffffffffff (text %q)", texts[j])
		}
		return fmt.Sprintf("message %d of the pair (text %q)", j+1, texts[j])
	}
	n := len(wires)
	var order []int
	order = append(order, n-1)
	for j := 0; j < n; j++ {
		order = append(order, j)
	}
	for i := 0; i < 2+g.r.Intn(3); i++ {
		order = append(order, g.r.Intn(n), n-1)
	}
	for step, j := range order {
		p, back, _, _ := w.recv(R, wires[j])
		olog.ok("C05")
		if w.dead {
			return
		}
		answered := false
		for _, m := range back { // an OTR error reply is the only thing a rejected message may cause
			if !isErrorReply(m) {
				answered = true
			}
		}
		if p != nil || answered {
			olog.viol("C05", "replay-delivered", fmt.Sprintf("OTRv%d: under key pair (sender key id %d, recipient key id %d) %s accepted %d message(s) with counters 1.. (the last genuine counter sent was %d) and then an authenticated message of the same pair with the greatest counter 0xffffffffffffffff; replay number %d afterwards, %s, was delivered again: plaintext %q", version, sk, rk, R.id, n-1, ctr, step+1, name(j), p))
			break
		}
	}
	g.dist["sched:max-counter-replay"]++
}

// C09: a fixed crossing schedule in which a rotation of the peer's key (retiring a used pair) is
// followed, with no data message sent in between, by a rotation of our own key: both retirements
// must show up in the next outgoing message
func (g *gen) crossingRotations(w *world) {
	version := 2 + g.r.Intn(2)
	sl := newSchedLink(w, g, version, 0, 0)
	if !sl.a.c.IsEncrypted() || !sl.b.c.IsEncrypted() {
		return
	}
	A, B := sl.a, sl.b
	toA, toB := false, true
	t := func(p *party) { sl.sendText(p, g.cleanText()) }
	d := func(to bool) {
		sl.deliverOne(to)
		if to == toB {
			sl.replayLast(B, 3)
		} else {
			sl.replayLast(A, 3)
		}
	}
	// first messages of the two sides cross: one side's key rotates while the other's stays
	t(A)
	t(B)
	d(toA)
	t(A)
	d(toB)
	d(toB)
	t(B)
	t(A)
	d(toA)
	d(toB)
	t(A)
	t(B)
	d(toA)
	t(A)
	d(toB)
	t(B)
	d(toB)
	t(B)
	d(toA)
	d(toA)
	t(A)
	sl.drain()
	for i := 0; i < 4 && !w.dead; i++ {
		t(A)
		sl.drain()
		t(B)
		sl.drain()
	}
	for _, s := range []*schedSide{sl.sa, sl.sb} {
		if len(s.expect) > 0 && !w.dead {
			olog.viol("C04", "lost", fmt.Sprintf("OTRv%d crossing schedule: %s never received %d text(s) the peer sent, first %q", version, s.p.id, len(s.expect), s.expect[0]))
		}
	}
	g.dist["sched:crossing-rotations"]++
	g.crossingBurst(w)
}

// number of C04 oracle hits so far (whether or not they were kept in the capped list)
func c04Hits() int {
	n := 0
	for k, c := range olog.perKey {
		if strings.HasPrefix(k, "C04|") {
			n += c
		}
	}
	return n
}

// C04: in a fresh session (all traffic so far crossed pairwise, so each side holds a newest key the
// other has not seen yet) one side's message crosses the other's, which then sends a burst still under
// its old key, acknowledging the newest key of the peer: on the receiving side the sender's key
// rotates with the first of them, its own key with the second, and the rest of the burst still
// arrives under the sender's PREVIOUS key, which stays valid until the sender's key rotates again.
// Schedule sY sX dY sY sY sY dX dX dX dX (Y either side), straight after the key exchange or after
// two crossing exchanges; or, after one crossing exchange (both know the other's newest key), a plain
// burst of Y: the first message rotates X's own key, the others still use Y's previous key.
func (g *gen) crossingBurst(w *world) {
	w.parties = map[string]*party{}
	w.dead = false
	version := 2 + g.r.Intn(2)
	sl := newSchedLink(w, g, version, 0, 0)
	if !sl.a.c.IsEncrypted() || !sl.b.c.IsEncrypted() {
		return
	}
	X, Y := sl.a, sl.b
	toX, toY := false, true
	if g.r.Intn(2) == 0 {
		X, Y = Y, X
		toX, toY = toY, toX
	}
	mark := c04Hits()
	var sched []string
	var texts [][]byte
	send := func(p *party) {
		x := g.cleanText()
		texts = append(texts, x)
		sl.sendText(p, x)
		sched = append(sched, "s:"+p.id)
	}
	d := func(to bool, p *party) {
		sl.deliverOne(to)
		sl.replayLast(p, 2)
		sched = append(sched, "d:"+p.id)
	}
	cross := func() {
		send(X)
		send(Y)
		d(toY, Y)
		d(toX, X)
	}
	n := 3 + g.r.Intn(3)
	variant := g.r.Intn(3)
	switch variant {
	case 0, 2:
		for i := 0; i < variant; i++ {
			cross()
		}
		send(Y)
		send(X)
		d(toY, Y)
		for i := 0; i < n; i++ {
			send(Y)
		}
		for i := 0; i < n+1 && !w.dead; i++ {
			d(toX, X)
		}
	case 1:
		cross()
		for i := 0; i < n; i++ {
			send(Y)
		}
		for i := 0; i < n && !w.dead; i++ {
			d(toX, X)
		}
	}
	sl.drain()
	for i := 0; i < 2 && !w.dead; i++ {
		sl.sendText(X, g.cleanText())
		sl.drain()
		sl.sendText(Y, g.cleanText())
		sl.drain()
	}
	for _, s := range []*schedSide{sl.sa, sl.sb} {
		if len(s.expect) > 0 && !w.dead {
			olog.viol("C04", "lost", fmt.Sprintf("OTRv%d crossing burst: %s never received %d text(s) the peer sent, first %q", version, s.p.id, len(s.expect), s.expect[0]))
		}
	}
	if c04Hits() > mark {
		var ts []string
		for _, x := range texts {
			ts = append(ts, fmt.Sprintf("%q", x))
		}
		olog.viol("C04", "crossing-burst-lost", fmt.Sprintf("OTRv%d, fresh session, schedule (s:p = p sends the next text, d:p = p receives the oldest message in flight, each delivery followed by replays of accepted messages) %s with texts %s, then two rounds of ping-pong: not every text arrived exactly once, in order (%d oracle hits; %s received %d texts, %s received %d)", version, strings.Join(sched, " "), strings.Join(ts, ","), c04Hits()-mark, X.id, len(X.received), Y.id, len(Y.received)))
	}
	g.dist[fmt.Sprintf("sched:crossing-burst:%d", variant)]++
}


// C02: forgery from disclosed MAC keys. A genuine message is held back; every MAC key the addressee
// discloses in the meantime is used to authenticate an altered copy of it; none may be accepted, and
// the genuine one still is.
func (g *gen) forgeryFromDisclosedKeys(w *world) {
	w.parties = map[string]*party{}
	w.dead = false
	version := 2 + g.r.Intn(2)
	pol := 2
	if version == 3 {
		pol = 4
	}
	a := w.newParty(partyCfg{policies: pol, keyIdx: 0, errh: true})
	b := w.newParty(partyCfg{policies: pol, keyIdx: 1, errh: true})
	l := &link{w: w, a: a, b: b}
	starter := []*party{a, b}[g.r.Intn(2)]
	l.enqueue(starter, []otr3.ValidMessage{w.query(starter)})
	l.settle(40)
	if !a.c.IsEncrypted() || !b.c.IsEncrypted() || w.dead {
		return
	}
	var fromA [][]byte // everything a has put on the wire (the attacker reads it)
	sendA := func() {
		ts, _ := w.send(a, g.cleanText())
		for _, m := range ts {
			fromA = append(fromA, m)
		}
		l.enqueue(a, ts)
	}
	for i := 0; i < g.r.Intn(3); i++ { // the ratchets are somewhere
		sendA()
		l.settle(6)
		ts, _ := w.send(b, g.cleanText())
		l.enqueue(b, ts)
		l.settle(6)
	}
	sendA()
	l.settle(6)
	ts, _ := w.send(b, g.cleanText())
	l.enqueue(b, ts)
	l.settle(6)
	heldText := []byte("pay 100 to carol")
	held, _ := w.send(b, heldText) // not delivered yet
	if len(held) != 1 || w.dead {
		return
	}
	for i := 0; i < 1+g.r.Intn(2); i++ {
		sendA()
		l.settle(6)
	}
	bin := decodeWire(held[0])
	f, ok := dataFields(bin, version)
	if !ok || f.encEnd-f.encStart < 5 {
		return
	}
	tried := 0
	for _, m := range fromA {
		fm, ok := dataFields(decodeWire(m), version)
		if !ok || !isDataWire(m) {
			continue
		}
		for i := 0; i+20 <= len(fm.old); i += 20 {
			forged := append([]byte{}, bin...)
			forged[f.encStart+4] ^= '1' ^ '9' // "pay 100" -> "pay 900"
			mac := hmac.New(sha1.New, fm.old[i:i+20])
			mac.Write(forged[:f.macStart])
			copy(forged[f.macStart:f.macStart+20], mac.Sum(nil))
			tried++
			olog.ok("C02")
			plain, _, _, _ := w.recv(a, encodeWire(forged))
			if plain != nil {
				olog.viol("C02", "forged-with-disclosed-key-delivered", fmt.Sprintf("OTRv%d: %s accepted %q, a message its peer never sent: the held-back %q altered and authenticated with a MAC key %s had disclosed itself", version, a.id, plain, heldText, a.id))
				return
			}
		}
	}
	g.dist[fmt.Sprintf("sched:forgeries-tried:%d", tried)]++
	plain, _, _, _ := w.recv(a, held[0])
	if !bytes.Equal(plain, heldText) {
		olog.viol("C04", "genuine-message-rejected", fmt.Sprintf("OTRv%d: the genuine held-back message was not delivered after %d rejected forgeries", version, tried))
	}
}


// C04 / C17: payloads that do not fit the 16 bit length field of a TLV (extra key usage data, SMP
// question) must be refused by the call; they must never go out with a wrapped length, after which
// the peer reads the rest of the value as further TLVs (a disconnect, say)
func (g *gen) oversizedPayloads(w *world, which int) {
	w.parties = map[string]*party{}
	w.dead = false
	version := 2 + g.r.Intn(2)
	pol := 2
	if version == 3 {
		pol = 4
	}
	a := w.newParty(partyCfg{policies: pol, keyIdx: 0, errh: true})
	b := w.newParty(partyCfg{policies: pol, keyIdx: 1, errh: true})
	l := &link{w: w, a: a, b: b}
	l.enqueue(a, []otr3.ValidMessage{w.query(a)})
	l.settle(40)
	if !a.c.IsEncrypted() || !b.c.IsEncrypted() || w.dead {
		return
	}
	if which == 0 {
		// every length around the boundary: up to 65531 bytes fit next to the 4 byte usage word
		// and below it: together with the padding TLV that follows (251 bytes after an empty text) the
		// TLV section reaches 64 KiB from 65277 bytes of usage data on; whatever the call accepts must
		// arrive: the peer's ReceivedKeyHandler is called once, with the same usage, data and key
		lens := []int{65531, 65532, 65533, 65535, 65536, 65532 + g.r.Intn(40),
			65277, 65270 + g.r.Intn(14), 65284 + g.r.Intn(240), 65400, 65524 + g.r.Intn(8)}
		for _, n := range lens {
			data := make([]byte, n)
			if n > 65531 {
				copy(data[(4+len(data))%65536:], []byte{0, 1, 0, 0}) // what follows the wrapped length: a disconnect TLV
			} else {
				for i := 0; i < 16; i++ {
					data[g.r.Intn(n)] = byte(g.r.Intn(256))
				}
			}
			usage := uint32(1)
			if n <= 65531 {
				usage = g.r.Uint32()
			}
			key, ts, err := w.extraKey(a, usage, data)
			if n <= 65531 && (err != nil || len(ts) == 0) {
				olog.viol("C17", "legal-usage-data-refused", fmt.Sprintf("UseExtraSymmetricKey with %d bytes of usage data (fits a TLV) failed: %v", n, err))
			}
			accepted := err == nil && len(ts) > 0
			want := fmt.Sprintf("key:%d:%s:%x", usage, hx(data), key)
			calls, exact := 0, 0
			for _, m := range ts {
				_, back, _, _ := w.recv(b, m)
				for _, e := range strings.Split(strings.Trim(lastEvents, "[]"), ",") {
					if strings.HasPrefix(e, "key:") {
						calls++
						if e == want {
							exact++
						}
					}
				}
				l.enqueue(b, back)
			}
			l.settle(10)
			if w.dead {
				break
			}
			olog.ok("C17")
			if accepted && calls == 0 {
				olog.viol("C17", "extra-key-tlv-lost", fmt.Sprintf("OTRv%d: UseExtraSymmetricKey(usage %#x, %d bytes of usage data) was accepted by the sender (%d message(s), no error) but the peer's ReceivedKeyHandler was never called: the TLV (length field %d) did not survive the round trip", version, usage, n, len(ts), n+4))
			} else if accepted && (calls != 1 || exact != 1) {
				olog.viol("C17", "extra-key-tlv-altered", fmt.Sprintf("OTRv%d: UseExtraSymmetricKey(usage %#x, %d bytes of usage data) accepted by the sender; the peer's ReceivedKeyHandler was called %d time(s), %d of them with the same usage, usage data and key", version, usage, n, calls, exact))
			} else if !accepted && calls != 0 {
				olog.viol("C17", "extra-key-tlv-from-refused-call", fmt.Sprintf("OTRv%d: UseExtraSymmetricKey with %d bytes of usage data was refused (%v) but the peer's ReceivedKeyHandler was called %d time(s)", version, n, err, calls))
			}
			if !b.c.IsEncrypted() {
				break
			}
		}
	} else {
		q := bytes.Repeat([]byte("q"), 64400+g.r.Intn(1500))
		ts, _ := w.smpStart(a, string(q), []byte("s"))
		l.enqueue(a, ts)
	}
	l.settle(10)
	if w.dead {
		olog.viol("C13", "receive-panics:oversized-tlv", "a call panicked around an oversized TLV payload")
		return
	}
	text := g.cleanText()
	ts, _ := w.send(a, text)
	got := false
	for _, m := range ts {
		p, back, _, _ := w.recv(b, m)
		l.enqueue(b, back)
		if bytes.Equal(p, text) {
			got = true
		}
	}
	olog.ok("C04")
	olog.ok("C17")
	if !got || !b.c.IsEncrypted() {
		what := []string{"UseExtraSymmetricKey with usage data beyond the 16 bit TLV length", "StartAuthenticate with a question beyond the 16 bit TLV length"}[which]
		olog.viol("C04", "text-lost-after-oversized-tlv", fmt.Sprintf("OTRv%d: after %s the next text is not delivered (peer encrypted: %v)", version, what, b.c.IsEncrypted()))
		olog.viol("C17", "tlv-length-wraps", fmt.Sprintf("OTRv%d: %s goes out with a length field that does not match the value; the peer reads the rest as further TLVs", version, what))
	}
}


// C09 across a key exchange inside an established session: MAC keys used (or already waiting to be
// revealed) in the session that ends are revealed in the first data message of the new one
func (g *gen) reAkeDisclosure(w *world) {
	version := 2 + g.r.Intn(2)
	sl := newSchedLink(w, g, version, 0, 0)
	if !sl.a.c.IsEncrypted() || !sl.b.c.IsEncrypted() {
		return
	}
	A, B := sl.a, sl.b
	for i := 0; i < 1+g.r.Intn(3); i++ {
		sl.sendText(B, g.cleanText())
		sl.drain()
		if g.r.Intn(2) == 0 {
			sl.sendText(A, g.cleanText())
			sl.drain()
		}
	}
	sl.sendText(B, g.cleanText())
	sl.drain() // A has accepted messages under keys it has not revealed yet
	w.tick(75)
	st := []*party{A, B}[g.r.Intn(2)]
	sl.enqueue(st, []otr3.ValidMessage{w.query(st)})
	sl.drain()
	g.dist["sched:re-ake-disclosure"]++
	sl.sendText(A, g.cleanText())
	sl.drain()
	sl.sendText(B, g.cleanText())
	sl.drain()
}

// C09 across a conversation the local side ended itself: End() keeps the MAC keys that were used (and
// those waiting) so that the next session discloses them. X accepts messages from Y, X.End(), a new key
// exchange on the same objects (query from either side, Y having ended too or not), ping-pong: every
// key X accepted a message under before End shows up in some data message X emits afterwards (the
// empty one that follows the completed exchange included).
func (g *gen) endThenReAkeDisclosure(w *world) {
	version := 2 + g.r.Intn(2)
	sl := newSchedLink(w, g, version, 0, 0)
	if !sl.a.c.IsEncrypted() || !sl.b.c.IsEncrypted() {
		return
	}
	X, Y := sl.a, sl.b
	if g.r.Intn(2) == 0 {
		X, Y = Y, X
	}
	var hist []string
	for i := 0; i < g.r.Intn(3); i++ {
		sl.sendText(Y, g.cleanText())
		sl.drain()
		hist = append(hist, "text "+Y.id+"->"+X.id)
		if g.r.Intn(2) == 0 {
			sl.sendText(X, g.cleanText())
			sl.drain()
			hist = append(hist, "text "+X.id+"->"+Y.id)
		}
	}
	last := g.cleanText()
	sl.sendText(Y, last)
	sl.drain() // X has accepted at least this one under a key it has not disclosed
	hist = append(hist, fmt.Sprintf("text %q %s->%s", last, Y.id, X.id))
	if w.dead || !X.c.IsEncrypted() || !Y.c.IsEncrypted() {
		return
	}
	ts, _ := w.end(X)
	sl.inspectOutgoing(X, ts) // (the disconnect message discloses what was already waiting)
	sl.oweAll(X)
	lost := g.r.Intn(3) == 0
	if lost {
		// the disconnect message is lost: Y still believes in the old session and replaces it in the
		// key exchange that follows (its own used keys travel the ordinary way, checked as everywhere)
		hist = append(hist, X.id+".End() (disconnect message lost)")
	} else {
		sl.enqueue(X, ts)
		sl.drain()
		hist = append(hist, X.id+".End() (disconnect delivered)")
		// Y is told that the conversation is over: the MAC keys it has used are owed from now on as well
		// (repaired library: they wait for the first data message of the next conversation)
		sl.oweAll(Y)
		if g.r.Intn(2) == 0 && !w.dead {
			ts, _ := w.end(Y)
			sl.inspectOutgoing(Y, ts)
			sl.enqueue(Y, ts)
			sl.drain()
			hist = append(hist, Y.id+".End()")
		}
	}
	if w.dead {
		return
	}
	// user calls that are refused because there is no conversation any more (AbortAuthentication,
	// StartAuthenticate, ProvideAuthenticationSecret on a side that called End or whose peer ended the
	// conversation): no message goes out, so the keys that wait to be disclosed must keep waiting
	refused := func(p *party) {
		if p.c.IsEncrypted() || w.dead {
			return
		}
		calls := []int{0}
		switch g.r.Intn(4) {
		case 0:
			calls = []int{1, 0}
		case 1:
			calls = []int{0, 2, 0}
		case 2:
			calls = []int{2, 1, 0}
		}
		for _, k := range calls {
			if w.dead {
				return
			}
			var ts []otr3.ValidMessage
			var err error
			name := ""
			switch k {
			case 0:
				ts, err = w.smpAbort(p)
				name = "AbortAuthentication()"
			case 1:
				ts, err = w.smpStart(p, "", []byte("s3cret"))
				name = "StartAuthenticate(\"\", \"s3cret\")"
			case 2:
				ts, err = w.smpSecret(p, []byte("s3cret"))
				name = "ProvideAuthenticationSecret(\"s3cret\")"
			}
			if err != nil && len(ts) == 0 {
				hist = append(hist, p.id+"."+name+" refused")
			} else {
				hist = append(hist, p.id+"."+name)
			}
			sl.inspectOutgoing(p, ts) // (nothing is expected to go out)
			sl.enqueue(p, ts)
		}
		g.dist["sched:end-re-ake-refused-calls"]++
	}
	if g.r.Intn(4) != 0 {
		if g.r.Intn(3) != 0 {
			refused(X)
		}
		if !lost && g.r.Intn(3) != 0 {
			refused(Y)
		}
		sl.drain()
	}
	if w.dead {
		return
	}
	if lost || g.r.Intn(3) == 0 {
		// (a query that reaches an encrypted conversation less than a minute after its session began is
		// not answered)
		w.tick(75)
		hist = append(hist, "61 s later")
	}
	st := []*party{X, Y}[g.r.Intn(2)]
	sl.enqueue(st, []otr3.ValidMessage{w.query(st)})
	sl.drain()
	hist = append(hist, "query from "+st.id+", key exchange")
	if w.dead || !X.c.IsEncrypted() || !Y.c.IsEncrypted() {
		g.dist["sched:end-re-ake-no-session"]++
		return
	}
	rounds := 3 + g.r.Intn(2)
	for i := 0; i < rounds && !w.dead; i++ {
		first, second := X, Y
		if g.r.Intn(2) == 0 {
			first, second = Y, X
		}
		sl.sendText(first, g.cleanText())
		sl.drain()
		sl.sendText(second, g.cleanText())
		sl.drain()
	}
	hist = append(hist, fmt.Sprintf("%d rounds of ping-pong", rounds))
	if w.dead {
		return
	}
	for _, s := range []*schedSide{sl.sa, sl.sb} {
		olog.ok("C09")
		if len(s.owed) > 0 {
			var pairs []string
			for _, pr := range s.owed {
				pairs = append(pairs, pr)
			}
			olog.viol("C09", "used-key-not-disclosed:after-end", fmt.Sprintf("OTRv%d: %s; %s had accepted messages under %d MAC key(s) not yet disclosed when the conversation ended; %d of them (receiving MAC key of key pair %s of the ended session) appear in none of the %d data messages %s has emitted since, in the new session on the same conversation", version, strings.Join(hist, ", "), s.p.id, s.owedAtEnd, len(s.owed), strings.Join(pairs, ","), s.dataSince, s.p.id))
		}
	}
	for _, s := range []*schedSide{sl.sa, sl.sb} {
		if len(s.expect) > 0 && !w.dead {
			olog.viol("C04", "lost", fmt.Sprintf("%s never received %d text(s) the peer sent, first %q", s.p.id, len(s.expect), s.expect[0]))
		}
	}
	g.dist["sched:end-re-ake-disclosure"]++
}

// C19 against an authenticated peer that is eager but conforming: it moves on to the DH key it has
// announced with every message it sends, without waiting for our acknowledgement (the receiving rules
// accept that: sender key id == their current key id rotates their key). Our side therefore sees one
// rotation of THEIR key per message while its own key stays (it answers only every 8th message, and
// the answers are lost or arrive). The peer is driven outside the trace (plain Go calls, hook
// VerifAdvanceOurDHKey); everything our side does goes through w.recv / w.send and is replayed.
// Bounds (Props.C19): at most one counter record and one used MAC key per pair of the 2x2 key window,
// and at most 3 keys join the reveal queue per accepted message; every send empties the queue (which
// legitimately holds one key per message received since our last send under this peer).
func (g *gen) eagerPeerStream(w *world) {
	version := 2 + g.r.Intn(2)
	pol := 2
	if version == 3 {
		pol = 4
	}
	A := w.newParty(partyCfg{policies: pol, keyIdx: 0, errh: true})
	B := &otr3.Conversation{}
	B.Rand = rand.New(rand.NewSource(g.r.Int63()))
	verifSetPolicies(B, pol)
	B.SetOurKeys([]otr3.PrivateKey{testKeys[1]})
	toB := []otr3.ValidMessage{w.query(A)}
	for i := 0; i < 12 && len(toB) > 0 && !w.dead; i++ {
		var toA []otr3.ValidMessage
		for _, m := range toB {
			_, ts, _ := B.Receive(m)
			toA = append(toA, ts...)
		}
		toB = nil
		for _, m := range toA {
			_, ts, _, _ := w.recv(A, m)
			toB = append(toB, ts...)
		}
	}
	if w.dead || !A.c.IsEncrypted() || !B.IsEncrypted() {
		g.dist["sched:eager-peer-no-session"]++
		return
	}
	n := 60 + g.r.Intn(30)
	every := 8
	answersLost := g.r.Intn(3) != 0
	accSince := 0 // messages accepted since our last data message
	flagged := false
	first := ""
	defer func() {
		if first != "" && !w.dead {
			snap := otr3.VerifSnapshot(A.c)
			olog.viol("C19", "state-grows", fmt.Sprintf("%s; when the stream ends (key ids our=%d their=%d) it retains counters=%d macHistory=%d oldMACKeys=%d", first, snap.OurKeyID, snap.TheirKeyID, len(snap.Counters), len(snap.MacHistory), snap.OldMACKeys))
		} else if first != "" {
			olog.viol("C19", "state-grows", first)
		}
	}()
	what := func(i int) string {
		l := "delivered"
		if answersLost {
			l = "lost on the way"
		}
		return fmt.Sprintf("OTRv%d: an authenticated peer that moves on to its announced DH key with every message (no acknowledgement awaited) streams %d texts, %s answers every %dth (answers %s); after text %d", version, n, A.id, every, l, i)
	}
	check := func(i int) {
		olog.ok("C19")
		snap := otr3.VerifSnapshot(A.c)
		if flagged {
			return
		}
		if len(snap.Counters) > 6 || len(snap.MacHistory) > 6 || snap.OldMACKeys > 3*accSince || len(snap.Resend) > 1 || snap.Injections > 4 {
			flagged = true
			first = (fmt.Sprintf("%s %s retains counters=%d macHistory=%d oldMACKeys=%d (%d message(s) accepted since its last data message) resend=%d injections=%d; key ids our=%d their=%d",
				what(i), A.id, len(snap.Counters), len(snap.MacHistory), snap.OldMACKeys, accSince, len(snap.Resend), snap.Injections, snap.OurKeyID, snap.TheirKeyID))
		}
	}
	for i := 1; i <= n && !w.dead; i++ {
		text := g.cleanText()
		ms, err := B.Send(text)
		if err != nil || len(ms) != 1 {
			g.dist["sched:eager-peer-send-failed"]++
			return
		}
		if otr3.VerifAdvanceOurDHKey(B) != nil {
			return
		}
		plain, back, _, _ := w.recv(A, ms[0])
		if w.dead {
			return
		}
		if !bytes.Equal(plain, text) {
			g.dist["sched:eager-peer-not-accepted"]++ // (nothing to say about C19 then)
			return
		}
		accSince++
		for _, m := range back {
			if isDataWire(m) {
				accSince = 0
			}
		}
		check(i)
		if i%every == 0 {
			ts, _ := w.send(A, g.cleanText())
			if w.dead {
				return
			}
			for _, m := range reassembleAll(ts) {
				if old, ok := otr3.VerifOldMACKeys(m); ok {
					olog.ok("C19")
					if len(old) > 3*accSince && !flagged {
						flagged = true
						olog.viol("C19", "reveal-field-grows", fmt.Sprintf("%s the answer of %s reveals %d MAC keys, %d message(s) accepted since its last data message", what(i), A.id, len(old), accSince))
					}
					accSince = 0
				}
			}
			check(i)
			if !answersLost {
				for _, m := range ts {
					B.Receive(m)
				}
			}
		}
	}
	g.dist["sched:eager-peer-stream"]++
}

// C19 when one party emits nothing but TLV-carrying data messages for a while (AbortAuthentication,
// StartAuthenticate, UseExtraSymmetricKey: no text, no heartbeat due) and the peer keeps answering in
// kind: the DH keys rotate with every round trip, every rotation moves used MAC keys into the reveal
// queue, and every data message a party sends - with or without TLVs - takes the queue along. Bounds
// (as in eagerPeerStream): at most 3 keys join the reveal queue per message accepted since the last data
// message the party SENT, so neither the queue nor the reveal field of any message (the closing text
// included) depends on the number of rounds.
func (g *gen) tlvOnlyRounds(w *world) {
	version := 2 + g.r.Intn(2)
	fragA := 0
	if g.r.Intn(4) == 0 {
		fragA = []int{150, 400}[g.r.Intn(2)]
	}
	sl := newSchedLink(w, g, version, fragA, 0)
	if !sl.a.c.IsEncrypted() || !sl.b.c.IsEncrypted() || w.dead {
		return
	}
	A, B := sl.a, sl.b
	if g.r.Intn(2) == 0 {
		A, B = B, A
	}
	for i := 0; i < g.r.Intn(3) && !w.dead; i++ { // the ratchets are somewhere
		sl.sendText(A, g.cleanText())
		sl.drain()
		sl.sendText(B, g.cleanText())
		sl.drain()
	}
	n := 8 + g.r.Intn(33)
	var kinds []string
	revealFlagged := false
	firstState := ""
	defer func() {
		if firstState == "" {
			return
		}
		if !w.dead {
			sa, sb := otr3.VerifSnapshot(A.c), otr3.VerifSnapshot(B.c)
			firstState += fmt.Sprintf("; when the scenario ends (%d such rounds, a text of %s, two rounds of text ping-pong) %s retains oldMACKeys=%d and %s oldMACKeys=%d", n, A.id, A.id, sa.OldMACKeys, B.id, sb.OldMACKeys)
		}
		olog.viol("C19", "state-grows", firstState)
	}()
	what := func(i int) string {
		return fmt.Sprintf("OTRv%d: established session, then %d round(s) in which %s and %s exchange nothing but TLV-carrying data messages (%s; every message delivered before the next call)", version, i, A.id, B.id, strings.Join(kinds, " "))
	}
	// data messages accepted since the party's last own data message (-1: it has not sent one in this
	// stretch yet, what it accepted before is not counted here)
	acc := map[*party]int{A: -1, B: -1}
	// one call of p whose messages are all delivered; everything the peer accepts counts
	curRound := 0
	noteData := func(p *party, ts []otr3.ValidMessage) {
		for _, m := range reassembleAll(ts) {
			old, ok := otr3.VerifOldMACKeys(m)
			if !ok || !isDataWire(m) {
				continue
			}
			olog.ok("C19")
			if acc[p] >= 0 && len(old) > 3*acc[p] && !revealFlagged {
				revealFlagged = true
				olog.viol("C19", "reveal-field-grows", fmt.Sprintf("%s; the data message %s emits next (flags %s, %d bytes encoded) reveals %d MAC keys although %s accepted only %d message(s) since the last data message it sent", what(curRound), p.id, flagStr(m), len(m), len(old), p.id, acc[p]))
			}
			acc[p] = 0
			if acc[sl.peer(p)] >= 0 {
				acc[sl.peer(p)]++
			}
		}
	}
	// deliver everything; data messages a party emits on its own while receiving count as well
	drainCounted := func() {
		for k := 0; k < 2000 && (len(sl.qab) > 0 || len(sl.qba) > 0) && !w.dead; k++ {
			for _, toB := range []bool{true, false} {
				r, outq := sl.b, &sl.qba
				if !toB {
					r, outq = sl.a, &sl.qab
				}
				n0 := len(*outq)
				if !sl.deliverOne(toB) {
					continue
				}
				var back []otr3.ValidMessage
				for _, m := range (*outq)[n0:] {
					back = append(back, otr3.ValidMessage(m))
				}
				noteData(r, back)
			}
		}
	}
	emit := func(p *party, i int, call func() []otr3.ValidMessage) {
		curRound = i
		ts := call()
		if w.dead {
			return
		}
		noteData(p, ts)
		sl.inspectOutgoing(p, ts)
		sl.enqueue(p, ts)
		drainCounted()
		for _, q := range []*party{A, B} {
			snap := otr3.VerifSnapshot(q.c)
			olog.ok("C19")
			if (acc[q] >= 0 && snap.OldMACKeys > 3*acc[q] || len(snap.Counters) > 6 || len(snap.MacHistory) > 6) && firstState == "" {
				firstState = (fmt.Sprintf("%s; %s now retains oldMACKeys=%d (MAC keys waiting to be revealed; it accepted %d message(s) since the last data message it sent) counters=%d macHistory=%d; key ids our=%d their=%d", what(i), q.id, snap.OldMACKeys, acc[q], len(snap.Counters), len(snap.MacHistory), snap.OurKeyID, snap.TheirKeyID))
			}
		}
	}
	tlvCall := func(p *party, allowStart bool) (string, func() []otr3.ValidMessage) {
		k := g.r.Intn(6)
		switch {
		case k < 3 || k == 5 && !allowStart:
			return p.id + ".AbortAuthentication", func() []otr3.ValidMessage { ts, _ := w.smpAbort(p); return ts }
		case k < 5:
			usage, data := g.r.Uint32(), g.blob()
			return p.id + ".UseExtraSymmetricKey", func() []otr3.ValidMessage { _, ts, _ := w.extraKey(p, usage, data); return ts }
		}
		return p.id + ".StartAuthenticate", func() []otr3.ValidMessage { ts, _ := w.smpStart(p, "", []byte("s3cret")); return ts }
	}
	for i := 1; i <= n && !w.dead; i++ {
		ka, ca := tlvCall(A, true)
		kb, cb := tlvCall(B, false)
		if i <= 3 {
			kinds = append(kinds, ka, kb)
		} else if i == 4 {
			kinds = append(kinds, "...")
		}
		emit(A, i, ca)
		emit(B, i, cb)
		if !A.c.IsEncrypted() || !B.c.IsEncrypted() {
			g.dist["sched:tlv-only-session-lost"]++
			return
		}
	}
	if w.dead {
		return
	}
	text := g.cleanText()
	kinds = append(kinds, fmt.Sprintf("then %s sends the text %q", A.id, text))
	emit(A, n, func() []otr3.ValidMessage {
		ts, err := w.send(A, text)
		if err == nil {
			sl.side(B).expect = append(sl.side(B).expect, text)
		}
		return ts
	})
	for i := 0; i < 2 && !w.dead; i++ {
		sl.sendText(B, g.cleanText())
		sl.drain()
		sl.sendText(A, g.cleanText())
		sl.drain()
	}
	for _, s := range []*schedSide{sl.sa, sl.sb} {
		if len(s.expect) > 0 && !w.dead {
			olog.viol("C04", "lost", fmt.Sprintf("%s never received %d text(s) the peer sent, first %q", s.p.id, len(s.expect), s.expect[0]))
		}
	}
	g.dist["sched:tlv-only-rounds"]++
}

// C09: a MAC key is used as soon as a message has been accepted under it, whatever happens to the
// TLVs of that message afterwards. The first data message of a session (the only one its addressee
// gets under the pair 1:1, and the addressee has not sent under that pair) carries a text, an SMP TLV
// that cannot be parsed and the flag IGNORE_UNREADABLE: the text is delivered without error. Ordinary
// ping-pong then retires the pair, and its key must be disclosed like any other (deliverOne /
// inspectOutgoing: "used-key-not-disclosed").
func (g *gen) unreadableTlvKeyUse(w *world) {
	version := 2 + g.r.Intn(2)
	sl := newSchedLink(w, g, version, 0, 0)
	if !sl.a.c.IsEncrypted() || !sl.b.c.IsEncrypted() {
		return
	}
	A, B := sl.a, sl.b
	if g.r.Intn(2) == 0 {
		A, B = B, A
	}
	ty := []uint16{3, 2, 4, 5}[g.r.Intn(4)]
	val := [][]byte{{0, 0, 0, 1, 0xff}, {0, 0, 0, 5}, {0xff}, {0, 0, 0, 1, 0, 0, 0, 1, 7}}[g.r.Intn(4)]
	text := g.cleanText()
	sB := sl.side(B)
	sl.sendTextTLVs(A, text, []uint16{ty}, [][]byte{val})
	nBefore := len(B.received)
	sl.drain()
	olog.ok("C04")
	olog.ok("C09")
	if w.dead {
		return
	}
	if len(B.received) != nBefore+1 || !bytes.Equal(B.received[nBefore], text) {
		// (not delivered: nothing was accepted, so nothing to disclose; C04 speaks through the queues)
		g.dist["sched:unreadable-tlv-not-delivered"]++
	} else if len(sB.acceptedKeys) != 1 {
		g.dist["sched:unreadable-tlv-key-untracked"]++ // (a gap of this harness, not of the library)
	}
	nViol := olog.perKey["C09|used-key-not-disclosed"]
	for i := 0; i < 3+g.r.Intn(2) && !w.dead; i++ {
		sl.sendText(B, g.cleanText())
		sl.drain()
		sl.sendText(A, g.cleanText())
		sl.drain()
	}
	if olog.perKey["C09|used-key-not-disclosed"] > nViol {
		olog.viol("C09", "used-key-not-disclosed:unreadable-tlv", fmt.Sprintf("OTRv%d: the first data message of the session, text %q + TLV type %d value %x flagged IGNORE_UNREADABLE, was delivered by %s (no error) under key pair 1:1; after the pair was retired by ordinary ping-pong the MAC key that authenticated it was never disclosed", version, text, ty, val, B.id))
	}
	for _, s := range []*schedSide{sl.sa, sl.sb} {
		if len(s.expect) > 0 && !w.dead {
			olog.viol("C04", "lost", fmt.Sprintf("%s never received %d text(s) the peer sent, first %q", s.p.id, len(s.expect), s.expect[0]))
		}
	}
	g.dist["sched:unreadable-tlv-key-use"]++
}

// a text as it is quoted in a description (long ones cut)
func cut(b []byte) string {
	if len(b) > 60 {
		return fmt.Sprintf("%q... (%d bytes)", b[:60], len(b))
	}
	return fmt.Sprintf("%q", b)
}

// every MAC key a data message reveals (read off the wire, as an eavesdropper does)
func revealedOnWire(m []byte, version int) [][]byte {
	if !isDataWire(m) {
		return nil
	}
	f, ok := dataFields(decodeWire(m), version)
	if !ok {
		return nil
	}
	var out [][]byte
	for i := 0; i+20 <= len(f.old); i += 20 {
		out = append(out, append([]byte{}, f.old[i:i+20]...))
	}
	return out
}

// C02: forgery of a RECORDED message from a MAC key that was revealed afterwards. An eavesdropper
// records every data message the peer P sends to V (all of them are delivered) and reads every MAC key
// V reveals off the wire. As soon as a key has been revealed it is worthless as a proof of origin
// (anybody can compute a MAC with it), so from then on nothing authenticated with it may be delivered:
// every recorded message of P, ciphertext altered (one bit of the text, never producing a NUL), MAC
// recomputed with the revealed key, is handed to V - among them the messages of the very pair the key
// belonged to, which has been retired by the ping-pong in between (its counters are forgotten, so the
// old counter value is no obstacle). V must return no plaintext, answer with no data message and stay
// encrypted; the genuine traffic goes on undisturbed afterwards.
func (g *gen) retiredPairForgery(w *world) {
	version := 2 + g.r.Intn(2)
	sl := newSchedLink(w, g, version, 0, 0)
	if !sl.a.c.IsEncrypted() || !sl.b.c.IsEncrypted() || w.dead {
		return
	}
	V, P := sl.a, sl.b
	toV := false
	if g.r.Intn(2) == 0 {
		V, P = P, V
		toV = true
	}
	type rec struct {
		wire, text []byte
		sk, rk     uint32
	}
	var recorded []rec
	var fresh [][]byte // keys revealed by V and not tried yet
	seenKey := map[string]bool{}
	nKeys := 0
	tap := func(from *party, ms []otr3.ValidMessage) {
		if from != V {
			return
		}
		for _, m := range reassembleAll(ms) {
			for _, k := range revealedOnWire(m, version) {
				if !seenKey[string(k)] {
					seenKey[string(k)] = true
					fresh = append(fresh, k)
					nKeys++
				}
			}
		}
	}
	send := func(p *party) {
		t := g.cleanText()
		ts, err := w.send(p, t)
		if err == nil {
			sl.side(sl.peer(p)).expect = append(sl.side(sl.peer(p)).expect, t)
		}
		sl.inspectOutgoing(p, ts)
		sl.enqueue(p, ts)
		tap(p, ts)
		if p == P && err == nil {
			for _, m := range reassembleAll(ts) {
				if sk, rk, _, ok := otr3.VerifDataIDs(m); ok && isDataWire(m) {
					recorded = append(recorded, rec{append([]byte{}, m...), t, sk, rk})
				}
			}
		}
	}
	// deliver everything; what V emits on its own while receiving (heartbeats) is tapped as well
	drain := func() {
		for k := 0; k < 2000 && (len(sl.qab) > 0 || len(sl.qba) > 0) && !w.dead; k++ {
			for _, to := range []bool{toV, !toV} {
				outq := &sl.qab
				r := sl.a
				if to { // delivery to b: b's answers go to qba
					outq = &sl.qba
					r = sl.b
				}
				n0 := len(*outq)
				if !sl.deliverOne(to) {
					continue
				}
				var back []otr3.ValidMessage
				for _, m := range (*outq)[n0:] {
					back = append(back, otr3.ValidMessage(m))
				}
				tap(r, back)
			}
		}
	}
	tried, hit := 0, false
	attack := func() {
		for _, k := range fresh {
			for j := len(recorded) - 1; j >= 0 && j >= len(recorded)-8 && !w.dead && !hit; j-- {
				rc := recorded[j]
				bin := decodeWire(rc.wire)
				f, ok := dataFields(bin, version)
				if !ok || f.encEnd-f.encStart < 4 {
					continue
				}
				forged := append([]byte{}, bin...)
				forged[f.encStart+1+g.r.Intn(3)] ^= 0x01 // ('!'..'z' never becomes NUL)
				mac := hmac.New(sha1.New, k)
				mac.Write(forged[:f.macStart])
				copy(forged[f.macStart:f.macStart+20], mac.Sum(nil))
				tried++
				olog.ok("C02")
				plain, back, _, _ := w.recv(V, encodeWire(forged))
				if w.dead {
					return
				}
				answered := false
				for _, m := range back { // an OTR error reply is the only thing a rejected message may cause
					if !isErrorReply(m) {
						answered = true
					}
				}
				if plain != nil || answered || !V.c.IsEncrypted() {
					hit = true
					sn := otr3.VerifSnapshot(V.c)
					olog.viol("C02", "forged-with-disclosed-key-delivered", fmt.Sprintf("OTRv%d: %s returned %s (answered with a message: %v, still encrypted: %v) for a message its peer never sent: the recorded message number %d of %s (text %s, sender key id %d, recipient key id %d; accepted earlier) with one ciphertext bit flipped and the MAC recomputed with the key %x, which %s itself had revealed in an earlier data message (key number %d it revealed; its key ids now: our=%d their=%d)", version, V.id, cut(plain), answered, V.c.IsEncrypted(), j+1, P.id, cut(rc.text), rc.sk, rc.rk, k, V.id, nKeys, sn.OurKeyID, sn.TheirKeyID))
				}
			}
		}
		fresh = nil
	}
	rounds := 4 + g.r.Intn(2)
	for i := 0; i < rounds && !w.dead && !hit; i++ {
		for j := 0; j < 1+g.r.Intn(2); j++ {
			send(P)
		}
		drain()
		send(V)
		drain()
		attack()
	}
	g.dist[fmt.Sprintf("sched:retired-pair-forgeries:%d", tried/10*10)]++
	if w.dead || hit {
		return
	}
	for i := 0; i < 2 && !w.dead; i++ {
		send(P)
		drain()
		send(V)
		drain()
	}
	for _, s := range []*schedSide{sl.sa, sl.sb} {
		if len(s.expect) > 0 && !w.dead {
			olog.viol("C04", "lost", fmt.Sprintf("OTRv%d: after %d rejected forgeries %s never received %d text(s) the peer sent, first %q", version, tried, s.p.id, len(s.expect), s.expect[0]))
		}
	}
	g.dist["sched:retired-pair-forgery"]++
}

// C04 under a silent randomness fault: at ONE draw of a new DH key - the rotation inside Receive, or
// the key drawn when the key exchange completes - the randomness source of one side answers with 40
// zero bytes and no error (exponent 0, public value 1). Nothing reports anything; the session goes on
// over that key pair (both sides derive the same secret), so every text of either side must still be
// delivered exactly once and in order (the per-side queues of deliverOne), through ping-pong, bursts,
// crossing messages and further rotations.
func (g *gen) degenerateDhDraw(w *world) {
	version := 2 + g.r.Intn(2)
	pol := 2
	if version == 3 {
		pol = 4
	}
	a := w.newParty(partyCfg{policies: pol, keyIdx: 0, errh: true})
	b := w.newParty(partyCfg{policies: pol, keyIdx: 1, errh: true})
	mk := func(p *party) *schedSide {
		return &schedSide{p: p, acceptedKeys: map[string]string{}, pendingDisclose: map[string]string{}, disclosed: map[string]bool{}}
	}
	sl := &schedLink{link: &link{w: w, a: a, b: b}, sa: mk(a), sb: mk(b), g: g, keysMayCoincide: true}
	F, O := a, b // F: the side whose randomness fails once
	toF := false
	if g.r.Intn(2) == 0 {
		F, O = b, a
		toF = true
	}
	atAke := g.r.Intn(3) == 0
	armed := false
	where := ""
	drawn := false
	zeros := make([]byte, 40)
	// one delivery; towards F with the fault armed if the message is one that makes F draw a DH key
	deliver := func(to bool) bool {
		q := sl.qab
		if !to {
			q = sl.qba
		}
		if len(q) == 0 {
			return false
		}
		arm := false
		if to == toF && armed && !drawn {
			if bin := decodeWire(q[0]); len(bin) > 2 {
				if atAke {
					arm = bin[2] == 0x11 || bin[2] == 0x12 // Reveal Signature / Signature: the exchange completes
				} else {
					arm = bin[2] == 0x03
				}
			}
		}
		if arm {
			F.rnd.forced = [][]byte{zeros}
		}
		sl.deliverOne(to)
		if arm {
			// (the read that took the zero bytes is the 40 byte draw of a DH key, nothing else)
			if h := F.rnd.history; len(F.rnd.forced) == 0 && len(h) > 0 && bytes.Equal(h[len(h)-1], zeros) {
				drawn = true
				sn := otr3.VerifSnapshot(F.c)
				where += fmt.Sprintf(" (its key id %d)", sn.OurKeyID)
			}
			F.rnd.forced = nil
		}
		return true
	}
	drain := func() {
		for i := 0; i < 4000 && (len(sl.qab) > 0 || len(sl.qba) > 0) && !w.dead; i++ {
			deliver(true)
			deliver(false)
		}
	}
	var hist []string
	text := func(p *party) {
		sl.sendText(p, g.cleanText())
		hist = append(hist, "s:"+p.id)
	}
	starter := []*party{a, b}[g.r.Intn(2)]
	if atAke {
		armed = true
		where = "the key drawn when the key exchange completed"
	}
	sl.enqueue(starter, []otr3.ValidMessage{w.query(starter)})
	drain()
	if !a.c.IsEncrypted() || !b.c.IsEncrypted() || w.dead {
		g.dist["sched:degenerate-dh-no-session"]++
		return
	}
	mark := c04Hits()
	if !atAke {
		for i := 0; i < g.r.Intn(3) && !w.dead; i++ { // the ratchets are somewhere
			text(F)
			drain()
			text(O)
			drain()
		}
		armed = true
		where = "the key drawn at the next rotation inside Receive"
		hist = append(hist, "<fault armed>")
	}
	// ping-pong until the key has been drawn and is in use in both directions
	for i := 0; i < 3 && !w.dead; i++ {
		text(F)
		drain()
		text(O)
		drain()
	}
	if !drawn {
		g.dist["sched:degenerate-dh-not-drawn"]++
	}
	// a burst of each side, crossing messages, a short random schedule
	for i := 0; i < 2+g.r.Intn(3); i++ {
		text(F)
	}
	drain()
	for i := 0; i < 2+g.r.Intn(3); i++ {
		text(O)
	}
	drain()
	text(F)
	text(O)
	drain()
	for i := 0; i < 12+g.r.Intn(12) && !w.dead; i++ {
		switch g.r.Intn(4) {
		case 0:
			text(F)
		case 1:
			text(O)
		case 2:
			if deliver(true) {
				hist = append(hist, "d:"+b.id)
			}
		case 3:
			if deliver(false) {
				hist = append(hist, "d:"+a.id)
			}
		}
	}
	drain()
	for i := 0; i < 2 && !w.dead; i++ {
		text(O)
		drain()
		text(F)
		drain()
	}
	for _, s := range []*schedSide{sl.sa, sl.sb} {
		if len(s.expect) > 0 && !w.dead {
			olog.viol("C04", "lost", fmt.Sprintf("OTRv%d: %s never received %d text(s) the peer sent, first %q", version, s.p.id, len(s.expect), s.expect[0]))
		}
	}
	olog.ok("C04")
	if c04Hits() > mark && drawn {
		olog.viol("C04", "lost-under-silent-randomness-fault", fmt.Sprintf("OTRv%d: the randomness source of %s answered ONE read with 40 zero bytes and no error - %s, i.e. exponent 0 and public value 1 - and worked at all other times; schedule (s:p = p sends a text, d:p = p receives the oldest message in flight; everything else delivered in order) %s: not every text arrived exactly once, in order (%d oracle hits; %s received %d texts, %s received %d)", version, F.id, where, strings.Join(hist, " "), c04Hits()-mark, F.id, len(F.received), O.id, len(O.received)))
	}
	if atAke {
		g.dist["sched:degenerate-dh-draw:ake"]++
	} else {
		g.dist["sched:degenerate-dh-draw:rotation"]++
	}
}

// C19 / C04 / C09: the schedule that attains the bound of theorem `c19_two_party_reveal_bound` (Props.C19Two,
// `c19_bound_attained`): A sends, B sends, B receives, B sends, A receives, A sends, A receives, B receives, B sends,
// A receives — A's reveal queue then holds three MAC keys (the proved maximum for two honest parties over FIFO
// channels) and A's next data message reveals all three. Every text must arrive exactly once, in order; the reveal
// field never carries more than three keys; in both directions (roles swapped) and both versions.
func (g *gen) maxRevealSchedule(w *world, k int) {
	version := 2 + k%2
	sl := newSchedLink(w, g, version, 0, 0)
	if !sl.a.c.IsEncrypted() || !sl.b.c.IsEncrypted() || w.dead {
		return
	}
	A, B := sl.a, sl.b
	toB := true // direction A -> B
	if (k/2)%2 == 1 {
		A, B = B, A
		toB = false
	}
	g.dist["sched:max-reveal-schedule"]++
	sA := func() { sl.sendText(A, g.cleanText()) }
	sB := func() { sl.sendText(B, g.cleanText()) }
	dAB := func() { sl.deliverOne(toB) }
	dBA := func() { sl.deliverOne(!toB) }
	for _, step := range []func(){sA, sB, dAB, sB, dBA, sA, dBA, dAB, sB, dBA} {
		if w.dead {
			return
		}
		step()
	}
	queued := otr3.VerifSnapshot(A.c).OldMACKeys
	olog.ok("C19")
	g.dist[fmt.Sprintf("sched:max-reveal-schedule:queue=%d", queued)]++
	if queued > 3 {
		olog.viol("C19", "reveal-queue-above-proved-bound", fmt.Sprintf("OTRv%d: after the schedule sA sB dAB sB dBA sA dBA dAB sB dBA the reveal queue of %s holds %d MAC keys; for two honest parties over FIFO channels the proved maximum is 3", version, A.id, queued))
	}
	if k >= 4 {
		// with the queue at its maximum (and further used keys still in the MAC history) the session is replaced by a
		// new key exchange: everything is carried over and the first data message of the new session reveals it all
		w.tick(75)
		st := []*party{A, B}[(k/4)%2]
		sl.enqueue(st, []otr3.ValidMessage{w.query(st)})
		sl.drain()
		g.dist["sched:max-reveal-schedule:then-re-ake"]++
	}
	// the message that reveals them, then ordinary traffic both ways
	sA()
	sl.drain()
	for i := 0; i < 2 && !w.dead; i++ {
		sB()
		sl.drain()
		sA()
		sl.drain()
	}
}


// C05: a data message that carries a TEXT and has the flag IGNORE_UNREADABLE set (legal on the wire:
// the flag only asks the addressee to stay quiet should it be unable to read the message) is accepted
// once like any other. Delivered again - straight away, after more traffic under the same key pair,
// after traffic in both directions, after the pair has been retired - it yields no plaintext and no
// answer, whatever else (no TLV, padding, an SMP TLV that cannot be parsed, an extra-key TLV) it carries.
func (g *gen) flaggedTextReplay(w *world) {
	version := 2 + g.r.Intn(2)
	sl := newSchedLink(w, g, version, 0, 0)
	if !sl.a.c.IsEncrypted() || !sl.b.c.IsEncrypted() || w.dead {
		return
	}
	S, R := sl.a, sl.b
	if g.r.Intn(2) == 0 {
		S, R = R, S
	}
	for i := 0; i < g.r.Intn(3) && !w.dead; i++ { // the ratchets are somewhere
		sl.sendText(S, g.cleanText())
		sl.drain()
		sl.sendText(R, g.cleanText())
		sl.drain()
	}
	var types []uint16
	var values [][]byte
	kind := g.r.Intn(4)
	switch kind {
	case 1:
		types, values = []uint16{0}, [][]byte{make([]byte, 1+g.r.Intn(40))}
	case 2:
		types, values = []uint16{[]uint16{3, 2, 4, 5}[g.r.Intn(4)]}, [][]byte{{0, 0, 0, 1, 0xff}}
	case 3:
		types, values = []uint16{8}, [][]byte{{0, 0, 0, 7, 'x'}}
	}
	text := g.cleanText()
	nBefore, wBefore := len(R.received), len(sl.side(R).seenWire)
	sl.sendTextTLVs(S, text, types, values)
	sl.drain()
	if w.dead {
		return
	}
	var wire []byte
	for _, m := range sl.side(R).seenWire[wBefore:] {
		if f, ok := otr3.VerifDataFlag(m); ok && f&1 != 0 && wire == nil {
			wire = m
		}
	}
	if wire == nil || len(R.received) != nBefore+1 || !bytes.Equal(R.received[nBefore], text) {
		g.dist["sched:flagged-text-not-delivered"]++ // (nothing was accepted: nothing to replay; C04 speaks through the queues)
		return
	}
	sk, rk, ctr, _ := otr3.VerifDataIDs(wire)
	hit := false
	replay := func(when string) {
		for rep := 0; rep < 2 && !w.dead && !hit; rep++ {
			plain, back, _, _ := w.recv(R, wire)
			olog.ok("C05")
			if w.dead {
				return
			}
			answered := false
			for _, m := range back { // an OTR error reply is the only thing a rejected message may cause
				if !isErrorReply(m) {
					answered = true
				}
			}
			if plain != nil || answered {
				hit = true
				sn := otr3.VerifSnapshot(R.c)
				olog.viol("C05", "replay-delivered", fmt.Sprintf("OTRv%d: %s accepted the data message (sender key id %d, recipient key id %d, counter %d, flags %s, text %q, TLV types %v) once; delivered again %s (repetition %d) Receive returned plaintext %q (answered with a message: %v); key ids of %s now: our=%d their=%d", version, R.id, sk, rk, ctr, flagStr(wire), text, types, when, rep+1, plain, answered, R.id, sn.OurKeyID, sn.TheirKeyID))
			}
		}
	}
	replay("straight away")
	sl.sendText(S, g.cleanText())
	sl.drain()
	replay("after one more text of the same sender")
	sl.sendText(R, g.cleanText())
	sl.drain()
	replay("after a text in the other direction")
	sl.sendText(S, g.cleanText())
	sl.drain()
	replay("after a text in each direction and one more of the sender")
	for i := 0; i < 2 && !w.dead; i++ {
		sl.sendText(R, g.cleanText())
		sl.drain()
		sl.sendText(S, g.cleanText())
		sl.drain()
	}
	replay("after three rounds of ping-pong (the key pair has been retired)")
	for _, s := range []*schedSide{sl.sa, sl.sb} {
		if len(s.expect) > 0 && !w.dead {
			olog.viol("C04", "lost", fmt.Sprintf("%s never received %d text(s) the peer sent, first %q", s.p.id, len(s.expect), s.expect[0]))
		}
	}
	g.dist[fmt.Sprintf("sched:flagged-text-replay:%d", kind)]++
}

func init() {
	profiles["sched"] = func(seed int64, n int, out *emitter, extra map[string]interface{}) map[string]int {
		g := &gen{r: rand.New(rand.NewSource(seed)), out: out, dist: map[string]int{}}
		olog = &oracleLog{checked: map[string]int{}, out: out}
		w := newWorld(g)
		for i := 0; i < n; i++ {
			w.parties = map[string]*party{}
			w.dead = false
			g.schedScenario(w, 40+g.r.Intn(80))
			if i%3 == 0 {
				g.lossyBurst(w)
			}
			if i%4 == 0 {
				w.parties = map[string]*party{}
				w.dead = false
				g.crossingRotations(w)
			}
			if i%2 == 0 {
				g.forgeryFromDisclosedKeys(w)
			}
			if i%3 == 1 {
				g.oversizedPayloads(w, 0)
				g.oversizedPayloads(w, 1)
			}
			if i%3 == 2 {
				w.parties = map[string]*party{}
				w.dead = false
				g.reAkeDisclosure(w)
			}
			if i%3 == 0 {
				w.parties = map[string]*party{}
				w.dead = false
				g.unreadableTlvKeyUse(w)
			}
			if i%3 != 2 {
				w.parties = map[string]*party{}
				w.dead = false
				g.endThenReAkeDisclosure(w)
			}
			if i%4 == 1 {
				w.parties = map[string]*party{}
				w.dead = false
				g.eagerPeerStream(w)
			}
			if i%4 == 2 {
				w.parties = map[string]*party{}
				w.dead = false
				g.tlvOnlyRounds(w)
			}
			if i%2 == 1 {
				g.maxCounterReplay(w)
			}
		}
		// (added later, after everything above so that the traces of the older scenarios stay what they were)
		for i := 0; i < n; i++ {
			w.parties = map[string]*party{}
			w.dead = false
			switch i % 3 {
			case 0:
				g.retiredPairForgery(w)
			case 1:
				g.degenerateDhDraw(w)
			case 2:
				g.flaggedTextReplay(w)
			}
		}
		for k := 0; k < 8; k++ {
			w.parties = map[string]*party{}
			w.dead = false
			g.maxRevealSchedule(w, k)
		}
		extra["panics"] = panicCount
		olog.export(extra)
		return g.dist
	}
	// n = number of complete schedules to run (each with its own handshake)
	profiles["schedx"] = func(seed int64, n int, out *emitter, extra map[string]interface{}) map[string]int {
		g := &gen{r: rand.New(rand.NewSource(seed)), out: out, dist: map[string]int{}}
		olog = &oracleLog{checked: map[string]int{}, out: out}
		w := newWorld(g)
		budget := n
		depth := 6
		if n > 3000 {
			depth = 8
		}
		g.schedExhaustive(w, depth, 3, &budget)
		extra["exhaustive_depth"] = depth
		extra["schedules_run"] = n - budget
		extra["panics"] = panicCount
		olog.export(extra)
		return g.dist
	}
}
