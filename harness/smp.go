package main

// Profile "smp" (C11, C12): SMP runs inside established sessions.
//  - honest runs with equal / unequal secrets (empty, long, binary, one bit apart), with and without
//    question, either initiator, back to back, traffic in between, both versions;
//  - relay: an attacker holding two separately keyed sessions forwards the SMP payloads between them;
//  - deviant messages: an SMP message authenticated by the genuine peer but with one field replaced by
//    a boundary value / perturbed / miscounted / truncated, duplicated or out of sequence, and user
//    calls in states that do not expect them; afterwards an honest run must still succeed;
//  - honest runs with a question of the maximal length StartAuthenticate accepts (found by probing), one
//    or two bytes shorter, and one byte longer (refused).

import (
	"bytes"
	"crypto/sha256"
	"fmt"
	"math/big"
	"math/rand"
	"strings"

	otr3 "github.com/coyim/otr3"
)

type smpNet struct {
	w    *world
	g    *gen
	a, b *party
	l    *link
	evA  []string // SMP events seen by a / b (accumulated)
	evB  []string
}

func smpEvents(evs string) []string {
	var out []string
	for _, e := range strings.Split(strings.Trim(evs, "[]"), ",") {
		if strings.HasPrefix(e, "smp:") {
			out = append(out, e)
		}
	}
	return out
}

func hasEv(evs []string, prefix string) bool {
	for _, e := range evs {
		if strings.HasPrefix(e, prefix) {
			return true
		}
	}
	return false
}

func (n *smpNet) note(p *party) {
	if p == n.a {
		n.evA = append(n.evA, smpEvents(lastEvents)...)
	} else {
		n.evB = append(n.evB, smpEvents(lastEvents)...)
	}
}

// deliver everything in flight; `hook` may replace a message on its way to `to`
func (n *smpNet) pump(hook func(to *party, m []byte) [][]byte) {
	for i := 0; i < 200 && (len(n.l.qab) > 0 || len(n.l.qba) > 0) && !n.w.dead; i++ {
		for _, toB := range []bool{true, false} {
			q, to := &n.l.qab, n.b
			if !toB {
				q, to = &n.l.qba, n.a
			}
			if len(*q) == 0 {
				continue
			}
			m := (*q)[0]
			*q = (*q)[1:]
			outs := [][]byte{m}
			if hook != nil {
				outs = hook(to, m)
			}
			for _, o := range outs {
				_, ts, _, pan := n.w.recv(to, o)
				if pan {
					olog.viol("C12", "smp-panic", fmt.Sprintf("Receive panicked while handling SMP traffic (%.40q)", o))
					olog.viol("C13", "receive-panics:smp", fmt.Sprintf("Receive panicked while handling SMP traffic (%.40q)", o))
					return
				}
				n.note(to)
				n.l.enqueue(to, ts)
			}
		}
	}
}

func (g *gen) newSmpNet(w *world, version int) *smpNet {
	w.parties = map[string]*party{}
	w.dead = false
	pol := 2
	if version == 3 {
		pol = 4
	}
	a := w.newParty(partyCfg{policies: pol, keyIdx: 0, errh: true})
	b := w.newParty(partyCfg{policies: pol, keyIdx: 1, errh: true})
	n := &smpNet{w: w, g: g, a: a, b: b, l: &link{w: w, a: a, b: b}}
	n.l.enqueue(a, []otr3.ValidMessage{w.query(a)})
	n.l.settle(30)
	if g.r.Intn(3) == 0 && a.c.IsEncrypted() && b.c.IsEncrypted() {
		// the SMP runs take place in a second session of the same two conversation objects: one side
		// ended the first one, the other is finished (and may or may not have called End itself)
		g.dist["smp:second-session"]++
		e, o := a, b
		if g.r.Intn(2) == 0 {
			e, o = b, a
		}
		ts, _ := w.end(e)
		n.l.enqueue(e, ts)
		n.l.settle(10)
		if g.r.Intn(2) == 0 {
			ts, _ = w.end(o)
			n.l.enqueue(o, ts)
			n.l.settle(10)
		}
		w.tick(75)
		st := []*party{a, b}[g.r.Intn(2)]
		n.l.enqueue(st, []otr3.ValidMessage{w.query(st)})
		n.l.settle(30)
	}
	return n
}

func (g *gen) secretPair() ([]byte, []byte, bool) {
	base := [][]byte{[]byte("hunter2"), {}, bytes.Repeat([]byte("long secret "), 40), {0, 1, 2, 0xff, 0}, []byte("ünïcödé")}[g.r.Intn(5)]
	if g.r.Intn(2) == 0 {
		if g.r.Intn(3) == 0 {
			// equal secrets that end in a line break, a blank or a NUL byte
			base = append(append([]byte{}, base...), [][]byte{[]byte("\n"), []byte("\r\n"), []byte(" "), {0}, []byte("\r")}[g.r.Intn(5)]...)
		}
		return base, append([]byte{}, base...), true
	}
	if g.r.Intn(5) < 3 {
		if s1, s2, ok := g.nearMissPair(base); ok {
			return s1, s2, false
		}
	}
	other := append([]byte{}, base...)
	if len(other) == 0 {
		other = []byte{0}
	} else {
		other[g.r.Intn(len(other))] ^= 1
	}
	return base, other, false
}

// two secrets a user would call "the same" but that are not byte-equal: they differ only in white space
// or line breaks at the end (what a prompt or a paste leaves behind) or at the start, or in the case of
// one letter
func (g *gen) nearMissPair(base []byte) ([]byte, []byte, bool) {
	cat := func(parts ...[]byte) []byte {
		var out []byte
		for _, p := range parts {
			out = append(out, p...)
		}
		return out
	}
	tails := [][2]string{{"", "\n"}, {"\r\n", "\n"}, {"", "\r\n"}, {"", "\r"}, {"\n", "\n\n"}, {"\r", "\n"}, {"\n", "\n\r"}, {"", " "}, {"", "\t"}, {"", "\x00"}, {" ", "\n"}, {"\n", "\x00\n"}}
	var s1, s2 []byte
	switch k := g.r.Intn(10); {
	case k < 7: // at the end
		t := tails[g.r.Intn(len(tails))]
		if k < 4 {
			t = tails[g.r.Intn(7)] // line breaks only
		}
		s1, s2 = cat(base, []byte(t[0])), cat(base, []byte(t[1]))
	case k < 9: // at the start
		h := []string{"\n", "\r\n", " ", "\t", "\x00"}[g.r.Intn(5)]
		s1, s2 = append([]byte{}, base...), cat([]byte(h), base)
	default: // case of one letter
		var letters []int
		for i, c := range base {
			if c >= 'a' && c <= 'z' || c >= 'A' && c <= 'Z' {
				letters = append(letters, i)
			}
		}
		if len(letters) == 0 {
			return nil, nil, false
		}
		s1, s2 = append([]byte{}, base...), append([]byte{}, base...)
		s2[letters[g.r.Intn(len(letters))]] ^= 0x20
	}
	if g.r.Intn(2) == 0 {
		s1, s2 = s2, s1
	}
	return s1, s2, !bytes.Equal(s1, s2)
}

// one complete honest run started by `ini`; returns (success at initiator, success at responder)
func (n *smpNet) honestRun(ini, res *party, question string, sIni, sRes []byte, hook func(to *party, m []byte) [][]byte) {
	ts, _ := n.w.smpStart(ini, question, sIni)
	n.note(ini)
	n.l.enqueue(ini, ts)
	n.pump(hook)
	// the responder has been asked for the secret (nobody answers in a conversation that has ended)
	if !res.c.IsEncrypted() {
		return
	}
	ts, _ = n.w.smpSecret(res, sRes)
	n.note(res)
	n.l.enqueue(res, ts)
	n.pump(hook)
}

func (n *smpNet) evOf(p *party) *[]string {
	if p == n.a {
		return &n.evA
	}
	return &n.evB
}

// an exponent r (big endian, n bytes) for which the proof hash c = SHA256(ix ‖ MPI(g1^r)) starts with a
// zero byte: as a number the hash is then shorter than 32 bytes - honest, and rare (1 in 256)
var zeroHashCache = map[string][]byte{}

func zeroHashExponent(n int, ix byte) []byte {
	key := fmt.Sprintf("%d/%d", n, ix)
	if r, ok := zeroHashCache[key]; ok {
		return r
	}
	for k := int64(3); ; k++ {
		gx := new(big.Int).Exp(big.NewInt(2), big.NewInt(k), bigP)
		h := sha256.New()
		h.Write([]byte{ix})
		h.Write(otr3.AppendMPI(nil, gx))
		if h.Sum(nil)[0] == 0 {
			r := make([]byte, n)
			kb := big.NewInt(k).Bytes()
			copy(r[n-len(kb):], kb)
			zeroHashCache[key] = r
			return r
		}
	}
}

func (g *gen) smpHonest(w *world) {
	version := 2 + g.r.Intn(2)
	n := g.newSmpNet(w, version)
	if !n.a.c.IsEncrypted() || !n.b.c.IsEncrypted() {
		return
	}
	for round := 0; round < 2+g.r.Intn(2) && !w.dead; round++ {
		ini, res := n.a, n.b
		if g.r.Intn(2) == 0 {
			ini, res = n.b, n.a
		}
		s1, s2, equal := g.secretPair()
		q := []string{"", "what is it?"}[g.r.Intn(2)]
		*n.evOf(ini), *n.evOf(res) = nil, nil
		if g.r.Intn(6) == 0 {
			// a question with a NUL byte cannot be written (it is NUL terminated on the wire): the call
			// has to refuse it; sent as it is, the peer reads a shorter question and garbage after it,
			// says nothing, and the initiator waits for ever
			ts, err := n.w.smpStart(ini, "who\x00are you", s1)
			olog.ok("C11")
			if err == nil || len(ts) > 0 {
				olog.viol("C11", "question-with-nul-accepted", fmt.Sprintf("OTRv%d: StartAuthenticate accepts a question containing a NUL byte (%d messages, err %v): the run can never complete", version, len(ts), err))
				n.l.enqueue(ini, ts)
				n.pump(nil)
				ts, _ = n.w.smpAbort(ini)
				n.l.enqueue(ini, ts)
				n.pump(nil)
			}
			continue
		}
		restart := g.r.Intn(4)
		switch restart {
		case 1: // the initiator starts over while its first attempt is still unanswered
			ts, _ := n.w.smpStart(ini, q, []byte("first attempt, abandoned"))
			n.l.enqueue(ini, ts)
			n.pump(nil)
			*n.evOf(ini), *n.evOf(res) = nil, nil
		case 2: // the party that has been asked for the secret starts a run of its own instead of answering
			ts, _ := n.w.smpStart(res, q, []byte("a run that is overtaken"))
			n.l.enqueue(res, ts)
			n.pump(nil)
			*n.evOf(ini), *n.evOf(res) = nil, nil
		}
		g.dist[fmt.Sprintf("smp:honest:restart%d", restart)]++
		if g.r.Intn(3) == 0 {
			// the initiator's r2 (third number it draws) makes c2 a hash with a leading zero byte
			plen := 192
			ini.rnd.forced = [][]byte{g.bytesN(plen), g.bytesN(plen), zeroHashExponent(plen, 1)}
			g.dist["smp:honest:c2-with-leading-zero"]++
		}
		n.honestRun(ini, res, q, s1, s2, nil)
		ini.rnd.forced = nil
		olog.ok("C11")
		ei, er := *n.evOf(ini), *n.evOf(res)
		desc := fmt.Sprintf("OTRv%d, question %q, secrets equal=%v (%s / %s), restart variant %d: initiator events %v, responder events %v", version, q, equal, sq(s1), sq(s2), restart, ei, er)
		if equal {
			if !hasEv(ei, "smp:6") || !hasEv(er, "smp:6") {
				olog.viol("C11", "equal-secrets-no-success", desc)
			}
		} else {
			if hasEv(ei, "smp:6") || hasEv(er, "smp:6") {
				olog.viol("C11", "unequal-secrets-success", desc)
			}
			if !hasEv(er, "smp:7") {
				olog.viol("C11", "mismatch-not-reported", desc)
			}
			if !hasEv(ei, "smp:7") && !hasEv(ei, "smp:1") {
				olog.viol("C11", "mismatch-not-reported", desc)
			}
		}
		// ordinary traffic (and thereby key rotation) in between
		for k := 0; k < g.r.Intn(4); k++ {
			p := []*party{n.a, n.b}[g.r.Intn(2)]
			ts, _ := w.send(p, g.cleanText())
			n.l.enqueue(p, ts)
			n.pump(nil)
		}
	}
}

// relay between two separately keyed sessions A<->E1 and E2<->B
func (g *gen) smpRelay(w *world) {
	version := 2 + g.r.Intn(2)
	pol := 2
	if version == 3 {
		pol = 4
	}
	w.parties = map[string]*party{}
	w.dead = false
	a := w.newParty(partyCfg{policies: pol, keyIdx: 0})
	e1 := w.newParty(partyCfg{policies: pol, keyIdx: 2})
	e2 := w.newParty(partyCfg{policies: pol, keyIdx: 2})
	b := w.newParty(partyCfg{policies: pol, keyIdx: 1})
	l1 := &link{w: w, a: a, b: e1}
	l2 := &link{w: w, a: e2, b: b}
	l1.enqueue(a, []otr3.ValidMessage{w.query(a)})
	l1.settle(30)
	l2.enqueue(e2, []otr3.ValidMessage{w.query(e2)})
	l2.settle(30)
	if !a.c.IsEncrypted() || !b.c.IsEncrypted() || !e1.c.IsEncrypted() || !e2.c.IsEncrypted() {
		return
	}
	secret := []byte("the same secret on both ends")
	var evA, evB []string
	// A -> (E1 peeks, E2 re-sends) -> B and back
	forward := func(ms []otr3.ValidMessage, in, out *party, to *party) []otr3.ValidMessage {
		var back []otr3.ValidMessage
		for _, m := range reassembleAll(ms) {
			_, types, values, ok := otr3.VerifPeekTLVs(in.c, m)
			if !ok {
				continue
			}
			var ty []uint16
			var va [][]byte
			for i, t := range types {
				if t >= 2 && t <= 7 {
					ty = append(ty, t)
					va = append(va, values[i])
				}
			}
			if len(ty) == 0 {
				continue
			}
			relayed := w.sendTLVs(out, ty, va)
			for _, r := range relayed {
				_, ts, _, _ := w.recv(to, r)
				if to == a {
					evA = append(evA, smpEvents(lastEvents)...)
				} else {
					evB = append(evB, smpEvents(lastEvents)...)
				}
				back = append(back, ts...)
			}
		}
		return back
	}
	ts, _ := w.smpStart(a, "", secret)
	toE2 := forward(ts, e1, e2, b) // SMP1 reaches B
	_ = toE2
	ts, _ = w.smpSecret(b, secret) // B answers with SMP2
	evB = append(evB, smpEvents(lastEvents)...)
	back := forward(ts, e2, e1, a) // SMP2 reaches A, which answers SMP3 (or aborts)
	back = forward(back, e1, e2, b)
	back = forward(back, e2, e1, a)
	_ = back
	olog.ok("C11")
	if hasEv(evA, "smp:6") || hasEv(evB, "smp:6") {
		olog.viol("C11", "relay-success", fmt.Sprintf("SMP relayed between two separately keyed sessions reported success (OTRv%d): A %v, B %v", version, evA, evB))
	}
}

func (w *world) sendTLVs(p *party, types []uint16, values [][]byte) (ts []otr3.ValidMessage) {
	var err error
	w.sync(p)
	res := guard(func() string {
		ts, err = otr3.VerifSendTLVs(p.c, nil, types, values)
		return fmt.Sprintf("send=%s err=%s", msgsStr(ts), otr3.VerifErrClass(err))
	})
	if res != "PANIC" {
		res += " ev=" + p.drainEvents() + " " + otr3.VerifSnapString(p.c)
	} else {
		w.dead = true
	}
	var args []string
	for i := range types {
		args = append(args, fmt.Sprintf("%d %s", types[i], hx(values[i])))
	}
	w.g.out.emit(fmt.Sprintf("sendtlvs %s - %s%s", p.id, strings.Join(args, " "), p.tail()), res)
	return
}

var bigP = new(big.Int).SetBytes(groupP)
var bigQ = new(big.Int).Rsh(bigP, 1)

// replace / perturb one field of an SMP payload
func (g *gen) deviantPayload(tlvType uint16, value []byte) ([]byte, string) {
	body := value
	var question []byte
	if tlvType == 7 {
		i := bytes.IndexByte(value, 0)
		if i < 0 {
			return nil, ""
		}
		question, body = value[:i+1], value[i+1:]
	}
	_, mpis, ok := otr3.ExtractMPIs(body)
	if !ok || len(mpis) == 0 {
		return nil, ""
	}
	if f := g.forcePlusQ; f != nil && f[1] < len(mpis) {
		// a proof exponent increased by the group order: every zero-knowledge equation still holds (g^(d+q) = g^d in the
		// subgroup), only the range check 1 <= d < q tells it from an honest one
		mpis[f[1]] = new(big.Int).Add(mpis[f[1]], bigQ)
		return append(question, otr3.AppendMPIs(otr3.AppendWord(nil, uint32(len(mpis))), mpis...)...), fmt.Sprintf("field%d=+q", f[1])
	}
	if tlvType == 3 && len(mpis) == 11 && (g.forceDegenerate || g.r.Intn(3) == 0) {
		// SMP message 2 whose Pb and Qb are the same non-trivial multiple of p: every term of the
		// proof that contains them collapses to zero, so cP = H(5, 0, 0) "proves" it for any D5, D6;
		// a receiver that lets the values through then divides by Qb
		k := big.NewInt(int64(2 + g.r.Intn(4)))
		kp := new(big.Int).Mul(bigP, k)
		h := sha256.New()
		h.Write([]byte{5})
		h.Write(otr3.AppendMPI(nil, big.NewInt(0)))
		h.Write(otr3.AppendMPI(nil, big.NewInt(0)))
		mpis[6], mpis[7], mpis[8], mpis[9], mpis[10] = kp, kp, new(big.Int).SetBytes(h.Sum(nil)), big.NewInt(1), big.NewInt(1)
		return append(question, otr3.AppendMPIs(otr3.AppendWord(nil, uint32(len(mpis))), mpis...)...), fmt.Sprintf("Pb=Qb=%dp with cP=H(5,0,0)", k)
	}
	if g.r.Intn(8) == 0 { // one MPI more, the count field says so too
		more := append(append([]*big.Int{}, mpis...), big.NewInt(int64(1+g.r.Intn(1000))))
		return append(question, otr3.AppendMPIs(otr3.AppendWord(nil, uint32(len(more))), more...)...), "one-mpi-more"
	}
	switch g.r.Intn(10) {
	case 0: // one MPI fewer
		mpis = mpis[:len(mpis)-1]
		return append(question, otr3.AppendMPIs(otr3.AppendWord(nil, uint32(len(mpis))), mpis...)...), "one-mpi-fewer"
	case 1: // count field lies
		out := otr3.AppendMPIs(otr3.AppendWord(nil, uint32(len(mpis)+1+g.r.Intn(1000))), mpis...)
		return append(question, out...), "count-too-large"
	case 2: // truncated payload
		return append([]byte{}, value[:g.r.Intn(len(value))]...), "truncated"
	}
	i := g.r.Intn(len(mpis))
	one := big.NewInt(1)
	cands := []*big.Int{big.NewInt(0), one, new(big.Int).Sub(bigP, one), bigP, new(big.Int).Add(bigP, one), bigQ,
		new(big.Int).Add(mpis[i], one), new(big.Int).Sub(mpis[i], one), new(big.Int).SetBytes(g.bytesN(192)), new(big.Int).Sub(bigP, big.NewInt(2)), big.NewInt(2),
		new(big.Int).Add(mpis[i], bigQ), new(big.Int).Add(mpis[i], bigQ), new(big.Int).Add(mpis[i], bigP),
		new(big.Int).Lsh(bigP, 1), new(big.Int).Mul(bigP, big.NewInt(int64(3+g.r.Intn(5))))}
	names := []string{"0", "1", "p-1", "p", "p+1", "q", "+1", "-1", "random", "p-2", "2", "+q", "+q", "+p", "2p", "kp"}
	k := g.r.Intn(len(cands))
	v := cands[k]
	if v.Sign() < 0 {
		v = big.NewInt(0)
	}
	if v.Cmp(mpis[i]) == 0 {
		return nil, ""
	}
	mpis[i] = v
	return append(question, otr3.AppendMPIs(otr3.AppendWord(nil, uint32(len(mpis))), mpis...)...), fmt.Sprintf("field%d=%s", i, names[k])
}

func (g *gen) smpDeviant(w *world) {
	version := 2 + g.r.Intn(2)
	n := g.newSmpNet(w, version)
	if !n.a.c.IsEncrypted() || !n.b.c.IsEncrypted() {
		return
	}
	target := 2 + g.r.Intn(4) // which SMP message type to tamper with (2..5), 7 handled as 2 with question
	if g.forceDegenerate {
		target = 3
	}
	if g.forcePlusQ != nil {
		target = g.forcePlusQ[0]
	}
	q := []string{"", "q?"}[g.r.Intn(2)]
	done := false
	disconnectFirst := false
	var victim *party
	what := ""
	var victimEv []string
	hook := func(to *party, m []byte) [][]byte {
		if done || !isDataWire(m) {
			return [][]byte{m}
		}
		_, types, values, ok := otr3.VerifPeekTLVs(to.c, m)
		if !ok {
			return [][]byte{m}
		}
		for i, t := range types {
			if int(t) == target || target == 2 && t == 7 {
				from := n.a
				if to == n.a {
					from = n.b
				}
				if !g.forceDegenerate && g.forcePlusQ == nil && g.r.Intn(6) == 0 {
					// the genuine SMP TLV, but behind a disconnect TLV in the same message: the session
					// ends, whatever comes after it must not crash the receiver
					done = true
					disconnectFirst = true
					victim = to
					what = fmt.Sprintf("SMP message type %d with a disconnect TLV in front of it", t)
					var out [][]byte
					for _, r := range n.w.sendTLVs(from, []uint16{1, t}, [][]byte{{}, values[i]}) {
						out = append(out, r)
					}
					return out
				}
				dev, w0 := g.deviantPayload(t, values[i])
				if dev == nil {
					return [][]byte{m}
				}
				done = true
				what = fmt.Sprintf("SMP message type %d with %s", t, w0)
				var out [][]byte
				for _, r := range n.w.sendTLVs(from, []uint16{t}, [][]byte{dev}) {
					out = append(out, r)
				}
				// the receiver's events while it handles the deviant message are what the oracle looks at
				before := len(*n.evOf(to))
				defer func() { _ = before }()
				return out
			}
		}
		return [][]byte{m}
	}
	s := []byte("correct horse")
	n.evA, n.evB = nil, nil
	n.honestRun(n.a, n.b, q, s, s, func(to *party, m []byte) [][]byte {
		outs := hook(to, m)
		if done && victimEv == nil && what != "" && len(outs) > 0 && !bytes.Equal(outs[0], m) {
			// deliver here to capture exactly the victim's reaction
			for _, o := range outs {
				_, ts, _, pan := n.w.recv(to, o)
				if pan {
					olog.viol("C12", "smp-panic", fmt.Sprintf("Receive panicked on %s (OTRv%d)", what, version))
					olog.viol("C13", "receive-panics:smp", fmt.Sprintf("Receive panicked on %s (OTRv%d)", what, version))
					return nil
				}
				victimEv = append(victimEv, smpEvents(lastEvents)...)
				n.l.enqueue(to, ts)
			}
			if victimEv == nil {
				victimEv = []string{}
			}
			return nil
		}
		return outs
	})
	if what == "" || w.dead {
		return
	}
	olog.ok("C12")
	g.dist["smp:deviant:"+strings.SplitN(what, " with ", 2)[1]]++
	if hasEv(victimEv, "smp:6") {
		key := "deviant-message-success"
		if strings.HasSuffix(what, "=+q") {
			key = "out-of-range-exponent-success"
		}
		if version == 2 && (strings.HasSuffix(what, "=1") || strings.HasSuffix(what, "=p-1") || strings.HasSuffix(what, "=p+1") || strings.HasSuffix(what, "=p") || strings.HasSuffix(what, "=+p")) {
			key = "otrv2-degenerate-group-element"
		}
		olog.viol("C12", key, fmt.Sprintf("OTRv%d: the receiver of %s reported success: %v", version, what, victimEv))
	}
	if disconnectFirst {
		// the session is over on the receiving side: no recovery run inside it, but in the next one
		if w.dead {
			olog.viol("C12", "smp-panic", fmt.Sprintf("a call panicked after %s", what))
			olog.viol("C13", "receive-panics:smp", fmt.Sprintf("a call panicked after %s", what))
			return
		}
		for _, p := range []*party{n.a, n.b} {
			ts, _ := w.end(p)
			n.l.enqueue(p, ts)
			n.pump(nil)
		}
		w.tick(75)
		n.l.enqueue(n.a, []otr3.ValidMessage{w.query(n.a)})
		n.pump(nil)
		if !n.a.c.IsEncrypted() || !n.b.c.IsEncrypted() || w.dead {
			return
		}
		n.evA, n.evB = nil, nil
		other := n.a
		if victim == n.a {
			other = n.b
		}
		n.honestRun(other, victim, "", s, s, nil) // the peer of the one that got the odd message starts
		if !hasEv(n.evA, "smp:6") || !hasEv(n.evB, "smp:6") {
			olog.viol("C12", "no-recovery-after-deviant-message", fmt.Sprintf("OTRv%d: after %s, End() on both sides and a new key exchange, the first honest run does not succeed: A %v, B %v", version, what, n.evA, n.evB))
		}
		return
	}
	// out-of-sequence user calls must not crash either
	switch g.r.Intn(4) {
	case 0:
		ts, _ := w.smpSecret(n.a, s)
		n.l.enqueue(n.a, ts)
	case 1:
		ts, _ := w.smpAbort(n.b)
		n.l.enqueue(n.b, ts)
	case 2:
		ts, _ := w.smpStart(n.b, "", s)
		n.l.enqueue(n.b, ts)
		ts, _ = w.smpAbort(n.b)
		n.l.enqueue(n.b, ts)
	}
	n.pump(nil)
	if w.dead {
		olog.viol("C12", "smp-panic", fmt.Sprintf("a call panicked after %s", what))
		olog.viol("C13", "receive-panics:smp", fmt.Sprintf("a call panicked after %s", what))
		return
	}
	// recovery: abort whatever is left, then a fresh honest run must succeed
	ts, _ := w.smpAbort(n.a)
	n.l.enqueue(n.a, ts)
	ts, _ = w.smpAbort(n.b)
	n.l.enqueue(n.b, ts)
	n.pump(nil)
	n.evA, n.evB = nil, nil
	n.honestRun(n.b, n.a, "", s, s, nil)
	if !hasEv(n.evA, "smp:6") || !hasEv(n.evB, "smp:6") {
		olog.viol("C12", "no-recovery-after-deviant-message", fmt.Sprintf("OTRv%d: after %s and aborts a fresh honest run did not succeed: A %v, B %v", version, what, n.evA, n.evB))
	}
}

// a secret as it appears in an oracle message: the 480 byte one is abbreviated
func sq(b []byte) string {
	long := bytes.Repeat([]byte("long secret "), 40)
	if len(b) != len(long) {
		if i := bytes.Index(b, long); i >= 0 && len(b) > len(long) {
			return fmt.Sprintf(`%q + "long secret "x40 + %q`, b[:i], b[i+len(long):])
		}
		return fmt.Sprintf("%q", b)
	}
	d := ""
	for i := range b {
		if b[i] != long[i] {
			d += fmt.Sprintf(" with byte %d = %#02x", i, b[i])
		}
	}
	return `"long secret "x40` + d
}

// two secrets that differ (in one bit, or empty / one zero byte)
func (g *gen) differentSecrets() ([]byte, []byte) {
	for {
		if s1, s2, equal := g.secretPair(); !equal {
			return s1, s2
		}
	}
}

// C11: a StartAuthenticate call that is refused (question with a NUL byte: error, nothing sent) in the
// middle of a run of the same party is a no-op - the run in progress ends as its own two secrets say.
//
//	round "equal":  run with secret s on both sides, the refused call carries another secret -> success
//	round "mirror": run with s / s', the refused call carries the responder's s'            -> no success
func (g *gen) smpRefusedMidRun(w *world) {
	version := 2 + g.r.Intn(2)
	n := g.newSmpNet(w, version)
	if !n.a.c.IsEncrypted() || !n.b.c.IsEncrypted() {
		return
	}
	first := g.r.Intn(2)
	for round := 0; round < 2 && !w.dead; round++ {
		equal := round == first
		ini, res := n.a, n.b
		if g.r.Intn(2) == 0 {
			ini, res = n.b, n.a
		}
		sIni, other := g.differentSecrets()
		sRes := other // mirror: the refused call carries the responder's secret
		if equal {
			sRes = sIni
		}
		q := []string{"", "what is it?"}[g.r.Intn(2)]
		badQ := []string{"who\x00are you", "\x00", q + "\x00", "\x00" + q}[g.r.Intn(4)]
		when := g.r.Intn(2)
		g.dist[fmt.Sprintf("smp:refused-mid-run:equal=%v:when%d", equal, when)]++
		*n.evOf(ini), *n.evOf(res) = nil, nil
		ts, _ := n.w.smpStart(ini, q, sIni)
		n.note(ini)
		n.l.enqueue(ini, ts)
		if when == 1 { // the peer has been asked already; otherwise the request is still on its way
			n.pump(nil)
		}
		// every other round the call is refused for another reason: the question is fine, but the
		// randomness source fails at the first draw of the new run
		randFails := g.r.Intn(2) == 0
		if randFails {
			badQ = q
			ini.rnd.failAt = ini.rnd.reads
		}
		ts, err := n.w.smpStart(ini, badQ, other)
		ini.rnd.failAt = -1
		n.note(ini)
		olog.ok("C11")
		if randFails && (err == nil || len(ts) > 0) {
			// (the read that was to fail was not the one the call makes first: nothing to check here)
			n.l.enqueue(ini, ts)
			n.pump(nil)
			for _, p := range []*party{ini, res} {
				ts, _ = n.w.smpAbort(p)
				n.l.enqueue(p, ts)
				n.pump(nil)
			}
			continue
		}
		if !randFails && (err == nil || len(ts) > 0) {
			olog.viol("C11", "question-with-nul-accepted", fmt.Sprintf("OTRv%d: StartAuthenticate(%q, %s) during a run accepts a question containing a NUL byte (%d messages, err %v)", version, badQ, sq(other), len(ts), err))
			n.l.enqueue(ini, ts)
			n.pump(nil)
			for _, p := range []*party{ini, res} {
				ts, _ = n.w.smpAbort(p)
				n.l.enqueue(p, ts)
				n.pump(nil)
			}
			continue
		}
		n.pump(nil)
		if w.dead || !res.c.IsEncrypted() {
			return
		}
		ts, _ = n.w.smpSecret(res, sRes)
		n.note(res)
		n.l.enqueue(res, ts)
		n.pump(nil)
		if w.dead {
			return
		}
		olog.ok("C11")
		ei, er := *n.evOf(ini), *n.evOf(res)
		where := "while the request is on its way"
		if when == 1 {
			where = "after the peer has been asked"
		}
		desc := fmt.Sprintf("OTRv%d: StartAuthenticate(%q, %s) by %s; %s the same party calls StartAuthenticate(%q, %s), which is refused (%v, nothing sent); then %s answers %s (secrets of the run equal=%v): initiator events %v, responder events %v",
			version, q, sq(sIni), ini.id, where, badQ, sq(other), err, res.id, sq(sRes), equal, ei, er)
		if equal {
			if !hasEv(ei, "smp:6") || !hasEv(er, "smp:6") {
				olog.viol("C11", "equal-secrets-no-success", desc)
			}
		} else {
			if hasEv(ei, "smp:6") || hasEv(er, "smp:6") {
				olog.viol("C11", "unequal-secrets-success", desc)
			}
			if !hasEv(er, "smp:7") || !hasEv(ei, "smp:7") && !hasEv(ei, "smp:1") {
				olog.viol("C11", "mismatch-not-reported", desc)
			}
		}
	}
}

// C12: a user call in an SMP state that does not expect it - StartAuthenticate while a run of the caller
// is under way - may abort that run, but the next complete honest run with equal secrets (whoever
// starts it, without any explicit abort) succeeds on both sides, and a restarted run answered with
// another secret reports no success.
//
// force >= 0 chooses the variant: 2 is "the party that has been asked starts a run of its own instead of
// answering" (its run, answered with the same secret, has to succeed), 5 is a message out of sequence -
// a second SMP message 1, authentic and not preceded by an abort, reaching the party that has been asked
// for the secret and has not answered yet: it has to be called off (error or cheating reported, abort
// sent back), and the fresh run after it succeeds.
func (g *gen) smpOutOfSequence(w *world, idx int, force int) {
	version := 2 + g.r.Intn(2)
	n := g.newSmpNet(w, version)
	if !n.a.c.IsEncrypted() || !n.b.c.IsEncrypted() {
		return
	}
	ini, res := n.a, n.b
	if g.r.Intn(2) == 0 {
		ini, res = n.b, n.a
	}
	s, wrong := g.differentSecrets()
	q := []string{"", "what is it?"}[g.r.Intn(2)]
	variant := 0
	if idx%2 == 1 {
		variant = 1 + g.r.Intn(3)
	}
	if idx%4 == 2 {
		variant = 4
	}
	if force >= 0 {
		variant = force
	}
	caller, asked := ini, res // of the restarted run
	story := ""
	n.evA, n.evB = nil, nil
	ts, _ := n.w.smpStart(ini, q, []byte("first attempt"))
	switch variant {
	case 0:
		story = fmt.Sprintf("%s calls StartAuthenticate(%q, \"first attempt\"), the request is lost; %s calls StartAuthenticate(%q, %s)", ini.id, q, ini.id, q, sq(s))
	case 1:
		n.l.enqueue(ini, ts)
		n.pump(nil)
		story = fmt.Sprintf("%s calls StartAuthenticate(%q, \"first attempt\"), %s is asked; before the answer %s calls StartAuthenticate(%q, %s)", ini.id, q, res.id, ini.id, q, sq(s))
	case 2:
		n.l.enqueue(ini, ts)
		n.pump(nil)
		caller, asked = res, ini
		story = fmt.Sprintf("%s calls StartAuthenticate(%q, \"first attempt\"), %s is asked and instead of answering calls StartAuthenticate(%q, %s)", ini.id, q, res.id, q, sq(s))
	case 3:
		n.l.enqueue(ini, ts)
		n.pump(nil)
		n.w.smpSecret(res, []byte("first attempt")) // the answer (SMP message 2) is lost
		caller, asked = res, ini
		story = fmt.Sprintf("%s calls StartAuthenticate(%q, \"first attempt\"), %s answers \"first attempt\", the answer is lost; %s calls StartAuthenticate(%q, %s)", ini.id, q, res.id, res.id, q, sq(s))
	case 4:
		// the party that asked answers its own question: nobody asked it for a secret
		n.l.enqueue(ini, ts)
		n.pump(nil)
		_, err := n.w.smpSecret(ini, s)
		story = fmt.Sprintf("%s calls StartAuthenticate(%q, \"first attempt\"), %s is asked; %s calls ProvideAuthenticationSecret(%s) although nobody asked it (err %v)", ini.id, q, res.id, ini.id, sq(s), err)
		olog.ok("C12")
		if err == nil {
			olog.viol("C12", "unexpected-answer-accepted", fmt.Sprintf("OTRv%d: %s", version, story))
		}
	case 5:
		// the request as it travels: type and payload of its SMP TLV
		var t0 uint16
		var v0 []byte
		if len(ts) == 1 {
			if _, types, values, ok := otr3.VerifPeekTLVs(res.c, ts[0]); ok {
				for i, t := range types {
					if t == 2 || t == 7 {
						t0, v0 = t, values[i]
					}
				}
			}
		}
		n.l.enqueue(ini, ts)
		n.pump(nil)
		askedFirst := hasEv(*n.evOf(res), "smp:3") || hasEv(*n.evOf(res), "smp:4")
		if v0 == nil || !askedFirst || w.dead {
			return // (no request to repeat: nothing to judge here)
		}
		// the second request: the same one again, or the same numbers with the question added / changed /
		// taken away
		t1, v1, how := t0, v0, "the same request again"
		mpis := v0
		if t0 == 7 {
			mpis = v0[bytes.IndexByte(v0, 0)+1:]
		}
		switch g.r.Intn(3) {
		case 1:
			t1, v1, how = 7, append([]byte("once more?\x00"), mpis...), `the same numbers with the question "once more?"`
		case 2:
			t1, v1, how = 2, mpis, "the same numbers without a question"
		}
		second := n.w.sendTLVs(ini, []uint16{t1}, [][]byte{v1})
		var ev []string
		abortSent := false
		for _, m := range second {
			_, back, _, pan := n.w.recv(res, m)
			if pan {
				olog.viol("C12", "smp-panic", fmt.Sprintf("OTRv%d: Receive panicked on a second SMP message 1 (%s) while the user has not answered the first", version, how))
				olog.viol("C13", "receive-panics:smp", fmt.Sprintf("OTRv%d: Receive panicked on a second SMP message 1 (%s) while the user has not answered the first", version, how))
				return
			}
			ev = append(ev, smpEvents(lastEvents)...)
			for _, bm := range back {
				if _, types, _, ok := otr3.VerifPeekTLVs(ini.c, bm); ok {
					for _, t := range types {
						if t == 6 {
							abortSent = true
						}
					}
				}
			}
			n.l.enqueue(res, back)
		}
		story = fmt.Sprintf("%s calls StartAuthenticate(%q, \"first attempt\"), %s is asked and has not answered yet when a second SMP message 1 from %s arrives (TLV type %d, %s, %d bytes, in an authentic data message of its own, no abort before it): %s reports %v, abort sent back: %v",
			ini.id, q, res.id, ini.id, t1, how, len(v1), res.id, ev, abortSent)
		olog.ok("C12")
		if hasEv(ev, "smp:6") {
			olog.viol("C12", "out-of-sequence-message-success", fmt.Sprintf("OTRv%d: %s", version, story))
		}
		if !(hasEv(ev, "smp:0") || hasEv(ev, "smp:2")) || !abortSent {
			olog.viol("C12", "out-of-sequence-message-not-aborted", fmt.Sprintf("OTRv%d: %s (expected: error or cheating reported and the run called off with an SMP abort)", version, story))
		}
		n.pump(nil)
	}
	if w.dead {
		olog.viol("C12", "smp-panic", "a call panicked: "+story)
		return
	}
	follow := g.r.Intn(3)
	if force == 2 {
		follow = 1
	}
	if variant == 4 || variant == 5 {
		follow = 0 // no restarted run: straight on to the fresh one
	} else {
		ts, _ = n.w.smpStart(caller, q, s)
		n.l.enqueue(caller, ts)
		n.pump(nil)
	}
	g.dist[fmt.Sprintf("smp:out-of-sequence:variant%d:follow%d", variant, follow)]++
	switch follow {
	case 0:
		story += "; nobody answers"
	case 1, 2:
		ans := s
		if follow == 2 {
			ans = wrong
		}
		n.evA, n.evB = nil, nil
		ts, err := n.w.smpSecret(asked, ans)
		n.note(asked)
		n.l.enqueue(asked, ts)
		n.pump(nil)
		story += fmt.Sprintf("; %s answers %s (err %v)", asked.id, sq(ans), err)
		if follow == 1 {
			// the run started by the out-of-sequence call is a fresh run with equal secrets
			olog.ok("C12")
			if !w.dead && (!hasEv(n.evA, "smp:6") || !hasEv(n.evB, "smp:6")) {
				olog.viol("C12", "no-recovery-after-out-of-sequence-call", fmt.Sprintf("OTRv%d: %s: the run started by that call, answered with the same secret, does not succeed: %s events %v, %s events %v",
					version, story, n.a.id, n.evA, n.b.id, n.evB))
			}
		}
		if follow == 2 {
			olog.ok("C12")
			if hasEv(n.evA, "smp:6") || hasEv(n.evB, "smp:6") {
				olog.viol("C12", "out-of-sequence-call-success", fmt.Sprintf("OTRv%d: %s: success reported with different secrets: %s %v, %s %v", version, story, n.a.id, n.evA, n.b.id, n.evB))
			}
		}
	}
	if w.dead {
		olog.viol("C12", "smp-panic", "a call panicked: "+story)
		olog.viol("C13", "receive-panics:smp", "a call panicked: "+story)
		return
	}
	// the next complete honest run
	fi, fr := n.a, n.b
	if g.r.Intn(2) == 0 {
		fi, fr = n.b, n.a
	}
	if variant == 4 {
		fi, fr = ini, res // the party whose call was refused simply tries again
	}
	s2, _, _ := g.secretPair()
	q2 := []string{"", "and now?"}[g.r.Intn(2)]
	n.evA, n.evB = nil, nil
	n.honestRun(fi, fr, q2, s2, s2, nil)
	olog.ok("C12")
	if w.dead {
		olog.viol("C12", "smp-panic", "a call panicked in the run after: "+story)
		olog.viol("C13", "receive-panics:smp", "a call panicked in the run after: "+story)
		return
	}
	if !hasEv(n.evA, "smp:6") || !hasEv(n.evB, "smp:6") {
		olog.viol("C12", "no-recovery-after-out-of-sequence-call", fmt.Sprintf("OTRv%d: %s; then a fresh run, %s calls StartAuthenticate(%q, %s) and %s answers the same secret, does not succeed: %s events %v, %s events %v",
			version, story, fi.id, q2, sq(s2), fr.id, n.a.id, n.evA, n.b.id, n.evB))
	}
}

// C11 with questions at the edge of what fits into a TLV. The question travels NUL terminated in front of
// the MPI count and six MPIs of an SMP1Q TLV, whose length field has 16 bits: StartAuthenticate refuses
// what cannot fit. The longest question it accepts is found by probing (once per harness run; the
// estimate from the wire format only says where to look first).
var smpMaxQuestion = -1
var smpMaxConfirmed = false

var longQuestionPhrases = []string{"what is it? ", "q", "wer bist d\xfc? ", "\x01\xff"}

func longQuestion(phrase string, l int) string {
	return strings.Repeat(phrase, l/len(phrase)+1)[:l]
}

// is a question of l bytes accepted by p's StartAuthenticate? (no run in progress on either side; a run
// that the call starts is delivered and called off again)
func (n *smpNet) questionAccepted(p *party, phrase string, l int) bool {
	ts, err := n.w.smpStart(p, longQuestion(phrase, l), []byte("probe"))
	if err != nil && len(ts) == 0 {
		return false
	}
	n.l.enqueue(p, ts)
	n.pump(nil)
	ts, _ = n.w.smpAbort(p)
	n.l.enqueue(p, ts)
	n.pump(nil)
	return true
}

func (n *smpNet) probeMaxQuestion(p *party, phrase string) int {
	if smpMaxQuestion >= 0 {
		return smpMaxQuestion
	}
	guess := 0xffff - 1 - 4 - 6*(4+192)
	if !n.questionAccepted(p, phrase, guess+1) {
		// one byte more is refused; that this length is accepted shows when the first run starts
		// (searchMaxQuestion if it is not)
		smpMaxQuestion, smpMaxConfirmed = guess, false
		return guess
	}
	return n.searchMaxQuestion(p, phrase)
}

func (n *smpNet) searchMaxQuestion(p *party, phrase string) int {
	lo, hi := 0, 1<<17 // accepted (no question at all), refused (longer than any TLV)
	for hi-lo > 1 && !n.w.dead {
		mid := (lo + hi) / 2
		if n.questionAccepted(p, phrase, mid) {
			lo = mid
		} else {
			hi = mid
		}
	}
	smpMaxQuestion, smpMaxConfirmed = lo, true
	return lo
}

// honest runs whose question is as long as StartAuthenticate lets it be, one or two bytes shorter, or one
// byte longer (refused: nothing is sent, no run): equal secrets -> success on both sides, different
// secrets -> failure. The first two scenarios of a harness run use the longest question and equal secrets,
// one in each version.
func (g *gen) smpLongQuestion(w *world, idx int, v0 int) {
	version := 2 + (v0+idx)%2
	n := g.newSmpNet(w, version)
	if !n.a.c.IsEncrypted() || !n.b.c.IsEncrypted() {
		return
	}
	ini, res := n.a, n.b
	if g.r.Intn(2) == 0 {
		ini, res = n.b, n.a
	}
	phrase := longQuestionPhrases[g.r.Intn(len(longQuestionPhrases))]
	max := n.probeMaxQuestion(ini, phrase)
	if w.dead {
		return
	}
	// one byte more than the longest: refused, nothing sent, and the call leaves no trace - the run that
	// follows is the first the peer hears of
	if idx > 0 {
		ts, err := n.w.smpStart(ini, longQuestion(phrase, max+1), []byte("too long to ask"))
		if err == nil || len(ts) > 0 {
			// (refused when probed: the answer depends on something else than the length; not for C11 to
			// judge - the run it started is called off)
			g.dist["smp:long-question:limit-unstable"]++
			n.l.enqueue(ini, ts)
			n.pump(nil)
			ts, _ = n.w.smpAbort(ini)
			n.l.enqueue(ini, ts)
			n.pump(nil)
		}
	}
	l, equal := max, true
	if idx >= 2 {
		l = max - g.r.Intn(3)
		equal = g.r.Intn(2) == 0
	}
	if !smpMaxConfirmed {
		l = max
	}
	s1, s2 := g.differentSecrets()
	if equal {
		s2 = s1
	}
	g.dist[fmt.Sprintf("smp:long-question:v%d:max-%d:equal=%v", version, max-l, equal)]++
	*n.evOf(ini), *n.evOf(res) = nil, nil
	ts, err := n.w.smpStart(ini, longQuestion(phrase, l), s1)
	if err != nil && len(ts) == 0 && !smpMaxConfirmed {
		// the estimate was too high: search, and start the run with what the search finds
		max = n.searchMaxQuestion(ini, phrase)
		l = max
		ts, err = n.w.smpStart(ini, longQuestion(phrase, l), s1)
	}
	if w.dead {
		return
	}
	if err != nil && len(ts) == 0 {
		g.dist["smp:long-question:limit-unstable"]++ // no run: nothing for C11 to judge
		return
	}
	if l == max {
		smpMaxConfirmed = true
	}
	n.note(ini)
	n.l.enqueue(ini, ts)
	n.pump(nil)
	if w.dead || !res.c.IsEncrypted() {
		return
	}
	ts, _ = n.w.smpSecret(res, s2)
	n.note(res)
	n.l.enqueue(res, ts)
	n.pump(nil)
	if w.dead {
		return
	}
	olog.ok("C11")
	ei, er := *n.evOf(ini), *n.evOf(res)
	desc := fmt.Sprintf("OTRv%d: %s calls StartAuthenticate with a question of %d bytes (%q repeated and cut; the longest question the call accepts has %d bytes) and secret %s, %s answers %s (equal=%v): initiator events %v, responder events %v",
		version, ini.id, l, phrase, max, sq(s1), res.id, sq(s2), equal, ei, er)
	if equal {
		if !hasEv(ei, "smp:6") || !hasEv(er, "smp:6") {
			olog.viol("C11", "equal-secrets-no-success", desc)
		}
	} else {
		if hasEv(ei, "smp:6") || hasEv(er, "smp:6") {
			olog.viol("C11", "unequal-secrets-success", desc)
		}
		if !hasEv(er, "smp:7") || !hasEv(ei, "smp:7") && !hasEv(ei, "smp:1") {
			olog.viol("C11", "mismatch-not-reported", desc)
		}
	}
}

// C17 (and C11): an SMP request with a question that is the empty string. The serialiser writes it as TLV
// type 7 whose value starts with the terminating NUL (libotr sends this for otrl_message_initiate_smp_q
// with ""); StartAuthenticate itself never does, so the request is re-encoded from a genuine one: the
// initiator's own SMP message 1 (type 2) is held back and its six numbers travel behind an empty question
// in an authentic data message. The receiver has to read back what was written: it asks its user for the
// answer, the question it reports is "" (present), and the run ends as the two secrets say.
func (g *gen) smpEmptyQuestion(w *world) {
	version := 2 + g.r.Intn(2)
	n := g.newSmpNet(w, version)
	if !n.a.c.IsEncrypted() || !n.b.c.IsEncrypted() {
		return
	}
	ini, res := n.a, n.b
	if g.r.Intn(2) == 0 {
		ini, res = n.b, n.a
	}
	s1, s2, equal := g.secretPair()
	// From here on the calls are made directly (not written to the trace: the trace format renders an
	// absent and an empty question alike); the two conversations are not used again afterwards.
	ev := map[*party]*[]string{ini: {}, res: {}}
	panicked := false
	call := func(p *party, f func() ([]otr3.ValidMessage, error)) (ts []otr3.ValidMessage, err error) {
		if guard(func() string { ts, err = f(); return "" }) == "PANIC" {
			panicked = true
		}
		*ev[p] = append(*ev[p], smpEvents(p.drainEvents())...)
		return
	}
	deliver := func(from *party, ms []otr3.ValidMessage) {
		type item struct {
			to *party
			m  otr3.ValidMessage
		}
		peer := map[*party]*party{ini: res, res: ini}
		var q []item
		for _, m := range ms {
			q = append(q, item{peer[from], m})
		}
		for i := 0; i < 50 && len(q) > 0 && !panicked; i++ {
			it := q[0]
			q = q[1:]
			back, _ := call(it.to, func() ([]otr3.ValidMessage, error) {
				_, ts, err := it.to.c.Receive(it.m)
				return ts, err
			})
			for _, m := range back {
				q = append(q, item{peer[it.to], m})
			}
		}
	}
	ts, _ := call(ini, func() ([]otr3.ValidMessage, error) { return ini.c.StartAuthenticate("", s1) })
	var v0 []byte
	if len(ts) == 1 {
		if _, types, values, ok := otr3.VerifPeekTLVs(res.c, ts[0]); ok {
			for i, t := range types {
				if t == 2 {
					v0 = values[i]
				}
			}
		}
	}
	if v0 == nil || panicked {
		return
	}
	g.dist[fmt.Sprintf("smp:empty-question:v%d:equal=%v", version, equal)]++
	v1 := append([]byte{0}, v0...)
	ts, _ = call(ini, func() ([]otr3.ValidMessage, error) { return otr3.VerifSendTLVs(ini.c, nil, []uint16{7}, [][]byte{v1}) })
	deliver(ini, ts)
	input := fmt.Sprintf("OTRv%d: SMP message 1 with the empty question (TLV type 7, %d bytes: 00 followed by the count and the six numbers of %s's genuine request, %.24s…), sent by %s in an authentic data message", version, len(v1), ini.id, hx(v0), ini.id)
	if panicked {
		olog.viol("C13", "receive-panics:smp", input+": Receive panicked")
		return
	}
	qGot, qSet := res.c.SMPQuestion()
	olog.ok("C17")
	if !hasEv(*ev[res], "smp:3") || !qSet || qGot != "" {
		olog.viol("C17", "empty-question-refused", fmt.Sprintf("%s: the serialised request does not read back as what was written - %s reports %v, SMPQuestion() = (%q, %v); expected: asked for the answer, question \"\" present",
			input, res.id, *ev[res], qGot, qSet))
	}
	if !res.c.IsEncrypted() {
		return
	}
	ts, err := call(res, func() ([]otr3.ValidMessage, error) { return res.c.ProvideAuthenticationSecret(s2) })
	deliver(res, ts)
	if panicked {
		olog.viol("C13", "receive-panics:smp", input+": a call panicked in the run that follows")
		return
	}
	olog.ok("C11")
	ei, er := *ev[ini], *ev[res]
	desc := fmt.Sprintf("%s (secret %s); %s answers %s (err %v, equal=%v): initiator events %v, responder events %v", input, sq(s1), res.id, sq(s2), err, equal, ei, er)
	if equal {
		if !hasEv(ei, "smp:6") || !hasEv(er, "smp:6") {
			olog.viol("C11", "equal-secrets-no-success", desc)
		}
	} else {
		if hasEv(ei, "smp:6") || hasEv(er, "smp:6") {
			olog.viol("C11", "unequal-secrets-success", desc)
		}
		if !hasEv(er, "smp:7") || !hasEv(ei, "smp:7") && !hasEv(ei, "smp:1") {
			olog.viol("C11", "mismatch-not-reported", desc)
		}
	}
}

// ---------------------------------------------------------------------------------------------------
// C11: the application replaces the conversation's list of long-term keys (SetOurKeys) while a session is
// established - a new key was generated or imported and the client pushes the new list to its open
// conversations. The session is what it was (the peer authenticated the key that signed the key exchange
// and still holds it), so an SMP run in it ends as its two secrets say: equal -> success on both sides,
// different -> no success, mismatch reported.
//
// There is no trace op for SetOurKeys: the call is made directly on the library object. The model keeps
// the key the exchange was signed with (ourCurrentKey) apart from the list, and no key exchange follows in
// these conversations, so its state is not concerned.
func (g *gen) smpKeysReplaced(w *world, idx, o int) {
	version := 2 + (idx+o)%2
	n := g.newSmpNet(w, version)
	if !n.a.c.IsEncrypted() || !n.b.c.IsEncrypted() {
		return
	}
	x, y := n.a, n.b // x: the party whose application replaces the list
	if ((idx+o)/2)%2 == 1 {
		x, y = n.b, n.a
	}
	variant := []int{0, 1, 3, 0, 1, 2}[idx%6]
	if g.r.Intn(3) == 0 {
		// a run before the call
		s, _, _ := g.secretPair()
		*n.evOf(x), *n.evOf(y) = nil, nil
		n.honestRun(y, x, "", s, s, nil)
		olog.ok("C11")
		if !w.dead && (!hasEv(n.evA, "smp:6") || !hasEv(n.evB, "smp:6")) {
			olog.viol("C11", "equal-secrets-no-success", fmt.Sprintf("OTRv%d, run started by %s with equal secrets %s: %s events %v, %s events %v", version, y.id, sq(s), n.a.id, n.evA, n.b.id, n.evB))
		}
	}
	if w.dead || !n.a.c.IsEncrypted() || !n.b.c.IsEncrypted() {
		return
	}
	fresh := func(k int) otr3.PrivateKey { return &oracleKey{DSAPrivateKey: testKeys[k], failAt: -1} }
	var list []otr3.PrivateKey
	listStr := ""
	switch variant {
	case 0: // the new key first, the old one kept
		list, listStr = []otr3.PrivateKey{fresh(2), x.key}, fmt.Sprintf("[key 2, key %d]", x.keyIdx)
	case 1: // the old key is gone from the list
		list, listStr = []otr3.PrivateKey{fresh(2)}, "[key 2]"
	case 2: // the new key behind the old one
		list, listStr = []otr3.PrivateKey{x.key, fresh(2)}, fmt.Sprintf("[key %d, key 2]", x.keyIdx)
	case 3: // two new keys in front (one of them happens to be the peer's)
		list, listStr = []otr3.PrivateKey{fresh(y.keyIdx), fresh(2), x.key}, fmt.Sprintf("[key %d, key 2, key %d]", y.keyIdx, x.keyIdx)
	}
	fpBefore := ""
	if k := y.c.GetTheirKey(); k != nil {
		fpBefore = hx(k.Fingerprint())
	}
	ssidBefore := hx(otr3.VerifSnapshot(x.c).SSID)
	x.c.SetOurKeys(list)
	g.dist[fmt.Sprintf("smp:keys-replaced:v%d:variant%d", version, variant)]++
	// the session is untouched: texts flow in both directions
	for _, p := range []*party{x, y} {
		ts, _ := w.send(p, g.cleanText())
		n.l.enqueue(p, ts)
		n.pump(nil)
	}
	fpAfter := ""
	if k := y.c.GetTheirKey(); k != nil {
		fpAfter = hx(k.Fingerprint())
	}
	if w.dead || !x.c.IsEncrypted() || !y.c.IsEncrypted() || fpBefore != fpAfter || ssidBefore != hx(otr3.VerifSnapshot(x.c).SSID) {
		return // (not the same session any more: nothing for C11 to judge)
	}
	story := fmt.Sprintf("OTRv%d session between %s (key %d) and %s (key %d); the application of %s calls SetOurKeys(%s) on the established conversation (same session id %s, %s still holds fingerprint %s); then", version, n.a.id, n.a.keyIdx, n.b.id, n.b.keyIdx, x.id, listStr, ssidBefore, y.id, fpAfter)
	first := g.r.Intn(2)
	for round := 0; round < 2 && !w.dead; round++ {
		ini, res := x, y
		if round == first {
			ini, res = y, x
		}
		s1, s2, equal := g.secretPair()
		if round == 0 {
			s2, equal = append([]byte{}, s1...), true
		}
		q := []string{"", "what is it?"}[g.r.Intn(2)]
		*n.evOf(ini), *n.evOf(res) = nil, nil
		n.honestRun(ini, res, q, s1, s2, nil)
		if w.dead {
			return
		}
		olog.ok("C11")
		ei, er := *n.evOf(ini), *n.evOf(res)
		desc := fmt.Sprintf("%s %s calls StartAuthenticate(%q, %s) and %s answers %s (secrets equal=%v): initiator events %v, responder events %v", story, ini.id, q, sq(s1), res.id, sq(s2), equal, ei, er)
		if equal {
			if !hasEv(ei, "smp:6") || !hasEv(er, "smp:6") {
				olog.viol("C11", "equal-secrets-no-success", desc)
			}
		} else {
			if hasEv(ei, "smp:6") || hasEv(er, "smp:6") {
				olog.viol("C11", "unequal-secrets-success", desc)
			}
			if !hasEv(er, "smp:7") || !hasEv(ei, "smp:7") && !hasEv(ei, "smp:1") {
				olog.viol("C11", "mismatch-not-reported", desc)
			}
		}
		story += fmt.Sprintf(" (after a run started by %s, equal=%v)", ini.id, equal)
	}
}

// ---------------------------------------------------------------------------------------------------
// C12: a peer that does NOT know the secret and sends SMP messages made of degenerate group elements -
// the identity, the element of order two and zero, each in several representations (1, p+1, 2p+1, 3p+1;
// p-1, 2p-1; 0, p, 2p) - together with zero knowledge proofs computed to be consistent with them:
//
//	identity:  g = 1 is g1^0, so c = H(ix, g1^r), d = r proves it; with g2 = g3 = 1 the secret drops
//	           out of P and Q and of the final comparison;
//	order two: c = H(ix, ±g1^r) with the sign that matches the parity of c (found by trying), d = r; the
//	           run then goes through if the victim's exponent happens to be even (a guess);
//	zero:      every term that contains the element is zero, c = H(ix, 0), any d.
//
// The messages are authentic (sent through the attacker's end of the session with VerifSendTLVs); nothing
// in them depends on the victim's secret. The attacker's own conversation only serves as the channel: what
// the victim sends back is read (VerifPeekTLVs) and not delivered. Whatever the victim does with such a
// message, it must not tell its user that the peer knows the secret.
type smpForger struct {
	g     *gen
	class int         // 1: identity, -1: order two, 0: zero
	u     [4]*big.Int // the representations used for g2x, g3x, Px, Rx
	names [4]string
}

func smpH(ix byte, mpis ...*big.Int) *big.Int {
	h := sha256.New()
	h.Write([]byte{ix})
	for _, m := range mpis {
		h.Write(otr3.AppendMPI(nil, m))
	}
	return new(big.Int).SetBytes(h.Sum(nil))
}

func smpValue(mpis ...*big.Int) []byte {
	return otr3.AppendMPIs(otr3.AppendWord(nil, uint32(len(mpis))), mpis...)
}

var bigG1 = big.NewInt(2)

func g1pow(e *big.Int) *big.Int { return new(big.Int).Exp(bigG1, e, bigP) }
func negP(x *big.Int) *big.Int  { return new(big.Int).Mod(new(big.Int).Neg(x), bigP) }

// an exponent 1 <= e < q
func (g *gen) smpExp() *big.Int {
	e := new(big.Int).SetBytes(g.bytesN(190))
	if e.Sign() == 0 {
		e.SetInt64(1)
	}
	return e
}

// proof of knowledge of the logarithm of a degenerate element (messages 1 and 2)
func (f *smpForger) zkp(ix byte) (c, d *big.Int) {
	switch f.class {
	case 0:
		return smpH(ix, big.NewInt(0)), big.NewInt(1)
	case 1:
		r := f.g.smpExp()
		return smpH(ix, g1pow(r)), r
	}
	for {
		r := f.g.smpExp()
		t := g1pow(r)
		if c = smpH(ix, t); c.Bit(0) == 0 {
			return c, r
		}
		if c = smpH(ix, negP(t)); c.Bit(0) == 1 {
			return c, r
		}
	}
}

// the proof that goes with R (messages 3 and 4): cR = H(ix, g1^d7 * g3x^cR, (Qa/Qb)^d7 * Rx^cR)
func (f *smpForger) zkpR(ix byte, qaqb *big.Int) (c, d *big.Int) {
	switch f.class {
	case 0:
		return smpH(ix, big.NewInt(0), big.NewInt(0)), big.NewInt(1)
	case 1:
		r := f.g.smpExp()
		return smpH(ix, g1pow(r), new(big.Int).Exp(qaqb, r, bigP)), r
	}
	for {
		r := f.g.smpExp()
		a, b := g1pow(r), new(big.Int).Exp(qaqb, r, bigP)
		if c = smpH(ix, a, b); c.Bit(0) == 0 {
			return c, r
		}
		if c = smpH(ix, negP(a), negP(b)); c.Bit(0) == 1 {
			return c, r
		}
	}
}

// P, Q and their proof (messages 2 and 3): cP = H(ix, g3^d5 * P^cP, g1^d5 * g2^d6 * Q^cP) with g2 = g3 = 1
// (for the element of order two: if the victim's exponent is even; d6 is even so that g2 does not matter)
func (f *smpForger) pq(ix byte) (pp, qq, cp, d5, d6 *big.Int) {
	if f.class == 0 {
		return f.u[2], f.u[2], smpH(ix, big.NewInt(0), big.NewInt(0)), big.NewInt(1), big.NewInt(1)
	}
	pp = f.u[2]
	if f.class == -1 {
		pp = new(big.Int).Add(f.u[2], big.NewInt(2)) // the identity in the same representation
	}
	r4, r5 := f.g.smpExp(), f.g.smpExp()
	qq = g1pow(r4)
	cp = smpH(ix, big.NewInt(1), g1pow(r5))
	d5 = new(big.Int).Mod(new(big.Int).Sub(r5, new(big.Int).Mul(r4, cp)), bigQ)
	d6 = new(big.Int).Lsh(f.g.smpExp(), 1)
	d6.Mod(d6, bigQ)
	d6.SetBit(d6, 0, 0)
	if d6.Sign() == 0 {
		d6.SetInt64(2)
	}
	return
}

func (f *smpForger) quotient(qa, qb *big.Int) *big.Int {
	inv := new(big.Int).ModInverse(qb, bigP)
	if inv == nil {
		return big.NewInt(0)
	}
	return inv.Mul(inv, qa).Mod(inv, bigP)
}

func (f *smpForger) describe(role int) string {
	fields := [2][4]string{{"g2a", "g3a", "Pa", "Ra"}, {"g2b", "g3b", "Pb", "Rb"}}[role]
	var s []string
	for i := range fields {
		nm := f.names[i]
		if i == 2 && f.class == -1 {
			nm += "+2"
		}
		s = append(s, fields[i]+"="+nm)
	}
	return strings.Join(s, " ")
}

// the SMP TLV of a given type in what a party sent, read with the keys of the other end
func smpTLVIn(reader *party, ms []otr3.ValidMessage, want uint16) []*big.Int {
	for _, m := range reassembleAll(ms) {
		if _, types, values, ok := otr3.VerifPeekTLVs(reader.c, m); ok {
			for i, t := range types {
				if t == want {
					if _, mpis, ok := otr3.ExtractMPIs(values[i]); ok {
						return mpis
					}
				}
			}
		}
	}
	return nil
}

func (g *gen) smpSecretless(w *world, idx, o int) {
	version := 2 + (idx+o)%2
	role := ((idx + o) / 2) % 2 // 0: the attacker starts the run, 1: the attacker answers
	n := g.newSmpNet(w, version)
	if !n.a.c.IsEncrypted() || !n.b.c.IsEncrypted() {
		return
	}
	att, vic := n.a, n.b
	if g.r.Intn(2) == 0 {
		att, vic = n.b, n.a
	}
	one := big.NewInt(1)
	kp := func(k, d int64) *big.Int { return new(big.Int).Add(new(big.Int).Mul(bigP, big.NewInt(k)), big.NewInt(d)) }
	type rep struct {
		name  string
		v     *big.Int
		class int
	}
	reps := []rep{{"0", big.NewInt(0), 0}, {"p", kp(1, 0), 0}, {"2p", kp(2, 0), 0},
		{"1", one, 1}, {"p+1", kp(1, 1), 1}, {"2p+1", kp(2, 1), 1}, {"3p+1", kp(3, 1), 1},
		{"p-1", kp(1, -1), -1}, {"2p-1", kp(2, -1), -1}}
	var attempts []*smpForger
	for _, r := range reps {
		attempts = append(attempts, &smpForger{g: g, class: r.class, u: [4]*big.Int{r.v, r.v, r.v, r.v}, names: [4]string{r.name, r.name, r.name, r.name}})
	}
	// every field in a representation of its own: of the identity (those above p), of the element of
	// order two
	for _, pool := range [][]rep{reps[4:7], reps[7:9]} {
		f := &smpForger{g: g, class: pool[0].class}
		for i := range f.u {
			r := pool[g.r.Intn(len(pool))]
			f.u[i], f.names[i] = r.v, r.name
		}
		attempts = append(attempts, f)
	}
	g.r.Shuffle(len(attempts), func(i, j int) { attempts[i], attempts[j] = attempts[j], attempts[i] })
	g.dist[fmt.Sprintf("smp:secretless:v%d:role%d", version, role)]++

	var vicEv []string
	// an authentic data message of the attacker with one SMP TLV, delivered to the victim; returns what the
	// victim sends back (which is not delivered)
	inject := func(t uint16, value []byte) (back []otr3.ValidMessage, ok bool) {
		for _, m := range w.sendTLVs(att, []uint16{t}, [][]byte{value}) {
			_, ts, _, pan := w.recv(vic, m)
			if pan {
				return nil, false
			}
			vicEv = append(vicEv, smpEvents(lastEvents)...)
			back = append(back, ts...)
		}
		return back, !w.dead
	}
	for _, f := range attempts {
		if w.dead || !att.c.IsEncrypted() || !vic.c.IsEncrypted() {
			break
		}
		secret, _, _ := g.secretPair()
		q := []string{"", "what is it?"}[g.r.Intn(2)]
		vicEv = nil
		steps := ""
		panicked := false
		if role == 0 {
			c2, d2 := f.zkp(1)
			c3, d3 := f.zkp(2)
			t, v := uint16(2), smpValue(f.u[0], c2, d2, f.u[1], c3, d3)
			if q != "" {
				t, v = 7, append(append([]byte(q), 0), v...)
			}
			_, ok := inject(t, v)
			steps = fmt.Sprintf("SMP message 1 (TLV type %d, question %q)", t, q)
			panicked = !ok
			if ok && (hasEv(vicEv, "smp:3") || hasEv(vicEv, "smp:4")) {
				ts, _ := w.smpSecret(vic, secret)
				vicEv = append(vicEv, smpEvents(lastEvents)...)
				steps += fmt.Sprintf(", the victim answers %s", sq(secret))
				if m2 := smpTLVIn(att, ts, 3); len(m2) == 11 && !w.dead {
					pa, qa, cp, d5, d6 := f.pq(6)
					cr, d7 := f.zkpR(7, f.quotient(qa, m2[7]))
					_, ok = inject(4, smpValue(pa, qa, cp, d5, d6, f.u[3], cr, d7))
					steps += ", SMP message 3"
					panicked = !ok
				}
			}
		} else {
			ts, _ := w.smpStart(vic, q, secret)
			vicEv = append(vicEv, smpEvents(lastEvents)...)
			steps = fmt.Sprintf("the victim calls StartAuthenticate(%q, %s)", q, sq(secret))
			if !w.dead {
				if m1 := smpTLVIn(att, ts, 2); q == "" && len(m1) != 6 {
					break // (no request went out: nothing to answer)
				}
				c2, d2 := f.zkp(3)
				c3, d3 := f.zkp(4)
				pb, qb, cp, d5, d6 := f.pq(5)
				back, ok := inject(3, smpValue(f.u[0], c2, d2, f.u[1], c3, d3, pb, qb, cp, d5, d6))
				steps += ", SMP message 2"
				panicked = !ok
				if m3 := smpTLVIn(att, back, 4); ok && len(m3) == 8 {
					cr, d7 := f.zkpR(8, f.quotient(m3[1], qb))
					_, ok = inject(5, smpValue(f.u[3], cr, d7))
					steps += ", SMP message 4"
					panicked = !ok
				}
			}
		}
		what := fmt.Sprintf("OTRv%d: %s holds the session with %s but not the secret; it sends authentic SMP messages with %s and proofs made to fit (%s): %s reports %v",
			version, att.id, vic.id, f.describe(role), steps, vic.id, vicEv)
		olog.ok("C12")
		if panicked || w.dead {
			olog.viol("C12", "smp-panic", "a call panicked - "+what)
			olog.viol("C13", "receive-panics:smp", "a call panicked - "+what)
			return
		}
		if hasEv(vicEv, "smp:6") {
			key := "degenerate-group-element-success"
			if version == 2 && f.class != 0 {
				key = "otrv2-degenerate-group-element" // (known: OTRv2 only refuses what is zero modulo p)
			}
			olog.viol("C12", key, what+" - success for a peer that does not know the secret")
		}
		// call off whatever is left of the run on the victim's side (its abort is not delivered either)
		if otr3.VerifSnapshot(vic.c).SmpState > 1 {
			w.smpAbort(vic)
		}
	}
	if w.dead || !att.c.IsEncrypted() || !vic.c.IsEncrypted() {
		return
	}
	// afterwards an honest run between the two still succeeds
	for _, p := range []*party{n.a, n.b} {
		ts, _ := w.smpAbort(p)
		n.l.enqueue(p, ts)
		n.pump(nil)
	}
	s, _, _ := g.secretPair()
	ini, res := att, vic
	if g.r.Intn(2) == 0 {
		ini, res = vic, att
	}
	n.evA, n.evB = nil, nil
	n.honestRun(ini, res, "", s, s, nil)
	olog.ok("C12")
	if w.dead {
		olog.viol("C12", "smp-panic", fmt.Sprintf("OTRv%d: a call panicked in the honest run after the runs with degenerate group elements", version))
		return
	}
	if !hasEv(n.evA, "smp:6") || !hasEv(n.evB, "smp:6") {
		olog.viol("C12", "no-recovery-after-deviant-message", fmt.Sprintf("OTRv%d: after %d runs in which %s sent SMP messages with degenerate group elements (the answers of %s not delivered) and aborts on both sides, an honest run started by %s with equal secrets %s does not succeed: %s %v, %s %v",
			version, len(attempts), att.id, vic.id, ini.id, sq(s), n.a.id, n.evA, n.b.id, n.evB))
	}
}

func init() {
	profiles["smp"] = func(seed int64, n int, out *emitter, extra map[string]interface{}) map[string]int {
		g := &gen{r: rand.New(rand.NewSource(seed)), out: out, dist: map[string]int{}}
		olog = &oracleLog{checked: map[string]int{}, out: out}
		w := newWorld(g)
		for i := 0; i < n; i++ {
			switch i % 5 {
			case 0:
				g.smpHonest(w)
			case 1:
				g.smpRelay(w)
			default:
				g.forceDegenerate = i%10 == 7
				g.smpDeviant(w)
				g.forceDegenerate = false
			}
		}
		// appended (the scenarios above keep their share of the random stream): refused calls in the
		// middle of a run (C11) and out-of-sequence StartAuthenticate calls followed by a fresh run (C12)
		for i := 0; i < n/5; i++ {
			if i%2 == 0 {
				g.smpRefusedMidRun(w)
			} else {
				g.smpOutOfSequence(w, i/2, -1)
			}
		}
		// appended: questions at the length limit (C11); few of them, their ops lines are long
		smpMaxQuestion, smpMaxConfirmed = -1, false
		v0 := g.r.Intn(2)
		for i := 0; i < (n+10)/20; i++ {
			g.smpLongQuestion(w, i, v0)
		}
		// appended: a second request while the first is unanswered, the asked party starting a run of its
		// own (C12), a request with an empty question (C17, C11)
		for i := 0; i < (n+9)/10; i++ {
			switch i % 3 {
			case 0:
				g.smpOutOfSequence(w, 0, 5)
			case 1:
				g.smpOutOfSequence(w, 0, 2)
			case 2:
				g.smpEmptyQuestion(w)
			}
		}
		// appended: the key list replaced by the application in an established session, then SMP runs in
		// it (C11); a peer without the secret sending degenerate group elements with proofs made to fit,
		// as initiator and as responder, both versions (C12)
		ko := g.r.Intn(4)
		for i := 0; i < (n+9)/10; i++ {
			g.smpKeysReplaced(w, i, ko)
		}
		so := g.r.Intn(4)
		for i := 0; i < (n+9)/10; i++ {
			g.smpSecretless(w, i, so)
		}
		// appended: every proof exponent of every SMP message increased by the group order q, one at a time (the
		// zero-knowledge equations still hold; the protocol demands 1 <= d < q): never success
		plusQ := [][2]int{{2, 2}, {2, 5}, {3, 2}, {3, 5}, {3, 9}, {3, 10}, {4, 3}, {4, 4}, {4, 7}, {5, 2}}
		po := g.r.Intn(len(plusQ))
		for i := 0; i < 2+n/20 && i < len(plusQ); i++ {
			f := plusQ[(po+i)%len(plusQ)]
			g.forcePlusQ = &f
			g.smpDeviant(w)
			g.forcePlusQ = nil
		}
		extra["panics"] = panicCount
		olog.export(extra)
		return g.dist
	}
}
