package main

// Profile "reject" (C06, C02, C15): twin runs. A script of genuine traffic is executed twice
// from the same seeds, once with one extra injected message that the target must reject
// (derived from genuine traffic: fields corrupted, MAC damaged, counter raised, key ids changed,
// truncated, foreign/invalid instance tags, other version, replay). Observations of all other
// steps (plaintexts, error classes, events, IsEncrypted of both) must be identical.

import (
	"bytes"
	"crypto/hmac"
	"crypto/sha1"
	"fmt"
	"math/rand"
	"os"
	"strings"

	otr3 "github.com/coyim/otr3"
)

type rstep struct {
	kind string // sendA sendB dAB dBA tick query endA endB smpA smpansB inject
	text []byte
	n    int
}

type rscript struct {
	version  int
	polA     int
	polB     int
	fragA    int
	steps    []rstep
	injectAt int    // index in steps before which the injection happens
	target   string // "A" or "B"
	mutation int
	seed     int64
}

func (g *gen) makeScript() rscript {
	s := rscript{version: 2 + g.r.Intn(2), seed: g.r.Int63(), mutation: g.r.Intn(26)}
	// the kinds that need a particular version or moment come round regularly, whatever the dice say
	g.dist["reject:scripts"]++
	switch g.dist["reject:scripts"] % 16 {
	case 3:
		s.mutation, s.version = 24, 3
	case 7:
		s.mutation = 22
	case 11:
		s.mutation, s.version = 23, 3
	case 15:
		s.mutation, s.version = 6, 3
	case 5:
		s.mutation = 25
	case 9:
		s.mutation, s.version = 26, 3
	case 13:
		s.mutation = 27
	}
	base := 2
	if s.version == 3 {
		base = 4
	}
	if g.r.Intn(4) == 0 {
		base = 6
	}
	s.polA, s.polB = base, base
	if g.r.Intn(5) == 0 {
		s.fragA = 150 + g.r.Intn(200)
	}
	s.steps = append(s.steps, rstep{kind: "query"})
	n := 10 + g.r.Intn(25)
	for i := 0; i < n; i++ {
		switch k := g.r.Intn(20); {
		case k < 5:
			s.steps = append(s.steps, rstep{kind: "sendA", text: g.cleanText()})
		case k < 10:
			s.steps = append(s.steps, rstep{kind: "sendB", text: g.cleanText()})
		case k < 14:
			s.steps = append(s.steps, rstep{kind: "dAB"})
		case k < 18:
			s.steps = append(s.steps, rstep{kind: "dBA"})
		case k < 19:
			s.steps = append(s.steps, rstep{kind: "tick", n: []int{45, 75, 120}[g.r.Intn(3)]})
		default:
			if g.r.Intn(2) == 0 {
				s.steps = append(s.steps, rstep{kind: "smpA"})
			} else {
				s.steps = append(s.steps, rstep{kind: "smpansB"})
			}
		}
	}
	for i := 0; i < 12; i++ {
		s.steps = append(s.steps, rstep{kind: "dAB"}, rstep{kind: "dBA"})
	}
	s.steps = append(s.steps, rstep{kind: "sendA", text: g.cleanText()}, rstep{kind: "dAB"}, rstep{kind: "dBA"},
		rstep{kind: "sendB", text: g.cleanText()}, rstep{kind: "dBA"}, rstep{kind: "dAB"})
	s.injectAt = 1 + g.r.Intn(len(s.steps)-8)
	if g.r.Intn(4) == 0 {
		s.injectAt = 1 + g.r.Intn(14) // during the key exchange
	}
	s.target = []string{"A", "B"}[g.r.Intn(2)]
	if s.mutation == 22 || s.mutation == 23 || s.mutation == 25 {
		s.injectAt = g.r.Intn(2) // before the conversation has heard anything of its peer (or just the query)
	}
	if s.mutation >= 16 && s.mutation != 19 && s.mutation != 22 && s.mutation != 23 && s.mutation != 25 {
		// needs a data message that has not been delivered yet: just before one of the two final deliveries
		if g.r.Intn(2) == 0 {
			s.injectAt, s.target = len(s.steps)-5, "B"
		} else {
			s.injectAt, s.target = len(s.steps)-2, "A"
		}
	}
	if s.mutation == 27 {
		// the side that answers the query with its D-H Commit message and then waits for the D-H Key
		// message (the moment itself is found by looking at the state, see runScript)
		s.target, s.injectAt = "B", 2
	}
	return s
}

// build the message to inject from what the target is about to receive / has received
func (g *gen) craftInjection(sc rscript, pending, seen, sentByTarget [][]byte, tgt, src *party) ([]byte, string) {
	pick := func() []byte {
		if len(pending) > 0 && g.r.Intn(3) != 0 {
			return append([]byte{}, pending[0]...)
		}
		if len(seen) > 0 {
			return append([]byte{}, seen[g.r.Intn(len(seen))]...)
		}
		if len(pending) > 0 {
			return append([]byte{}, pending[0]...)
		}
		return nil
	}
	base := pick()
	tags := func(s, r uint32) []byte { // a v3 data-looking message with the given tags and garbage body
		hdr := []byte{0, 3, 3, byte(s >> 24), byte(s >> 16), byte(s >> 8), byte(s), byte(r >> 24), byte(r >> 16), byte(r >> 8), byte(r)}
		return append(append([]byte("?OTR:"), otr3.VerifB64Encode(append(hdr, g.bytesN(40)...))...), '.')
	}
	ts := otr3.VerifSnapshot(tgt.c)
	switch sc.mutation {
	case 0, 1, 2, 3: // corrupt one byte inside the decoded message
		if base == nil {
			return nil, ""
		}
		return g.mutateEncodedAt(base, -1), "byte-flip"
	case 4: // truncate the decoded message
		if base == nil {
			return nil, ""
		}
		return g.truncateEncoded(base), "truncate"
	case 5: // replay of something already seen
		if len(seen) == 0 {
			return nil, ""
		}
		return append([]byte{}, seen[g.r.Intn(len(seen))]...), "replay"
	case 6: // foreign sender instance
		if sc.version != 3 {
			return nil, ""
		}
		if ts.TheirTag == 0 {
			// not bound to a peer instance yet: a stray, rejected message of some other instance
			// (the valid-tag data message is rejected because there is no session)
			if ts.MsgState == 1 {
				return nil, ""
			}
			return tags(0x777+uint32(g.r.Intn(1000)), ts.OurTag), "stray-instance-before-binding"
		}
		return tags(ts.TheirTag+1, ts.OurTag), "foreign-sender-tag"
	case 7: // foreign receiver instance
		if sc.version != 3 || ts.TheirTag == 0 {
			return nil, ""
		}
		return tags(ts.TheirTag, ts.OurTag+1), "foreign-receiver-tag"
	case 8: // malformed tags
		if sc.version != 3 {
			return nil, ""
		}
		return tags(uint32(g.r.Intn(0x100)), ts.OurTag), "malformed-sender-tag"
	case 9: // other protocol version
		other := byte(5 - sc.version)
		hdr := []byte{0, other, 3}
		return append(append([]byte("?OTR:"), otr3.VerifB64Encode(append(hdr, g.bytesN(40)...))...), '.'), "other-version"
	case 10: // garbage that looks encoded
		return []byte("?OTR:AAMD" + string(otr3.VerifB64Encode(g.bytesN(30))) + "."), "garbage-data"
	case 11: // unknown OTR-ish message
		return []byte("?OTR:" + string(g.blobText())), "unknown"
	case 12: // invalid fragment
		return []byte("?OTR,00000,00000,zzz,"), "invalid-fragment"
	case 13: // garbage AKE message of the session's version
		t := []byte{2, 0x0a, 0x11, 0x12}[g.r.Intn(4)]
		var hdr []byte
		if sc.version == 3 {
			hdr = []byte{0, 3, t, byte(ts.TheirTag >> 24), byte(ts.TheirTag >> 16), byte(ts.TheirTag >> 8), byte(ts.TheirTag), byte(ts.OurTag >> 24), byte(ts.OurTag >> 16), byte(ts.OurTag >> 8), byte(ts.OurTag)}
			if ts.TheirTag == 0 {
				return nil, ""
			}
		} else {
			hdr = []byte{0, 2, t}
		}
		return append(append([]byte("?OTR:"), otr3.VerifB64Encode(append(hdr, g.bytesN(20+g.r.Intn(60))...))...), '.'), fmt.Sprintf("garbage-ake-%x", t)
	case 20, 21: // a genuine, not yet delivered data message whose ciphertext is altered and which is
		// authenticated anew with a MAC key the target itself has disclosed in one of its own messages
		var keys [][]byte
		for _, m := range sentByTarget {
			if f, ok := dataFields(decodeWire(m), sc.version); ok && isDataWire(m) {
				for i := 0; i+20 <= len(f.old); i += 20 {
					keys = append(keys, f.old[i:i+20])
				}
			}
		}
		var victim []byte
		for _, m := range pending {
			if isDataWire(m) {
				victim = m
				break
			}
		}
		if len(keys) == 0 || victim == nil {
			return nil, ""
		}
		bin := decodeWire(victim)
		f, ok := dataFields(bin, sc.version)
		if !ok || f.encEnd-f.encStart < 1 {
			return nil, ""
		}
		forged := append([]byte{}, bin...)
		forged[f.encStart] ^= 0x20 // CTR mode: flips one bit of the first character of the text
		mac := hmac.New(sha1.New, keys[g.r.Intn(len(keys))])
		mac.Write(forged[:f.macStart])
		copy(forged[f.macStart:f.macStart+20], mac.Sum(nil))
		return encodeWire(forged), "forged-with-disclosed-key-flip"
	case 19: // a DH-Key message carrying a different valid value while the target waits for the Signature
		// message: it is ignored (not the one the Reveal Signature answered) and must leave no trace
		for _, m := range seen {
			if bytes.HasPrefix(m, []byte("?OTR:AAMK")) || bytes.HasPrefix(m, []byte("?OTR:AAIK")) {
				bin := decodeWire(m)
				if len(bin) > 8 {
					bin[len(bin)-1] ^= 1
					return encodeWire(bin), "other-dhkey-while-awaiting-sig"
				}
			}
		}
		return nil, ""
	case 22: // a well-formed key exchange message nobody asked for (a D-H Key, Reveal Signature or Signature
		// message of some other instance / of either version) while no exchange is under way: it is
		// ignored - no error - and must leave no trace either
		if ts.AkeState != 0 || ts.MsgState != 0 {
			return nil, ""
		}
		t := []byte{0x0a, 0x11, 0x12}[g.r.Intn(3)]
		v := byte(2 + g.r.Intn(2))
		hdr := []byte{0, v, t}
		if v == 3 {
			st := 0x777 + uint32(g.r.Intn(1000))
			hdr = append(hdr, byte(st>>24), byte(st>>16), byte(st>>8), byte(st), 0, 0, 0, 0)
		}
		val := g.bytesN(192)
		val[0] &= 0x7f
		body := otr3.AppendData(nil, val)
		if t != 0x0a {
			body = append(otr3.AppendData(nil, g.bytesN(16)), otr3.AppendData(nil, g.bytesN(40))...)
			body = append(body, g.bytesN(20)...)
		}
		return encodeWire(append(hdr, body...)), fmt.Sprintf("stray-ake-%x-v%d-while-idle", t, v)
	case 23: // traffic of a foreign session (neither tag is ours or our peer's) before the peer instance is known
		if sc.version != 3 || ts.TheirTag != 0 {
			return nil, ""
		}
		return tags(0x777+uint32(g.r.Intn(1000)), ts.OurTag+1+uint32(g.r.Intn(1000))), "foreign-session-before-binding"
	case 25: // a stray piece of somebody's fragment stream that fits nothing collected here (out of sequence:
		// it is discarded without an error) before the conversation knows its peer
		if ts.AkeState != 0 || ts.MsgState != 0 || ts.FragIndex != 0 {
			return nil, ""
		}
		if sc.version == 3 {
			if ts.TheirTag != 0 {
				return nil, ""
			}
			return []byte(fmt.Sprintf("?OTR|%08x|00000000,00002,00003,abcd,", 0x777+uint32(g.r.Intn(1000)))), "stray-out-of-sequence-fragment-before-binding"
		}
		return []byte("?OTR,00002,00003,abcd,"), "stray-out-of-sequence-fragment-before-binding"
	case 26: // an OTRv3 fragment whose header carries an invalid instance tag (sender tag below 0x100, or
		// receiver tag in 1..0xff): rejected as an invalid fragment; the malformed-message error reply (both
		// parties have an error message handler) belongs to the rejection itself, not to a later answer
		if sc.version != 3 {
			return nil, ""
		}
		st, rt := ts.TheirTag, ts.OurTag
		if st == 0 {
			st = 0x777 + uint32(g.r.Intn(1000))
		}
		if g.r.Intn(3) == 0 {
			rt = 0
		}
		what := "fragment-with-malformed-sender-tag"
		if g.r.Intn(2) == 0 {
			st = uint32(g.r.Intn(0x100))
		} else {
			rt, what = 1+uint32(g.r.Intn(0xff)), "fragment-with-malformed-receiver-tag"
		}
		total := 2 + g.r.Intn(4)
		idx := 1 + g.r.Intn(total)
		piece := []byte("abcd")
		if base != nil && len(base) > 12 && !bytes.Contains(base, []byte(",")) {
			// a piece of genuine traffic
			k := len(base) / total
			piece = base[(idx-1)*k : idx*k]
		}
		return []byte(fmt.Sprintf("?OTR|%08x|%08x,%05d,%05d,%s,", st, rt, idx, total, piece)), what
	case 27: // a correctly framed D-H Commit message (both DATA fields parse, valid header) whose commitment
		// has 31 or 33 bytes instead of 32 and compares higher than any genuine one (starts 0xFF), while the
		// target has sent its own D-H Commit message and waits for the D-H Key message. (A library that
		// takes such a commit for a new exchange answers it with a D-H Key message: not a rejection, not judged.)
		if !ts.HasAke || ts.AkeState != 1 {
			return nil, ""
		}
		var own []byte
		for _, m := range sentByTarget {
			if bytes.HasPrefix(m, []byte("?OTR:AAMC")) || bytes.HasPrefix(m, []byte("?OTR:AAIC")) {
				own = decodeWire(m)
			}
		}
		if len(own) < 3 {
			return nil, ""
		}
		hdr := []byte{0, own[1], 2}
		encGx := g.bytesN(196)
		if own[1] == 3 {
			if len(own) < 11 {
				return nil, ""
			}
			st := otr3.VerifSnapshot(src.c).OurTag
			if st == 0 {
				st = ts.TheirTag
			}
			if st == 0 {
				// the peer has not drawn its instance tag yet: the commit of some other instance of the peer
				st = 0x777 + uint32(g.r.Intn(1000))
			}
			rt := ts.OurTag
			if g.r.Intn(3) == 0 {
				rt = 0
			}
			hdr = append(hdr, byte(st>>24), byte(st>>16), byte(st>>8), byte(st), byte(rt>>24), byte(rt>>16), byte(rt>>8), byte(rt))
			own = own[11:]
		} else {
			own = own[3:]
		}
		if _, d, ok := otr3.ExtractData(own); ok && len(d) > 0 && g.r.Intn(2) == 0 {
			encGx = append([]byte{}, d...) // the genuine encrypted g^x of the session's own commit
		}
		hl := 31 + 2*g.r.Intn(2)
		h := g.bytesN(hl)
		h[0] = 0xff
		lastInjectionDetail = fmt.Sprintf("D-H Commit message, OTRv%d header %x, DATA(encrypted g^x, %d bytes), DATA(commitment, %d bytes: %x)", hdr[1], hdr, len(encGx), hl, h)
		return encodeWire(append(hdr, otr3.AppendData(otr3.AppendData(nil, encGx), h)...)), fmt.Sprintf("commit-with-%d-byte-hash-while-awaiting-dhkey", hl)
	case 24: // a genuine, not yet delivered OTRv3 data message with the receiver instance tag set to zero
		// ("any instance"): the tag filter lets it through, the authenticator covers the header
		if sc.version != 3 {
			return nil, ""
		}
		for _, m := range pending {
			if isDataWire(m) {
				bin := decodeWire(m)
				if len(bin) > 11 {
					copy(bin[7:11], []byte{0, 0, 0, 0})
					return encodeWire(bin), "receiver-tag-zeroed"
				}
			}
		}
		return nil, ""
	case 16, 17, 18: // re-encode the next-DH-key MPI of a genuine data message non-minimally (length prefix
		// raised by k, k leading zero bytes): same number, different authenticated bytes, original MAC
		var cands [][]byte
		for _, m := range pending {
			if isDataWire(m) {
				cands = append(cands, m)
			}
		}
		if len(cands) == 0 {
			return nil, ""
		}
		base = append([]byte{}, cands[g.r.Intn(len(cands))]...)
		bin := decodeWire(base)
		off := 3 + 1 + 8
		if sc.version == 3 {
			off = 11 + 1 + 8
		}
		if len(bin) < off+4 {
			return nil, ""
		}
		l := int(bin[off])<<24 | int(bin[off+1])<<16 | int(bin[off+2])<<8 | int(bin[off+3])
		if l == 0 || off+4+l > len(bin) {
			return nil, ""
		}
		k := 1 + g.r.Intn(3)
		out := append([]byte{}, bin[:off]...)
		out = append(out, byte((l+k)>>24), byte((l+k)>>16), byte((l+k)>>8), byte(l+k))
		out = append(out, make([]byte, k)...)
		out = append(out, bin[off+4:]...)
		return encodeWire(out), "nonminimal-mpi-flip"
	case 14: // damage only the MAC / tail
		if base == nil {
			return nil, ""
		}
		return g.mutateEncodedAt(base, -2), "tail-flip"
	default: // raise the counter / change key ids: flip inside the first 24 bytes after the header
		if base == nil {
			return nil, ""
		}
		return g.mutateEncodedAt(base, 11+g.r.Intn(14)), "header-field-flip"
	}
}

func decodeWire(m []byte) []byte {
	if len(m) < 7 || string(m[:5]) != "?OTR:" {
		return nil
	}
	res := otr3.VerifB64Decode(m[5 : len(m)-1])
	if len(res) < 6 || res[:5] != "some " {
		return nil
	}
	return unhex(res[5:])
}

func encodeWire(b []byte) []byte {
	return append(append([]byte("?OTR:"), otr3.VerifB64Encode(b)...), '.')
}

// pos = -1: random position; -2: in the last 24 bytes; otherwise that position
func (g *gen) mutateEncodedAt(m []byte, pos int) []byte {
	bin := decodeWire(m)
	if len(bin) < 4 {
		return g.mutate(m)
	}
	i := pos
	switch {
	case pos == -1:
		i = 3 + g.r.Intn(len(bin)-3)
	case pos == -2:
		k := 24
		if k > len(bin) {
			k = len(bin)
		}
		i = len(bin) - 1 - g.r.Intn(k)
	}
	if i >= len(bin) {
		i = len(bin) - 1
	}
	bin[i] ^= byte(1 << uint(g.r.Intn(8)))
	return encodeWire(bin)
}

func (g *gen) truncateEncoded(m []byte) []byte {
	bin := decodeWire(m)
	if len(bin) < 4 {
		return m[:len(m)/2]
	}
	return encodeWire(bin[:3+g.r.Intn(len(bin)-3)])
}

// which protocol-visible fields of the target changed while it processed the injected message
var lastInjectionEffect string

// the fields of a message built from scratch, for the report
var lastInjectionDetail string

func snapDiff(a, b otr3.VerifState) string {
	var d []string
	add := func(c bool, n string) {
		if c {
			d = append(d, n)
		}
	}
	add(a.Version != b.Version, "version")
	add(a.MsgState != b.MsgState, "msgState")
	add(a.TheirTag != b.TheirTag, "theirTag")
	add(a.OurTag != b.OurTag, "ourTag")
	add(a.HasAke != b.HasAke, "akeCreated")
	add(a.AkeState != b.AkeState, "akeState")
	add(a.SmpState != b.SmpState, "smpState")
	add(a.OurKeyID != b.OurKeyID || a.TheirKeyID != b.TheirKeyID, "keyIDs")
	add(fmt.Sprint(a.Counters) != fmt.Sprint(b.Counters), "counters")
	add(fmt.Sprint(a.MacHistory) != fmt.Sprint(b.MacHistory), "macHistory")
	add(a.OldMACKeys != b.OldMACKeys, "oldMACKeys")
	add(a.MayRetx != b.MayRetx, "mayRetransmit")
	add(a.Whitespace != b.Whitespace, "whitespaceState")
	add(!bytes.Equal(a.SSID, b.SSID), "ssid")
	add(a.FragIndex != b.FragIndex || a.FragLen != b.FragLen, "fragCtx")
	if len(d) == 0 {
		return "no-visible-state-change"
	}
	return strings.Join(d, "+")
}

func isErrorReply(m []byte) bool { return bytes.HasPrefix(m, []byte("?OTR Error:")) }

// run the script; returns the observation log, and info about the injection
func (g *gen) runScript(w *world, sc rscript, inject bool) (obs []string, injInfo string, rejected bool) {
	saved := g.r
	g.r = rand.New(rand.NewSource(sc.seed))
	defer func() { g.r = saved }()
	w.parties = map[string]*party{}
	w.dead = false
	a := w.newParty(partyCfg{policies: sc.polA, keyIdx: 0, fragSize: sc.fragA, errh: true})
	b := w.newParty(partyCfg{policies: sc.polB, keyIdx: 1, errh: true})
	l := &link{w: w, a: a, b: b}
	seenA, seenB := [][]byte{}, [][]byte{}
	rec := func(tag string, plain []byte, err error, p *party, evs string, ts []otr3.ValidMessage) {
		// what the party sends in answer belongs to the observation: how many messages, how many of them error replies
		nerr := 0
		for _, t := range ts {
			if isErrorReply(t) {
				nerr++
			}
		}
		obs = append(obs, fmt.Sprintf("%s plain=%s err=%s ev=%s encA=%v encB=%v sends=%d errorReplies=%d", tag, plainStr(plain), otr3.VerifErrClass(err), evs, a.c.IsEncrypted(), b.c.IsEncrypted(), len(ts), nerr))
	}
	deliver := func(toB bool, tag string) {
		q, p := &l.qab, b
		if !toB {
			q, p = &l.qba, a
		}
		if len(*q) == 0 {
			obs = append(obs, tag+" empty")
			return
		}
		m := (*q)[0]
		*q = (*q)[1:]
		ne := len(p.events)
		_ = ne
		plain, ts, err, _ := w.recv(p, m)
		// events were drained by w.recv into the op line; recover them from the last impl line is
		// unnecessary: we record the snapshot of what matters through the result strings below
		rec(tag, plain, err, p, lastEvents, ts)
		l.enqueue(p, ts)
		if toB {
			seenB = append(seenB, m)
		} else {
			seenA = append(seenA, m)
		}
	}
	injectedOnce := false
	for i, st := range sc.steps {
		if w.dead {
			break
		}
		due := i == sc.injectAt
		if sc.mutation == 19 {
			// as soon as the target waits for the Signature message (it has sent its Reveal Signature)
			t := a
			if sc.target == "B" {
				t = b
			}
			due = !injectedOnce && otr3.VerifSnapshot(t.c).HasAke && otr3.VerifSnapshot(t.c).AkeState == 3
		}
		if sc.mutation == 27 {
			// as soon as the target waits for the D-H Key message (it has sent its D-H Commit)
			t := a
			if sc.target == "B" {
				t = b
			}
			due = !injectedOnce && otr3.VerifSnapshot(t.c).HasAke && otr3.VerifSnapshot(t.c).AkeState == 1
		}
		if inject && due {
			injectedOnce = true
			tgt, src, pending, seen := a, b, l.qba, seenA
			if sc.target == "B" {
				tgt, src, pending, seen = b, a, l.qab, seenB
			}
			// do not interrupt a fragment stream: the property covers fragments only between complete messages
			if otr3.VerifSnapshot(tgt.c).FragIndex == 0 {
				sentByTarget := append(append([][]byte{}, seenB...), l.qab...)
				if sc.target == "B" {
					sentByTarget = append(append([][]byte{}, seenA...), l.qba...)
				}
				lastInjectionDetail = ""
				m, what := g.craftInjection(sc, pending, seen, sentByTarget, tgt, src)
				if m != nil {
					before := otr3.VerifSnapshot(tgt.c)
					plain, ts, err, pan := w.recv(tgt, m)
					lastInjectionEffect = snapDiff(before, otr3.VerifSnapshot(tgt.c))
					injInfo = fmt.Sprintf("%s into %s: %.60s… -> plain=%s send=%d err=%s events=%s", what, sc.target, m, plainStr(plain), len(ts), otr3.VerifErrClass(err), lastEvents)
					if lastInjectionDetail != "" {
						injInfo += " [" + lastInjectionDetail + "]"
					}
					rejected = !pan && plain == nil
					for _, t := range ts {
						if !isErrorReply(t) {
							rejected = false
						}
					}
					if !rejected {
						// the message was acted upon: its replies travel like any others
						l.enqueue(tgt, ts)
					}
					// C02: a modified / forged data message must not deliver anything nor act on TLVs
					if strings.Contains(what, "flip") || what == "truncate" || what == "garbage-data" {
						olog.ok("C02")
						if plain != nil && isDataWire(m) {
							olog.viol("C02", "tampered-delivered", injInfo)
						}
						if isDataWire(m) && (strings.Contains(lastEvents, "smp:") || strings.Contains(lastEvents, "key:") || strings.Contains(lastEvents, "sec:")) && plain == nil && err != nil {
							olog.viol("C02", "tampered-tlv-processed", injInfo)
						}
					}
					if what == "nonminimal-mpi-flip" {
						// the re-encoded field lies inside the authenticated part: nothing may happen at all
						if plain != nil || lastInjectionEffect != "no-visible-state-change" {
							olog.viol("C02", "reencoded-message-accepted", injInfo+" (target state change: "+lastInjectionEffect+")")
						}
					}
					if what == "receiver-tag-zeroed" {
						// the header is part of what the authenticator covers: a message whose receiver tag was
						// changed in transit is not the message the peer authenticated
						olog.ok("C02")
						if plain != nil {
							olog.viol("C02", "tampered-delivered", injInfo)
						}
					} else if strings.Contains(what, "-tag") {
						olog.ok("C15")
						if plain != nil || len(ts) > 0 && !rejected {
							olog.viol("C15", "foreign-instance-acted-upon", injInfo)
						}
					}
				}
			}
		}
		switch st.kind {
		case "query":
			l.enqueue(a, []otr3.ValidMessage{w.query(a)})
		case "sendA", "sendB":
			p := a
			if st.kind == "sendB" {
				p = b
			}
			ts, err := w.send(p, st.text)
			rec(st.kind, nil, err, p, lastEvents, ts)
			l.enqueue(p, ts)
		case "dAB":
			deliver(true, "dAB")
		case "dBA":
			deliver(false, "dBA")
		case "tick":
			w.tick(st.n)
		case "smpA":
			ts, err := w.smpStart(a, "", []byte("sekrit"))
			rec("smpA", nil, err, a, lastEvents, ts)
			l.enqueue(a, ts)
		case "smpansB":
			ts, err := w.smpSecret(b, []byte("sekrit"))
			rec("smpansB", nil, err, b, lastEvents, ts)
			l.enqueue(b, ts)
		}
	}
	return
}


// C02: text that arrives in the clear while the conversation is encrypted (or finished) is never
// handed over silently: it comes with the received-unencrypted event, however the session was started
// and whatever the whitespace tag state is
func (g *gen) plaintextWhileEncrypted(w *world) {
	w.parties = map[string]*party{}
	w.dead = false
	version := 2 + g.r.Intn(2)
	pol := 2
	if version == 3 {
		pol = 4
	}
	start := g.r.Intn(3)
	polA, polB := pol, pol
	if start > 0 {
		polA |= 16 // sends the whitespace tag
		polB |= 32 // starts the key exchange on it
	}
	a := w.newParty(partyCfg{policies: polA, keyIdx: 0, errh: true})
	b := w.newParty(partyCfg{policies: polB, keyIdx: 1, errh: true})
	l := &link{w: w, a: a, b: b}
	if start == 0 {
		l.enqueue(a, []otr3.ValidMessage{w.query(a)})
	} else {
		for i := 0; i < start; i++ { // one or two tagged plaintexts before the exchange
			ts, _ := w.send(a, g.cleanText())
			l.enqueue(a, ts)
		}
	}
	l.settle(40)
	if !a.c.IsEncrypted() || !b.c.IsEncrypted() || w.dead {
		return
	}
	ev := fmt.Sprintf("msg:%d", int(otr3.MessageEventReceivedMessageUnencrypted))
	tag := " \t  \t\t\t\t \t \t \t  " + map[int]string{2: "  \t\t  \t ", 3: "  \t\t  \t\t"}[version]
	for _, p := range []*party{a, b} {
		for k := 0; k < 2 && !w.dead; k++ {
			text := g.cleanText()
			m := append([]byte{}, text...)
			if k == 1 {
				m = append(m, []byte(tag)...)
			}
			plain, _, _, _ := w.recv(p, m)
			olog.ok("C02")
			if plain != nil && !strings.Contains(lastEvents, ev) {
				olog.viol("C02", "cleartext-delivered-without-warning", fmt.Sprintf("OTRv%d, session started by %s: %s is encrypted and hands over the cleartext %q (tagged: %v) without the received-unencrypted event (events %s)", version, []string{"a query", "one tagged plaintext", "two tagged plaintexts"}[start], p.id, plain, k == 1, lastEvents))
			}
		}
	}
}


// C06: a Reveal Signature message that is rejected (damaged MAC) must be as good as lost: when the peer
// then starts the exchange anew instead of retransmitting, the new exchange completes - exactly as it
// does when the damaged message never arrives
func (g *gen) restartAfterRejectedRevealSig(w *world) {
	version := 2 + g.r.Intn(2)
	pol := 2
	if version == 3 {
		pol = 4
	}
	outcome := func(deliverDamaged bool) (done bool, ok bool) {
		w.parties = map[string]*party{}
		w.dead = false
		a := w.newParty(partyCfg{policies: pol | 16, keyIdx: 0, errh: true})
		b := w.newParty(partyCfg{policies: pol | 32, keyIdx: 1, errh: true})
		fwd := func(to *party, ms []otr3.ValidMessage) (out []otr3.ValidMessage) {
			for _, m := range ms {
				_, ts, _, _ := w.recv(to, m)
				out = append(out, ts...)
			}
			return
		}
		t1, _ := w.send(a, g.cleanText())
		commit := fwd(b, t1)
		dhkey := fwd(a, commit)
		reveal := fwd(b, dhkey)
		if len(reveal) != 1 || w.dead {
			return false, false
		}
		if deliverDamaged {
			bin := decodeWire(reveal[0])
			if len(bin) < 30 {
				return false, false
			}
			bin[len(bin)-3] ^= 4 // inside the MAC
			plain, ts, _, _ := w.recv(a, encodeWire(bin))
			if plain != nil || len(ts) > 0 {
				return false, false // (not rejected: nothing to compare)
			}
		}
		// the genuine Reveal Signature message is lost; a's next tagged text makes b start anew
		w.tick(75)
		t2, _ := w.send(a, g.cleanText())
		l := &link{w: w, a: a, b: b}
		l.enqueue(a, t2)
		l.settle(30)
		return true, a.c.IsEncrypted() && b.c.IsEncrypted() && !w.dead
	}
	d1, without := outcome(false)
	d2, with := outcome(true)
	if !d1 || !d2 {
		return
	}
	olog.ok("C06")
	g.dist[fmt.Sprintf("reject:revealsig-restart:without=%v,with=%v", without, with)]++
	if without && !with {
		olog.viol("C06", "rejected-message-changes:later-key-exchange", fmt.Sprintf("OTRv%d: a Reveal Signature message with a damaged MAC is rejected; the exchange the peer then starts anew fails, whereas it completes when the damaged message is lost instead", version))
	}
}


// C06: a Reveal Signature message with one damaged field (r, the encrypted signature, the MAC) is rejected; the genuine
// one that follows (the peer's retransmission, or simply the original arriving later) must still complete the very
// same exchange — whatever the rejected message made the receiver compute must not have touched what it kept from the
// D-H Commit. Twin: the same run without the damaged message.
func (g *gen) genuineAfterRejectedRevealSig(w *world, k int) {
	version := 2 + k%2
	pol := 2
	if version == 3 {
		pol = 4
	}
	outcome := func(deliverDamaged bool) (done bool, ok bool) {
		w.parties = map[string]*party{}
		w.dead = false
		a := w.newParty(partyCfg{policies: pol | 16, keyIdx: 0, errh: true})
		b := w.newParty(partyCfg{policies: pol | 32, keyIdx: 1, errh: true})
		fwd := func(to *party, ms []otr3.ValidMessage) (out []otr3.ValidMessage) {
			for _, m := range ms {
				_, ts, _, _ := w.recv(to, m)
				out = append(out, ts...)
			}
			return
		}
		t1, _ := w.send(a, g.cleanText())
		commit := fwd(b, t1)
		dhkey := fwd(a, commit)
		reveal := fwd(b, dhkey)
		if len(reveal) != 1 || w.dead {
			return false, false
		}
		if deliverDamaged {
			bin := decodeWire(reveal[0])
			if len(bin) < 60 {
				return false, false
			}
			// where: inside the MAC, inside the encrypted signature, inside r
			at := []int{len(bin) - 3, len(bin) - 40, len(bin) - 30 - (k/2)%200}[(k/2)%3]
			hdr := 3
			if version == 3 {
				hdr = 11
			}
			if (k/2)%3 == 2 {
				at = hdr + 4 + (k/6)%16 // r: DATA of 16 bytes right behind the header
			}
			if at < hdr+4 || at >= len(bin) {
				at = len(bin) - 3
			}
			bin[at] ^= 4
			plain, ts, _, _ := w.recv(a, encodeWire(bin))
			if plain != nil || len(ts) > 0 {
				return false, false // (not rejected: nothing to compare)
			}
		}
		sig := fwd(a, reveal)
		fwd(b, sig)
		return true, a.c.IsEncrypted() && b.c.IsEncrypted() && !w.dead
	}
	d1, without := outcome(false)
	d2, with := outcome(true)
	if !d1 || !d2 {
		return
	}
	olog.ok("C06")
	g.dist[fmt.Sprintf("reject:revealsig-then-genuine:without=%v,with=%v", without, with)]++
	if without && !with {
		olog.viol("C06", "rejected-message-changes:same-key-exchange", fmt.Sprintf("OTRv%d: a Reveal Signature message with one damaged byte is rejected; the genuine Reveal Signature message that follows no longer completes the exchange, whereas it does when the damaged message never arrives", version))
	}
}


// C06 / C18: a message that the peer reported unreadable waits for the next key exchange; a Signature
// message that is rejected (damaged MAC) on the way must not make it disappear
func (g *gen) pendingResendAfterRejectedSig(w *world) {
	version := 2 + g.r.Intn(2)
	pol := 2
	if version == 3 {
		pol = 4
	}
	outcome := func(deliverDamaged bool) (done bool, resent int) {
		w.parties = map[string]*party{}
		w.dead = false
		a := w.newParty(partyCfg{policies: pol, keyIdx: 0, errh: true})
		b := w.newParty(partyCfg{policies: pol, keyIdx: 1, errh: true})
		l := &link{w: w, a: a, b: b}
		l.enqueue(b, []otr3.ValidMessage{w.query(b)})
		l.settle(40)
		if !a.c.IsEncrypted() || !b.c.IsEncrypted() || w.dead {
			return false, 0
		}
		text := []byte("the message that got lost")
		w.send(a, text)                                // lost on the way
		w.recv(a, []byte("?OTR Error: unreadable")) // the peer saw something it could not read
		w.tick(75)
		fwd := func(to *party, ms []otr3.ValidMessage) (out []otr3.ValidMessage) {
			for _, m := range ms {
				_, ts, _, _ := w.recv(to, m)
				out = append(out, ts...)
			}
			return
		}
		commit := fwd(a, []otr3.ValidMessage{w.query(b)})
		dhkey := fwd(b, commit)
		reveal := fwd(a, dhkey)
		sig := fwd(b, reveal)
		if len(sig) != 1 || w.dead {
			return false, 0
		}
		if deliverDamaged {
			bin := decodeWire(sig[0])
			if len(bin) < 30 {
				return false, 0
			}
			bin[len(bin)-3] ^= 4
			if plain, ts, _, _ := w.recv(a, encodeWire(bin)); plain != nil || len(ts) > 0 {
				return false, 0
			}
		}
		out := fwd(a, sig)
		fwd(b, out)
		for _, p := range b.received {
			if bytes.Equal(p, append([]byte("[resent] "), text...)) {
				resent++
			}
		}
		return true, resent
	}
	d1, without := outcome(false)
	d2, with := outcome(true)
	if !d1 || !d2 {
		return
	}
	olog.ok("C06")
	olog.ok("C18")
	g.dist[fmt.Sprintf("reject:resend-after-rejected-sig:without=%d,with=%d", without, with)]++
	if without != with {
		olog.viol("C06", "rejected-message-changes:pending-retransmission", fmt.Sprintf("OTRv%d: a message reported unreadable waits for the next key exchange; when a Signature message with a damaged MAC is rejected before the genuine one arrives it is resent %d times, otherwise %d times", version, with, without))
	}
}

// two observations of the same step that differ only in what the party sends, the second with more error replies
func extraErrorReply(without, with string) bool {
	i0, i1 := strings.LastIndex(without, " sends="), strings.LastIndex(with, " sends=")
	if i0 < 0 || i1 < 0 || without[:i0] != with[:i1] {
		return false
	}
	var s0, e0, s1, e1 int
	if n, _ := fmt.Sscanf(without[i0:], " sends=%d errorReplies=%d", &s0, &e0); n != 2 {
		return false
	}
	if n, _ := fmt.Sscanf(with[i1:], " sends=%d errorReplies=%d", &s1, &e1); n != 2 {
		return false
	}
	return e1 > e0 && s1-s0 == e1-e0
}

func init() {
	profiles["reject"] = func(seed int64, n int, out *emitter, extra map[string]interface{}) map[string]int {
		g := &gen{r: rand.New(rand.NewSource(seed)), out: out, dist: map[string]int{}}
		olog = &oracleLog{checked: map[string]int{}, out: out}
		w := newWorld(g)
		for i := 0; i < n; i++ {
			if i%8 == 0 {
				g.plaintextWhileEncrypted(w)
			}
			if i%8 == 4 {
				g.restartAfterRejectedRevealSig(w)
			}
			if i%8 == 6 {
				g.pendingResendAfterRejectedSig(w)
			}
			sc := g.makeScript()
			obs1, info, rejected := g.runScript(w, sc, true)
			if info == "" {
				g.dist["inject:none"]++
				continue
			}
			what := strings.SplitN(info, " ", 2)[0]
			if !rejected {
				g.dist["inject:not-rejected:"+what]++
				continue
			}
			g.dist["inject:rejected:"+what]++
			eff := lastInjectionEffect
			obs0, _, _ := g.runScript(w, sc, false)
			olog.ok("C06")
			if len(obs0) != len(obs1) {
				olog.viol("C06", "rejected-message-changes:"+lastInjectionEffect, fmt.Sprintf("different number of observations after %s", info))
				continue
			}
			for k := range obs0 {
				if obs0[k] != obs1[k] {
					if extraErrorReply(obs0[k], obs1[k]) && strings.Contains(info, " send=0 ") {
						// the rejection itself sent nothing, and the next genuine step of the continuation is answered
						// with an extra "?OTR Error:" message: the reply to the rejected message came out late
						olog.viol("C06", "rejected-message-reply-delayed", fmt.Sprintf("after rejected %s (target state change: %s) a later genuine step sends an additional OTR error message | step %d %.120s… | without:%s | with:%s", info, eff, k, obs0[k], obs0[k][strings.LastIndex(obs0[k], " sends="):], obs1[k][strings.LastIndex(obs1[k], " sends="):]))
						break
					}
					olog.viol("C06", "rejected-message-changes:"+eff, fmt.Sprintf("after rejected %s (target state change: %s) | step %d without: %.200s | with: %.200s", info, eff, k, obs0[k], obs1[k]))
					if os.Getenv("VERIF_DEBUG") != "" {
						fmt.Fprintf(os.Stderr, "=== script inject@%d target %s\n", sc.injectAt, sc.target)
						for j := 0; j <= k; j++ {
							fmt.Fprintf(os.Stderr, "%3d %-8s | %s\n    %-8s | %s\n", j, sc.steps[0].kind, obs0[j], "", obs1[j])
						}
					}
					break
				}
			}
		}
		// appended: the genuine Reveal Signature message right behind a damaged one (12 places of the damage x version)
		for k := 0; k < 12; k++ {
			g.genuineAfterRejectedRevealSig(w, k)
		}
		extra["panics"] = panicCount
		olog.export(extra)
		return g.dist
	}
}

// the layout of a data message (after decoding): where the ciphertext, the MAC and the revealed keys are
type dataLayout struct {
	encStart, encEnd, macStart int
	old                        []byte
}

func dataFields(bin []byte, version int) (f dataLayout, ok bool) {
	off := 3
	if version == 3 {
		off = 11
	}
	off += 1 + 4 + 4
	rd := func() (int, bool) {
		if off+4 > len(bin) {
			return 0, false
		}
		n := int(bin[off])<<24 | int(bin[off+1])<<16 | int(bin[off+2])<<8 | int(bin[off+3])
		off += 4
		if n < 0 || off+n > len(bin) {
			return 0, false
		}
		return n, true
	}
	n, k := rd() // next DH key
	if !k {
		return f, false
	}
	off += n + 8 // ... and the counter
	n, k = rd()
	if !k {
		return f, false
	}
	f.encStart, f.encEnd = off, off+n
	off += n
	f.macStart = off
	off += 20
	n, k = rd()
	if !k {
		return f, false
	}
	f.old = bin[off : off+n]
	return f, true
}
