package main

// Profile "frag" (C14, C13): fragmentation through the public API of an established session.
// Oracles: every piece respects the size bound; in-order delivery reassembles exactly once;
// hostile fragments in between never cause anything but a sent text to be delivered, never twice;
// nothing is re-processed after completion.

import (
	"bytes"
	"fmt"
	"math/rand"

	otr3 "github.com/coyim/otr3"
)

func (g *gen) fragScenario(w *world) {
	g.gluedStreamsPlain(w)
	if w.dead {
		return
	}
	version := 2 + g.r.Intn(2)
	pol := 2
	hdr := 17
	if version == 3 {
		pol = 4
		hdr = 35
	}
	a := w.newParty(partyCfg{policies: pol, keyIdx: 0, errh: true})
	b := w.newParty(partyCfg{policies: pol, keyIdx: 1, errh: true})
	l := &link{w: w, a: a, b: b}
	l.enqueue(a, []otr3.ValidMessage{w.query(a)})
	l.settle(50)
	if !a.c.IsEncrypted() || !b.c.IsEncrypted() {
		return
	}
	delivered := map[string]int{}
	sent := map[string]bool{}
	for round := 0; round < 4 && !w.dead; round++ {
		var size int
		switch g.r.Intn(7) {
		case 0:
			size = hdr + 2 + g.r.Intn(3)
		case 1:
			size = hdr + g.r.Intn(3)
		case 2:
			size = g.r.Intn(hdr)
		case 3:
			size = 65535
		default:
			size = hdr + 5 + g.r.Intn(400)
		}
		a.c.SetFragmentSize(uint16(size))
		w.g.out.emit(fmt.Sprintf("setfrag %s %d", a.id, size), "ok")
		var n int
		switch g.r.Intn(8) {
		case 0:
			n = 49000 + g.r.Intn(3000) // encodes to more than 65535 bytes
		case 1:
			n = 2000 + g.r.Intn(3000)
		default:
			n = 1 + g.r.Intn(600)
		}
		if size < hdr+8 && n > 3000 {
			n = 300 // keep piece counts reasonable
		}
		text := make([]byte, n)
		for i := range text {
			text[i] = byte('a' + g.r.Intn(26))
		}
		copy(text, fmt.Sprintf("<%d-%d>", round, g.r.Intn(1000000)))
		pieces, err := w.send(a, text)
		if w.dead {
			olog.viol("C13", "send-panics", fmt.Sprintf("Send of %d bytes with fragment size %d panicked", n, size))
			return
		}
		if err != nil {
			continue
		}
		sent[string(text)] = true
		olog.ok("C14")
		// size bound
		encLen := 0
		for _, p := range reassembleAll(pieces) {
			encLen += len(p)
		}
		room := size - hdr - 1
		if room >= 1 && len(pieces) > 1 {
			for _, p := range pieces {
				if len(p) > size {
					olog.viol("C14", "piece-too-long", fmt.Sprintf("piece of %d bytes with fragment size %d", len(p), size))
					break
				}
			}
		}
		if room >= 1 && len(pieces) == 1 && len(pieces[0]) > size && len(pieces[0])/room+1 <= 65535 {
			olog.viol("C14", "not-fragmented", fmt.Sprintf("message of %d bytes left whole with fragment size %d", len(pieces[0]), size))
		}
		// delivery: clean or with hostile fragments in between
		hostile := g.r.Intn(3) == 0
		disrupted := false
		for i, p := range pieces {
			if hostile && g.r.Intn(4) == 0 {
				if g.injectHostileFragment(w, b, a, pieces, i, delivered) {
					disrupted = true
				}
			}
			plain, ts, _, _ := w.recv(b, p)
			if plain != nil {
				delivered[string(plain)]++
			}
			if i < len(pieces)-1 && plain != nil && !hostile && len(pieces) > 1 {
				olog.viol("C14", "delivered-early", "a plaintext was delivered before the last piece arrived")
			}
			l.enqueue(b, ts)
		}
		if hostile && !disrupted && delivered[string(text)] != 1 {
			// what was thrown in between were no pieces of any stream (unparsable, illegal numbering,
			// another instance): the genuine pieces still arrived in order, all of them
			olog.viol("C14", "stream-lost-to-rejected-fragment", fmt.Sprintf("OTRv%d: a text of %d bytes in %d pieces, all delivered in order with only rejected fragments in between, was delivered %d times", version, n, len(pieces), delivered[string(text)]))
		}
		if !hostile && delivered[string(text)] != 1 {
			olog.viol("C14", "lossy-or-duplicated", fmt.Sprintf("text of %d bytes sent with fragment size %d (%d pieces) was delivered %d times", n, size, len(pieces), delivered[string(text)]))
		}
		// after completion: illegal fragments must not re-deliver
		for k := 0; k < 3; k++ {
			g.injectHostileFragment(w, b, a, pieces, len(pieces), delivered)
		}
		for t, c := range delivered {
			if !sent[t] {
				olog.viol("C14", "foreign-delivery", fmt.Sprintf("something that was never sent was delivered: %.40q", t))
			}
			if c > 1 {
				olog.viol("C14", "processed-twice", fmt.Sprintf("a text was delivered %d times", c))
			}
		}
		// drain replies (heartbeats etc.) back to a
		for len(l.qba) > 0 {
			l.deliver(false)
		}
		for len(l.qab) > 0 {
			l.deliver(true)
		}
	}
	// pieces of two different messages: the first k genuine pieces of a long message, then the pieces
	// k+1..m of a shorter one (m pieces, so the next index with another, smaller total): what was
	// collected is forgotten, nothing is glued together, nothing is processed; the shorter message
	// delivered completely afterwards arrives exactly once
	if w.dead {
		return
	}
	g.gluedStreamsSession(w, l, a, b, version, hdr)
	if w.dead {
		return
	}
	// one stream with every kind of rejected fragment thrown in between its pieces (unparsable header,
	// a header of the other version, too few parts, illegal numbering, another instance): they are
	// pieces of no stream, the genuine pieces all arrive in order and the text is delivered once
	if w.dead {
		return
	}
	{
		size := hdr + 20 + g.r.Intn(100)
		a.c.SetFragmentSize(uint16(size))
		w.g.out.emit(fmt.Sprintf("setfrag %s %d", a.id, size), "ok")
		text := []byte(fmt.Sprintf("<interleaved-%d> %s", g.r.Intn(1000000), g.cleanText()))
		pieces, err := w.send(a, text)
		if err == nil && !w.dead && len(pieces) >= 2 {
			ot, tt := otr3.VerifSnapshot(a.c).OurTag, otr3.VerifSnapshot(b.c).OurTag
			junk := [][]byte{
				[]byte("?OTR|zzzz,1,1,x,"),
				[]byte("?OTR,00002,00001,abc,"),
				[]byte(fmt.Sprintf("?OTR|%08x|%08x,00001,abc,", ot, tt)),
				[]byte(fmt.Sprintf("?OTR|%08x|%08x,00000,00003,abc,", ot, tt)),
				[]byte(fmt.Sprintf("?OTR|%08x|%08x,00005,00003,abc,", ot, tt)),
				[]byte(fmt.Sprintf("?OTR|%08x|%08x,00001,00001,?OTRv23?,", ot+1, tt)),
				[]byte("?OTR|nonsense"),
				[]byte("?OTR,1,2"),
			}
			got := 0
			for i, p := range pieces {
				if i > 0 {
					for k := 0; k < 2; k++ {
						w.recv(b, junk[g.r.Intn(len(junk))])
					}
				}
				plain, ts, _, _ := w.recv(b, p)
				if plain != nil && bytes.Equal(plain, text) {
					got++
				}
				l.enqueue(b, ts)
			}
			olog.ok("C14")
			if got != 1 {
				olog.viol("C14", "stream-lost-to-rejected-fragment", fmt.Sprintf("OTRv%d: a text of %d bytes in %d pieces, all delivered in order with only rejected fragments in between, was delivered %d times", version, len(text), len(pieces), got))
			}
			for len(l.qba) > 0 {
				l.deliver(false)
			}
		}
	}
	// a fragmented message of a kind that is handled before the data path (an error message, as
	// libotr fragments them): processed once when complete, never again because of later fragments
	if w.dead {
		return
	}
	sa := otr3.VerifSnapshot(a.c)
	tail := g.cleanText()
	for i := range tail { // no comma: it would end the piece early
		if tail[i] == ',' {
			tail[i] = ';'
		}
	}
	whole := []byte("?OTR Error: something went wrong on the other side " + string(tail))
	k := 2 + g.r.Intn(3)
	var pieces [][]byte
	for i := 0; i < k; i++ {
		part := whole[i*len(whole)/k : (i+1)*len(whole)/k]
		if version == 3 {
			pieces = append(pieces, []byte(fmt.Sprintf("?OTR|%08x|%08x,%05d,%05d,%s,", sa.OurTag, sa.TheirTag, i+1, k, part)))
		} else {
			pieces = append(pieces, []byte(fmt.Sprintf("?OTR,%05d,%05d,%s,", i+1, k, part)))
		}
	}
	events := 0
	for _, p := range pieces {
		w.recv(b, p)
		if lastEvents != "[]" {
			events++
		}
	}
	olog.ok("C14")
	if events != 1 {
		olog.viol("C14", "fragmented-error-message-not-processed-once", fmt.Sprintf("OTRv%d: an error message in %d fragments raised events on %d of the deliveries", version, k, events))
	}
	// the same message once more, in pieces that are not fragments: numbers beyond 16 bits (which
	// wrap around to legal ones), signed numbers, bytes after the closing comma - nothing is processed
	half := len(whole) / 2
	mk := func(ix, tot string, part []byte, trail string) []byte {
		if version == 3 {
			return []byte(fmt.Sprintf("?OTR|%08x|%08x,%s,%s,%s,%s", sa.OurTag, sa.TheirTag, ix, tot, part, trail))
		}
		return []byte(fmt.Sprintf("?OTR,%s,%s,%s,%s", ix, tot, part, trail))
	}
	for _, st := range [][][]byte{
		{mk("65537", "65538", whole[:half], ""), mk("65538", "65538", whole[half:], "")},
		{mk("+1", "+2", whole[:half], ""), mk("+2", "+2", whole[half:], "")},
		{mk("00001", "00001", whole, "trailing bytes")},
		{mk("-65535", "-65534", whole[:half], ""), mk("-65534", "-65534", whole[half:], "")},
	} {
		for _, p := range st {
			w.recv(b, p)
			olog.ok("C14")
			if lastEvents != "[]" {
				olog.viol("C14", "malformed-fragments-processed", fmt.Sprintf("OTRv%d: pieces that are not legal fragments (%.40q…) were reassembled and the message processed: events %s", version, st[0], lastEvents))
			}
		}
	}
	for j := 0; j < 4 && !w.dead; j++ {
		var bad []byte
		ix, tot := []int{0, 3, 1, 0}[j], []int{2, 2, 0, 0}[j]
		if version == 3 {
			bad = []byte(fmt.Sprintf("?OTR|%08x|%08x,%05d,%05d,x,", sa.OurTag, sa.TheirTag, ix, tot))
		} else {
			bad = []byte(fmt.Sprintf("?OTR,%05d,%05d,x,", ix, tot))
		}
		_, ts, _, _ := w.recv(b, bad)
		if lastEvents != "[]" || len(ts) > 0 {
			olog.viol("C14", "processed-twice", fmt.Sprintf("OTRv%d: the illegal fragment %q after a completed fragmented error message caused events %s and %d messages to send", version, bad, lastEvents, len(ts)))
			break
		}
	}
}

// nothing at all may come out of a delivery that completes no stream
func quietDelivery(plain []byte, ts []otr3.ValidMessage, err error) bool {
	return plain == nil && len(ts) == 0 && err == nil && lastEvents == "[]"
}

// Hand-made fragments of unencrypted payloads, in both header formats, delivered to a fresh
// conversation: pieces 1..k of a stream of n pieces, then the pieces k+1..n' of another stream with
// another total n' (smaller: n' = k+1 completes at once, k+1 < n' < n completes later; larger: never
// completes). The second stream was never delivered from its first piece on: nothing may be
// processed - no plaintext, no event, no error, nothing to send.
func (g *gen) gluedStreamsPlain(w *world) {
	word := func(n int) []byte {
		b := make([]byte, n)
		for i := range b {
			b[i] = byte('a' + g.r.Intn(26))
		}
		return b
	}
	split := func(whole []byte, n int) [][]byte {
		var ps [][]byte
		for i := 0; i < n; i++ {
			ps = append(ps, whole[i*len(whole)/n:(i+1)*len(whole)/n])
		}
		return ps
	}
	for _, version := range []int{2, 3} {
		for variant := 0; variant < 3 && !w.dead; variant++ {
			var p *party
			var ot, tt uint32
			if version == 2 {
				p = w.newParty(partyCfg{policies: 2, keyIdx: 1, errh: true})
			} else {
				tt = 0x100 + g.r.Uint32()%0xfffffe00
				ot = 0x100 + g.r.Uint32()%0xfffffe00
				p = w.newParty(partyCfg{policies: 4, keyIdx: 1, errh: true, tag: tt})
			}
			mk := func(ix, tot int, part []byte) []byte {
				if version == 3 {
					return []byte(fmt.Sprintf("?OTR|%08x|%08x,%05d,%05d,%s,", ot, tt, ix, tot, part))
				}
				return []byte(fmt.Sprintf("?OTR,%05d,%05d,%s,", ix, tot, part))
			}
			n := 3 + g.r.Intn(5)
			k := 1 + g.r.Intn(n-2) // 1..n-2 pieces of the first stream arrive (k+1 of k+1 is then another total)
			var n2 int
			kind := ""
			switch variant {
			case 0: // the very next piece is the last one of the other stream
				n2, kind = k+1, "smaller total, completing at once"
			case 1: // any smaller total, the remaining pieces of the other stream follow
				n2, kind = k+1+g.r.Intn(n-k-1), "smaller total"
			default:
				k = 1 + g.r.Intn(n-1)
				n2, kind = n+1+g.r.Intn(3), "larger total"
			}
			first := split([]byte(fmt.Sprintf("first stream %d %s and so on", g.r.Intn(1000000), word(10+g.r.Intn(40)))), n)
			secondWhole := []byte(fmt.Sprintf("second stream %d %s the end", g.r.Intn(1000000), word(10+g.r.Intn(40))))
			second := split(secondWhole, n2)
			g.dist[fmt.Sprintf("frag:glued-plain:v%d:%d", version, variant)]++
			var arrivals [][]byte
			var what []string
			for i := 0; i < k; i++ {
				arrivals = append(arrivals, mk(i+1, n, first[i]))
				what = append(what, fmt.Sprintf("%d/%d", i+1, n))
			}
			for i := k; i < n2; i++ {
				arrivals = append(arrivals, mk(i+1, n2, second[i]))
				what = append(what, fmt.Sprintf("%d/%d", i+1, n2))
			}
			for i, m := range arrivals {
				plain, ts, err, panicked := w.recv(p, m)
				if panicked {
					return
				}
				olog.ok("C14")
				if !quietDelivery(plain, ts, err) {
					olog.viol("C14", "glued-from-two-streams", fmt.Sprintf("OTRv%d header, fresh conversation, unencrypted payload: after the pieces %v of one stream and then %v of another (%s), arrival %d = %q caused something to be processed: plaintext %.60q, %d messages to send, error %v, events %s",
						version, what[:k], what[k:i+1], kind, i+1, m, plain, len(ts), err, lastEvents))
					break
				}
			}
			// the second stream, delivered from its first piece on, arrives - once
			got := 0
			for i := 0; i < n2 && !w.dead; i++ {
				plain, _, _, _ := w.recv(p, mk(i+1, n2, second[i]))
				if plain != nil {
					got++
					if i != n2-1 || !bytes.Equal(plain, secondWhole) {
						got += 100
					}
				}
			}
			olog.ok("C14")
			if got != 1 && !w.dead {
				olog.viol("C14", "lossy-or-duplicated", fmt.Sprintf("OTRv%d header, fresh conversation: an unencrypted text of %d bytes in %d hand-made pieces delivered in order after a forgotten stream was not delivered exactly once, unaltered, with the last piece (code %d)", version, len(secondWhole), n2, got))
			}
		}
	}
}

func (g *gen) gluedStreamsSession(w *world, l *link, a, b *party, version, hdr int) {
	size := hdr + 30 + g.r.Intn(120)
	a.c.SetFragmentSize(uint16(size))
	w.g.out.emit(fmt.Sprintf("setfrag %s %d", a.id, size), "ok")
	letters := func(n int) []byte {
		t := make([]byte, n)
		for i := range t {
			t[i] = byte('a' + g.r.Intn(26))
		}
		return t
	}
	longText := append([]byte(fmt.Sprintf("<long-%d>", g.r.Intn(1000000))), letters(500+g.r.Intn(500))...)
	shortText := append([]byte(fmt.Sprintf("<short-%d>", g.r.Intn(1000000))), letters(g.r.Intn(30))...)
	long, err := w.send(a, longText)
	if err != nil || w.dead {
		return
	}
	short, err := w.send(a, shortText)
	if err != nil || w.dead {
		return
	}
	m := len(short)
	if m < 2 || len(long) <= m {
		return
	}
	k := m - 1
	if g.r.Intn(3) == 0 {
		k = 1 + g.r.Intn(m-1)
	}
	g.dist["frag:glued-session"]++
	for i := 0; i < k; i++ {
		plain, ts, err, panicked := w.recv(b, long[i])
		if panicked {
			return
		}
		if !quietDelivery(plain, ts, err) {
			olog.viol("C14", "delivered-early", fmt.Sprintf("OTRv%d: piece %d of %d of a data message caused something to be processed: plaintext %.40q, %d messages to send, error %v, events %s", version, i+1, len(long), plain, len(ts), err, lastEvents))
			return
		}
	}
	for i := k; i < m; i++ {
		// the genuine piece of the shorter message, or a crafted one with the same numbers and payload
		piece := []byte(short[i])
		if g.r.Intn(2) == 0 {
			body := piece[bytes.IndexByte(piece, ',')+1:]
			if version == 3 {
				piece = []byte(fmt.Sprintf("?OTR|%08x|%08x,%05d,%05d,%s", otr3.VerifSnapshot(a.c).OurTag, otr3.VerifSnapshot(b.c).OurTag, i+1, m, fragPayload(body)))
			} else {
				piece = []byte(fmt.Sprintf("?OTR,%05d,%05d,%s", i+1, m, fragPayload(body)))
			}
		}
		plain, ts, err, panicked := w.recv(b, piece)
		if panicked {
			return
		}
		olog.ok("C14")
		if !quietDelivery(plain, ts, err) {
			olog.viol("C14", "glued-from-two-streams", fmt.Sprintf("OTRv%d encrypted session, fragment size %d: after the genuine pieces 1..%d of %d of a data message (text of %d bytes), the piece %d of %d carrying the payload of piece %d of a shorter genuine data message (text of %d bytes, %d pieces) = %.50q… caused something to be processed: plaintext %.40q, %d messages to send, error %v, events %s",
				version, size, k, len(long), len(longText), i+1, m, i+1, len(shortText), m, piece, plain, len(ts), err, lastEvents))
			l.enqueue(b, ts)
			break
		}
	}
	// the shorter message, delivered completely, arrives exactly once
	got := 0
	for _, p := range short {
		plain, ts, _, _ := w.recv(b, p)
		if w.dead {
			return
		}
		if plain != nil && bytes.Equal(plain, shortText) {
			got++
		} else if plain != nil {
			got += 100
		}
		l.enqueue(b, ts)
	}
	olog.ok("C14")
	if got != 1 {
		olog.viol("C14", "lossy-or-duplicated", fmt.Sprintf("OTRv%d: a text of %d bytes in %d pieces, delivered in order after a forgotten stream, was not delivered exactly once (code %d)", version, len(shortText), m, got))
	}
	for len(l.qba) > 0 {
		l.deliver(false)
	}
	for len(l.qab) > 0 {
		l.deliver(true)
	}
}

// "k,n,payload," -> "payload,"
// C14 / C15: a conversation committed to OTRv3 and bound to its peer is collecting a fragmented data message; a piece
// in the OTRv2 format (no instance tags: `?OTR,k,n,piece,`) with the right numbers arrives from somebody else. A v3
// conversation takes pieces only in the v3 format (the tags are what tells the peer's stream from a stranger's): the
// tagless piece must cause nothing, and the peer's genuine last piece must then complete the message, exactly once.
func (g *gen) taglessPieceInV3Stream(w *world, k int) {
	w.parties = map[string]*party{}
	w.dead = false
	a := w.newParty(partyCfg{policies: 4 | (k%2)*2, keyIdx: 0, errh: true})
	b := w.newParty(partyCfg{policies: 4 | (k%2)*2, keyIdx: 1, errh: k%4 < 2})
	l := &link{w: w, a: a, b: b}
	l.enqueue(a, []otr3.ValidMessage{[]byte("?OTRv3?")})
	l.settle(60)
	if !a.c.IsEncrypted() || !b.c.IsEncrypted() || w.dead {
		return
	}
	size := 100 + g.r.Intn(150)
	a.c.SetFragmentSize(uint16(size))
	w.g.out.emit(fmt.Sprintf("setfrag %s %d", a.id, size), "ok")
	text := append([]byte(fmt.Sprintf("<tagless-%d>", g.r.Intn(1000000))), bytes.Repeat([]byte("x"), 300+g.r.Intn(300))...)
	pieces, err := w.send(a, text)
	n := len(pieces)
	if err != nil || n < 2 || w.dead {
		return
	}
	g.dist["frag:tagless-piece-in-v3-stream"]++
	pos := n - 1 // the forged piece stands in for the last one …
	if k%3 == 1 {
		pos = 1 + g.r.Intn(n-1) // … or for any later one
	}
	for i := 0; i < pos; i++ {
		plain, ts, err, panicked := w.recv(b, pieces[i])
		if panicked || !quietDelivery(plain, ts, err) {
			return
		}
	}
	body := pieces[pos][bytes.IndexByte(pieces[pos], ',')+1:]
	forged := []byte(fmt.Sprintf("?OTR,%05d,%05d,%s", pos+1, n, fragPayload(body)))
	before := len(b.received)
	plain, ts, err, panicked := w.recv(b, forged)
	if panicked {
		return
	}
	olog.ok("C14")
	if plain != nil || len(b.received) != before {
		olog.viol("C14", "tagless-piece-completes-v3-stream", fmt.Sprintf("OTRv3 session, fragment size %d: after the genuine pieces 1..%d of %d, the piece %.40q… in the OTRv2 format (no instance tags) made the conversation process a message: plaintext %.40q, %d messages to send, error %v", size, pos, n, forged, plain, len(ts), err))
		return
	}
	for i := pos; i < n; i++ {
		w.recv(b, pieces[i])
	}
	got := 0
	for _, p := range b.received[before:] {
		if bytes.Equal(p, text) {
			got++
		}
	}
	if got != 1 {
		olog.viol("C14", "stream-lost-to-tagless-piece", fmt.Sprintf("OTRv3 session, fragment size %d: a piece in the OTRv2 format (no instance tags) arrived after the genuine pieces 1..%d of %d; the genuine remaining pieces then delivered the text %d times (expected once)", size, pos, n, got))
	}
}

func fragPayload(body []byte) []byte {
	for i := 0; i < 2; i++ {
		body = body[bytes.IndexByte(body, ',')+1:]
	}
	return body
}

// reports whether what it injected legitimately disturbs a stream in progress (a piece of the stream
// itself, out of turn)
func (g *gen) injectHostileFragment(w *world, to, from *party, pieces []otr3.ValidMessage, i int, delivered map[string]int) (disruptive bool) {
	var m []byte
	ot, tt := otr3.VerifSnapshot(from.c).OurTag, otr3.VerifSnapshot(to.c).OurTag
	switch g.r.Intn(7) {
	case 0: // illegal index 0
		m = []byte(fmt.Sprintf("?OTR|%08x|%08x,00000,00003,abc,", ot, tt))
	case 1: // index > total
		m = []byte(fmt.Sprintf("?OTR|%08x|%08x,00005,00003,abc,", ot, tt))
	case 2: // foreign instance
		m = []byte(fmt.Sprintf("?OTR|%08x|%08x,00001,00001,?OTRv23?,", ot+1, tt))
	case 3: // garbage fragment
		m = []byte("?OTR|zzzz,1,1,x,")
	case 4: // duplicate of an earlier piece
		if i > 0 {
			m = append([]byte{}, pieces[g.r.Intn(i)]...)
			disruptive = true
		} else {
			m = []byte("?OTR,00000,00000,,")
		}
	case 5: // v2 style illegal
		m = []byte("?OTR,00002,00001,abc,")
	default: // too few parts
		m = []byte(fmt.Sprintf("?OTR|%08x|%08x,00001,abc,", ot, tt))
	}
	plain, _, _, _ := w.recv(to, m)
	if plain != nil {
		delivered[string(plain)]++
	}
	_ = bytes.Equal
	return disruptive
}


// one message in more than 32767 pieces (index and total beyond the positive range of a signed
// 16 bit number, still legal): one payload byte per piece
func (g *gen) manyFragments(w *world) {
	w.parties = map[string]*party{}
	w.dead = false
	version := 2 + g.r.Intn(2)
	pol, hdr := 2, 17
	if version == 3 {
		pol, hdr = 4, 35
	}
	a := w.newParty(partyCfg{policies: pol, keyIdx: 0, errh: true})
	b := w.newParty(partyCfg{policies: pol, keyIdx: 1, errh: true})
	l := &link{w: w, a: a, b: b}
	l.enqueue(a, []otr3.ValidMessage{w.query(a)})
	l.settle(50)
	if !a.c.IsEncrypted() || !b.c.IsEncrypted() {
		return
	}
	size := hdr + 2
	a.c.SetFragmentSize(uint16(size))
	w.g.out.emit(fmt.Sprintf("setfrag %s %d", a.id, size), "ok")
	text := make([]byte, 24600+g.r.Intn(300))
	for i := range text {
		text[i] = byte('a' + g.r.Intn(26))
	}
	pieces, err := w.send(a, text)
	if err != nil || w.dead {
		return
	}
	g.dist[fmt.Sprintf("frag:many-pieces:%dk", len(pieces)/1000)]++
	delivered := 0
	for _, p := range pieces {
		plain, _, _, _ := w.recv(b, p)
		if plain != nil {
			delivered++
			if !bytes.Equal(plain, text) {
				olog.viol("C14", "lossy-or-duplicated", fmt.Sprintf("OTRv%d: a text of %d bytes sent in %d pieces arrived altered", version, len(text), len(pieces)))
			}
		}
	}
	olog.ok("C14")
	olog.ok("C04")
	if delivered != 1 {
		olog.viol("C14", "lossy-or-duplicated", fmt.Sprintf("OTRv%d: a text of %d bytes sent in %d pieces (fragment size %d) was delivered %d times", version, len(text), len(pieces), size, delivered))
		olog.viol("C04", "text-not-delivered-exactly-once", fmt.Sprintf("OTRv%d: a text of %d bytes sent in %d pieces (fragment size %d) was delivered %d times", version, len(text), len(pieces), size, delivered))
	}
}

// ---------- two sender instances before the conversation knows any (C14) ----------

// the only thing a piece of another instance may cause: the notice that it was for somebody else
func onlyForeignNotices() bool {
	ev := fmt.Sprintf("msg:%d", int(otr3.MessageEventReceivedMessageForOtherInstance))
	if lastEvents == "[]" {
		return true
	}
	for _, e := range bytes.Split([]byte(lastEvents[1:len(lastEvents)-1]), []byte(",")) {
		if string(e) != ev {
			return false
		}
	}
	return true
}

type instArrival struct {
	owner bool // a piece of the stream that arrived first (the instance the conversation listens to from then on)
	ix    int  // 0-based index in its stream
}

// an arrival order of the pieces of two streams (n pieces of the owner, m of the other instance), each
// stream in order, the owner's first piece first, the streams interleaving before the owner's completes
func (g *gen) twoInstanceOrder(pattern, n, m int) (order []instArrival, name string) {
	put := func(owner bool, from, to int) {
		for i := from; i < to; i++ {
			order = append(order, instArrival{owner, i})
		}
	}
	k := 1 + g.r.Intn(n-1) // 1..n-1 pieces of the owner first
	switch pattern {
	case 0: // the other instance's pieces k+1.. follow the owner's 1..k; later everything else
		name = "owner 1..k, other k+1.., owner k+1.., other from its first piece on"
		if k >= m {
			k = m - 1
		}
		put(true, 0, k)
		put(false, k, m)
		put(true, k, n)
		put(false, 0, m)
	case 1: // the other instance starts its own stream in between
		name = "owner 1..k, other 1..j, owner k+1.., other j+1.."
		j := 1 + g.r.Intn(m)
		put(true, 0, k)
		put(false, 0, j)
		put(true, k, n)
		put(false, j, m)
	default: // any merge that starts with the owner's first piece and has a foreign piece before the owner's last
		name = "random merge"
		i, j := 1, 0
		order = append(order, instArrival{true, 0})
		for i < n || j < m {
			if j < m && (i >= n || g.r.Intn(2) == 0 || (i == n-1 && j == 0)) {
				order = append(order, instArrival{false, j})
				j++
			} else {
				order = append(order, instArrival{true, i})
				i++
			}
		}
	}
	return
}

// Two client instances of the peer's account address a conversation that has not accepted anything
// from any instance yet (OTRv3, peer instance unknown), each with a fragmented message; their pieces
// interleave on the wire. The conversation listens to the instance whose piece arrives first. Property:
// a piece of the other instance causes nothing (but the notice that it was meant for somebody else),
// a piece that is not the last one of the owner's stream causes nothing at all, and the last piece of
// the owner's stream causes exactly the owner's message to be processed - whatever arrived in between.
//
//	kind 0: hand-made pieces of an unencrypted text          (processed = delivered as plaintext)
//	kind 1: hand-made pieces of a query message               (processed = one D-H Commit goes out)
//	kind 2: the fragmented D-H Commits by which two real clients answer our query
//	        (processed = one D-H Key goes out, to the owner, and the key exchange with it completes)
//	kind 3: inside the handshake: the fragmented D-H Keys by which two real clients answer our D-H Commit
//	        (processed = one Reveal Signature goes out, to the owner, and the key exchange completes)
func (g *gen) twoInstancesBeforeBinding(w *world, kind, pattern int) {
	w.parties = map[string]*party{}
	w.dead = false
	tag := func() uint32 { return 0x100 + g.r.Uint32()%0xfffffe00 }
	rt, t1, t2 := tag(), tag(), tag()
	for t2 == t1 {
		t2 = tag()
	}
	r := w.newParty(partyCfg{policies: 4, keyIdx: 1, errh: true, tag: rt})
	kinds := []string{"unencrypted text", "query message", "D-H Commit (two clients answer our query)", "D-H Key (two clients answer our D-H Commit)"}
	expect := []string{"the owner's text as plaintext, nothing to send", "one D-H Commit to send, addressed to the owner", "one D-H Key to send, addressed to the owner", "one Reveal Signature to send, addressed to the owner"}
	var streams [2][][]byte // [0] the owner's, [1] the other instance's
	var wholes [2][]byte
	var clients [2]*party
	tags := [2]uint32{t1, t2}
	switch kind {
	case 0, 1:
		w.query(r) // our query went out; nothing came back yet
		n := 2 + g.r.Intn(4)
		m := n
		if pattern != 0 && g.r.Intn(3) == 0 {
			m = 2 + g.r.Intn(4)
		}
		for s := 0; s < 2; s++ {
			if kind == 0 {
				b := make([]byte, 12+g.r.Intn(60))
				for i := range b {
					b[i] = byte('a' + g.r.Intn(26))
				}
				wholes[s] = append([]byte(fmt.Sprintf("client %d says %d ", s+1, g.r.Intn(1000000))), b...)
			} else {
				wholes[s] = [][]byte{[]byte("?OTRv3?"), []byte("?OTRv23?"), []byte("?OTRv3? let us talk in private"), []byte("?OTRv34x?")}[g.r.Intn(4)]
			}
			cnt := []int{n, m}[s]
			rcv := uint32(0) // a client that has not heard from us addresses no instance - or it knows ours
			if g.r.Intn(2) == 0 {
				rcv = rt
			}
			for i := 0; i < cnt; i++ {
				part := wholes[s][i*len(wholes[s])/cnt : (i+1)*len(wholes[s])/cnt]
				streams[s] = append(streams[s], []byte(fmt.Sprintf("?OTR|%08x|%08x,%05d,%05d,%s,", tags[s], rcv, i+1, cnt, part)))
			}
		}
	default:
		var opening []byte
		if kind == 2 {
			opening = w.query(r)
		} else {
			// a query reaches us (it names no instance): our D-H Commit goes to every client of the account
			_, ts, err, _ := w.recv(r, []byte("?OTRv3?"))
			if w.dead || err != nil || len(ts) != 1 {
				return
			}
			opening = ts[0]
		}
		size := 35 + 30 + g.r.Intn(200)
		for s := 0; s < 2; s++ {
			clients[s] = w.newParty(partyCfg{policies: 4, keyIdx: 0, errh: true, tag: tags[s], fragSize: size})
			_, ts, err, _ := w.recv(clients[s], opening)
			if w.dead || err != nil || len(ts) < 2 {
				return
			}
			for _, p := range ts {
				streams[s] = append(streams[s], []byte(p))
			}
		}
	}
	n, m := len(streams[0]), len(streams[1])
	if pattern == 0 && n != m {
		pattern = 1
	}
	order, pname := g.twoInstanceOrder(pattern, n, m)
	g.dist[fmt.Sprintf("frag:two-instances:%d:%d", kind, pattern)]++
	var what []string
	processed := 0
	key := "glued-from-two-instances"
	if kind >= 2 {
		key = "glued-from-two-instances-in-handshake"
	}
	var reply []otr3.ValidMessage
	for _, a := range order {
		s := 1
		if a.owner {
			s = 0
		}
		piece := streams[s][a.ix]
		what = append(what, fmt.Sprintf("%s %d/%d", []string{"owner", "other"}[s], a.ix+1, len(streams[s])))
		plain, ts, err, panicked := w.recv(r, piece)
		if panicked {
			return
		}
		olog.ok("C14")
		describe := func() string {
			return fmt.Sprintf("OTRv3 conversation that knows no peer instance yet, two sender instances %#x (owner: its first piece arrived first) and %#x, payload %s, %d and %d pieces, arrival order (%s) %v: the last arrival %.60q… caused plaintext %.60q, %d messages to send, error %v, events %s",
				tags[0], tags[1], kinds[kind], n, m, pname, what, piece, plain, len(ts), err, lastEvents)
		}
		last := a.owner && a.ix == n-1
		switch {
		case !a.owner:
			if plain != nil || len(ts) > 0 || err != nil || !onlyForeignNotices() {
				olog.viol("C14", key, "a piece of another instance than the one whose stream is in progress caused something to be processed: "+describe())
				return
			}
		case !last:
			if !quietDelivery(plain, ts, err) {
				olog.viol("C14", key, "a piece that completes no stream caused something to be processed: "+describe())
				return
			}
		default:
			processed++
			good := err == nil
			addressed := ""
			switch kind {
			case 0:
				good = good && bytes.Equal(plain, wholes[0]) && len(ts) == 0
			default:
				// one message goes out (we do not fragment), addressed to the owner
				good = good && plain == nil && len(ts) == 1
				if good {
					to, from, ok := otr3.ExtractInstanceTags(ts[0])
					good = ok && from == rt && to == tags[0]
					if !good {
						addressed = fmt.Sprintf(" (the message to send is from instance %#x to instance %#x; we are %#x)", from, to, rt)
					}
				}
			}
			if !good {
				olog.viol("C14", key, "the last piece of the owner's stream did not cause exactly the owner's message to be processed (expected: "+expect[kind]+"): "+describe()+addressed)
				return
			}
			reply = ts
		}
	}
	if processed != 1 {
		return // cannot happen: the order contains the owner's last piece once
	}
	if kind < 2 {
		return
	}
	// the key exchange with the owner completes, and only with the owner
	l := &link{w: w, a: clients[0], b: r}
	l.enqueue(r, reply)
	l.settle(60)
	if w.dead {
		return
	}
	olog.ok("C14")
	if !clients[0].c.IsEncrypted() || !r.c.IsEncrypted() || clients[1].c.IsEncrypted() || r.c.GetTheirInstanceTag() != tags[0] {
		olog.viol("C14", "lossy-or-duplicated", fmt.Sprintf("OTRv3 conversation that knew no peer instance, two clients %#x and %#x answering with a fragmented %s each (%d and %d pieces, arrival order (%s) %v): after the first client's message was completed and every reply delivered, the key exchange with it is not complete (encrypted: first client %v, we %v, other client %v; we talk to instance %#x)",
			tags[0], tags[1], kinds[kind], n, m, pname, what, clients[0].c.IsEncrypted(), r.c.IsEncrypted(), clients[1].c.IsEncrypted(), r.c.GetTheirInstanceTag()))
		return
	}
	text := append([]byte(fmt.Sprintf("<two-instances-%d> ", g.r.Intn(1000000))), g.cleanText()...)
	ps, err := w.send(clients[0], text)
	if err != nil || w.dead {
		return
	}
	got := 0
	for _, p := range ps {
		plain, ts, _, _ := w.recv(r, p)
		if w.dead {
			return
		}
		if plain != nil && bytes.Equal(plain, text) {
			got++
		} else if plain != nil {
			got += 100
		}
		l.enqueue(r, ts)
	}
	l.settle(10)
	olog.ok("C14")
	if got != 1 {
		olog.viol("C14", "lossy-or-duplicated", fmt.Sprintf("OTRv3 session established after two clients' fragmented %ss interleaved: a text of %d bytes in %d pieces from the client we talk to was not delivered exactly once (code %d)", kinds[kind], len(text), len(ps), got))
	}
}

func init() {
	profiles["frag"] = func(seed int64, n int, out *emitter, extra map[string]interface{}) map[string]int {
		g := &gen{r: rand.New(rand.NewSource(seed)), out: out, dist: map[string]int{}}
		olog = &oracleLog{checked: map[string]int{}, out: out}
		w := newWorld(g)
		for i := 0; i < n; i++ {
			w.parties = map[string]*party{}
			w.dead = false
			g.fragScenario(w)
		}
		g.manyFragments(w)
		// appended scenarios (after everything that existed before, so that those traces stay what they were)
		for kind := 0; kind < 4 && !w.dead; kind++ {
			for pattern := 0; pattern < 3; pattern++ {
				g.twoInstancesBeforeBinding(w, kind, pattern)
			}
		}
		for k := 0; k < 6 && !w.dead; k++ {
			g.taglessPieceInV3Stream(w, k)
		}
		extra["panics"] = panicCount
		olog.export(extra)
		return g.dist
	}
}
