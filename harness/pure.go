package main

// Profile "pure": function-level differential inputs for the codec, message
// (de)serialisers, base64, fragmentation and parsing helpers.
// Each op is written as one line to the ops file; the implementation's result as
// one line to the impl file. The Lean driver reads the ops file and must print
// the same result lines.

import (
	"bytes"
	"encoding/binary"
	"encoding/hex"
	"fmt"
	"math/big"
	"math/rand"
	"strconv"
	"strings"

	otr3 "github.com/coyim/otr3"
)

type gen struct {
	r    *rand.Rand
	out  *emitter
	dist map[string]int
	// smp profile: craft the degenerate SMP message 2 in the next deviant scenario
	forceDegenerate bool
	forcePlusQ *[2]int // smp profile: next deviant = exponent field [1] of SMP TLV type [0] increased by the group order q
	// pure profile: number of piece-count boundary cases emitted so far (fragCountEdge)
	fragEdges int
}

func (g *gen) bytesN(n int) []byte {
	b := make([]byte, n)
	g.r.Read(b)
	return b
}

// length distribution biased to boundaries
func (g *gen) smallLen() int {
	switch g.r.Intn(10) {
	case 0:
		return 0
	case 1:
		return 1
	case 2:
		return g.r.Intn(4)
	case 3:
		return 15 + g.r.Intn(3)
	case 4:
		return 19 + g.r.Intn(3)
	case 5:
		return 255 + g.r.Intn(3)
	default:
		return g.r.Intn(64)
	}
}

func (g *gen) blob() []byte { return g.bytesN(g.smallLen()) }

// an MPI value as minimal big-endian bytes (possibly empty = 0)
func (g *gen) mpiBytes() []byte {
	b := g.blob()
	for len(b) > 0 && b[0] == 0 {
		b = b[1:]
	}
	return b
}

func (g *gen) mutate(b []byte) []byte {
	b = append([]byte{}, b...)
	switch g.r.Intn(8) {
	case 0: // truncate
		if len(b) > 0 {
			b = b[:g.r.Intn(len(b))]
		}
	case 1: // flip a byte
		if len(b) > 0 {
			b[g.r.Intn(len(b))] ^= byte(1 << uint(g.r.Intn(8)))
		}
	case 2: // extend
		b = append(b, g.blob()...)
	case 3: // set a length-looking prefix byte high
		if len(b) > 3 {
			i := g.r.Intn(len(b) - 3)
			b[i] = byte(g.r.Intn(256))
		}
	case 4: // zero a byte
		if len(b) > 0 {
			b[g.r.Intn(len(b))] = 0
		}
	case 5: // drop a byte inside
		if len(b) > 1 {
			i := g.r.Intn(len(b))
			b = append(b[:i], b[i+1:]...)
		}
	default: // leave
	}
	return b
}

func hx(b []byte) string {
	if len(b) == 0 {
		return "-"
	}
	return fmt.Sprintf("%x", b)
}

func hxList(bs [][]byte) string {
	if len(bs) == 0 {
		return "[]"
	}
	var s []string
	for _, b := range bs {
		s = append(s, hx(b))
	}
	return "[" + strings.Join(s, ",") + "]"
}

func (g *gen) build(kind string, nums []uint64, bs [][]byte) []byte {
	res := otr3.VerifBuild(kind, nums, bs)
	var ns []string
	for _, n := range nums {
		ns = append(ns, fmt.Sprint(n))
	}
	var hs []string
	for _, b := range bs {
		hs = append(hs, hx(b))
	}
	g.out.emit(fmt.Sprintf("build %s %s ; %s", kind, strings.Join(ns, " "), strings.Join(hs, " ")), hx(res))
	g.dist["build:"+kind]++
	return res
}

func (g *gen) parse(kind string, msg []byte) {
	res := otr3.VerifParse(kind, msg)
	g.out.emit(fmt.Sprintf("parse %s %s", kind, hx(msg)), res)
	tag := "some"
	if strings.HasPrefix(res, "none") || strings.HasPrefix(res, "false") {
		tag = "none"
	}
	g.dist["parse:"+kind+":"+tag]++
}

func (g *gen) tlvTriples(n int) ([]uint64, [][]byte) {
	var nums []uint64
	var bs [][]byte
	for i := 0; i < n; i++ {
		v := g.blob()
		l := uint64(len(v))
		if g.r.Intn(12) == 0 { // inconsistent length field
			l = uint64(g.r.Intn(70000))
		}
		nums = append(nums, uint64(g.r.Intn(12)), l)
		bs = append(bs, v)
	}
	return nums, bs
}

func (g *gen) onePure() {
	switch g.r.Intn(24) {
	case 0:
		b := g.build("dhcommit", nil, [][]byte{g.blob(), g.blob()})
		g.parse("dhcommit", b)
		g.parse("dhcommit", g.mutate(b))
	case 1:
		b := g.build("dhkey", nil, [][]byte{g.mpiBytes()})
		g.parse("dhkey", b)
		g.parse("dhkey", g.mutate(b))
	case 2:
		mac := g.bytesN(20 + g.r.Intn(13))
		es := otr3.AppendData(nil, g.blob())
		b := g.build("revealsig", nil, [][]byte{g.bytesN(16), es, mac})
		g.parse("revealsig", b)
		g.parse("revealsig", g.mutate(b))
	case 3:
		mac := g.bytesN(20 + g.r.Intn(13))
		es := otr3.AppendData(nil, g.blob())
		b := g.build("sig", nil, [][]byte{es, mac})
		g.parse("sig", b)
		g.parse("sig", g.mutate(b))
	case 4, 5, 6:
		ctr := g.bytesN(8)
		if g.r.Intn(10) == 0 {
			ctr = make([]byte, 8)
		}
		bs := [][]byte{g.mpiBytes(), ctr, g.blob(), g.bytesN(20)}
		for i := g.r.Intn(4); i > 0; i-- {
			bs = append(bs, g.bytesN(20))
		}
		nums := []uint64{uint64(g.r.Intn(256)), uint64(g.r.Uint32()), uint64(g.r.Uint32())}
		b := g.build("data", nums, bs)
		g.parse("data", b)
		g.parse("data", g.mutate(b))
		// truncation at every boundary class
		if len(b) > 0 {
			g.parse("data", b[:g.r.Intn(len(b))])
		}
		g.build("dataunsigned", nums, bs[:3])
	case 7, 8:
		text := g.blob()
		for i := range text { // mostly NUL-free text
			if text[i] == 0 && g.r.Intn(4) != 0 {
				text[i] = 'x'
			}
		}
		nums, vs := g.tlvTriples(g.r.Intn(4))
		if g.r.Intn(4) == 0 { // TLVs without a value, also in last position (disconnect, SMP abort)
			nums, vs = append(nums, uint64(g.r.Intn(12)), 0), append(vs, []byte{})
		}
		b := g.build("plain", nums, append([][]byte{text}, vs...))
		g.parse("plain", b)
		g.roundTripPlain(text, nums, vs, b)
		g.parse("plain", g.mutate(b))
		g.build("plainpad", nums, append([][]byte{text}, vs...))
	case 9:
		nums, vs := g.tlvTriples(1)
		b := g.build("tlv", nums, vs)
		g.parse("tlv", b)
		g.parse("tlv", g.mutate(b))
	case 10, 11:
		kinds := []struct {
			k  string
			tp uint64
			n  int
		}{{"smp1", 2, 6}, {"smp2", 3, 11}, {"smp3", 4, 8}, {"smp4", 5, 3}}
		k := kinds[g.r.Intn(len(kinds))]
		n := k.n
		if g.r.Intn(6) == 0 {
			n = g.r.Intn(14)
		}
		var bs [][]byte
		for i := 0; i < n; i++ {
			bs = append(bs, g.mpiBytes())
		}
		t := g.build("smptlv", []uint64{k.tp}, bs)
		// payload = TLV value (skip 4 byte TLV header)
		if len(t) >= 4 {
			g.parse(k.k, t[4:])
			if n == k.n {
				g.roundTripSMP(k.k, bs, nil, t)
			}
			g.parse(k.k, g.mutate(t[4:]))
		}
	case 12:
		var bs [][]byte
		for i := 0; i < 6; i++ {
			bs = append(bs, g.mpiBytes())
		}
		q := g.blob()
		maximal := g.r.Intn(25) == 0
		if maximal {
			// the longest question the 16 bit length field of a TLV has room for (or one byte less):
			// value = question, NUL, count, six length-prefixed integers = 65535 bytes
			room := 65535 - 1 - 4
			for _, b := range bs {
				room -= 4 + len(b)
			}
			q = g.bytesN(room - g.r.Intn(2))
		}
		for i := range q {
			if q[i] == 0 {
				q[i] = '?'
			}
		}
		t := g.build("smp1q", nil, append(bs, q))
		if len(t) >= 4 {
			g.parse("smp1q", t[4:])
			g.roundTripSMP("smp1q", bs, q, t)
			if !maximal {
				g.parse("smp1q", g.mutate(t[4:]))
			}
		}
	case 13:
		var bs [][]byte
		for i := g.r.Intn(5); i > 0; i-- {
			bs = append(bs, g.mpiBytes())
		}
		b := g.build("mpis", nil, bs)
		g.parse("mpis", b)
		g.parse("mpis", g.mutate(b))
		// C17 "integers are emitted in minimal form and lengths always match contents": judged on the implementation
		// with the public AppendMPI / AppendMPIs / ExtractMPI(s) — zero is the empty integer, no leading zero byte
		for _, mb := range append(bs, nil, []byte{1}, []byte{0x80}) {
			olog.ok("C17")
			v := new(big.Int).SetBytes(mb)
			ser := otr3.AppendMPI(nil, v)
			if len(ser) < 4 || int(binary.BigEndian.Uint32(ser)) != len(ser)-4 || len(ser)-4 != len(v.Bytes()) || !bytes.Equal(ser[4:], v.Bytes()) {
				olog.viol("C17", "mpi-not-minimal", fmt.Sprintf("AppendMPI(%x) = %x: the length field must be %d and the value the %d significant bytes (zero is the empty integer)", v, ser, len(v.Bytes()), len(v.Bytes())))
			}
			if rest, back, ok := otr3.ExtractMPI(ser); !ok || len(rest) != 0 || back.Cmp(v) != 0 {
				olog.viol("C17", "mpi-round-trip-differs", fmt.Sprintf("ExtractMPI(AppendMPI(%x)) = %v, %x rest, ok=%v", v, back, rest, ok))
			}
		}
		// huge counts
		huge := append([]byte{byte(g.r.Intn(256)), byte(g.r.Intn(256)), byte(g.r.Intn(256)), byte(g.r.Intn(256))}, g.blob()...)
		g.parse("mpis", huge)
	case 14:
		b := g.blob()
		for _, k := range []string{"mpi", "dat", "word", "short", "long"} {
			g.parse(k, b)
		}
		g.parse("mpi", otr3.AppendData(nil, g.blob()))
	case 15, 16:
		b := g.blob()
		enc := otr3.VerifB64Encode(b)
		g.out.emit("b64enc "+hx(b), hx(enc))
		g.out.emit("b64dec "+hx(enc), otr3.VerifB64Decode(enc))
		m := g.mutate(enc)
		if g.r.Intn(3) == 0 && len(m) > 0 { // sprinkle CR/LF/'='
			m[g.r.Intn(len(m))] = []byte{'\n', '\r', '=', ' '}[g.r.Intn(4)]
		}
		if g.r.Intn(4) == 0 {
			m = append(m, []byte{'=', '\n', 'A'}[g.r.Intn(3)])
		}
		res := otr3.VerifB64Decode(m)
		g.out.emit("b64dec "+hx(m), res)
		g.dist["b64dec:"+res[:4]]++
	case 17:
		pre := []string{"?OTR:AAMC", "?OTR:AAIC", "?OTR:AAMK", "?OTR:AAIK", "?OTR:AAMR", "?OTR:AAIR", "?OTR:AAMS", "?OTR:AAIS",
			"?OTR:AAED", "?OTR:AAID", "?OTR:AAMD", "?OTR?", "?OTRv", "?OTR:AAEK", "?OTR Error:", "?OTR|", "?OTR,", "?OTR", "?OT",
			"hello", " \t  \t\t\t\t \t \t \t  ", "", "?OTR:"}
		p := []byte(pre[g.r.Intn(len(pre))])
		if g.r.Intn(4) == 0 && len(p) > 0 {
			p = p[:g.r.Intn(len(p)+1)]
		}
		msg := append(g.blobText(), append(p, g.blobText()...)...)
		if g.r.Intn(2) == 0 {
			msg = append(p, g.blobText()...)
		}
		g.out.emit("guess "+hx(msg), fmt.Sprint(otr3.VerifGuessMessageType(msg)))
	case 18, 19, 20:
		g.fragCase()
	case 21:
		// number parsers
		s := g.numText()
		g.out.emit("u16 "+hx(s), otr3.VerifBytesToUint16(s))
		g.out.emit("itag "+hx(s), otr3.VerifParseItag(s))
	case 22:
		body := g.fragBody()
		g.out.emit("parsefrag "+hx(body), otr3.VerifParseFragment(body))
	case 23:
		if g.r.Intn(2) == 0 {
			g.fragArrivals()
			break
		}
		// reassembly switch from an arbitrary context
		idx := uint16(g.r.Intn(5))
		ln := uint16(g.r.Intn(5))
		if g.r.Intn(10) == 0 {
			idx = 65535
			ln = 65535
		}
		frag := g.blobText()
		body := g.fragBody()
		g.out.emit(fmt.Sprintf("fragaccept %s %d %d %s", hx(frag), idx, ln, hx(body)), otr3.VerifFragAccept(frag, idx, ln, body))
	}
}

func (g *gen) blobText() []byte {
	b := g.blob()
	for i := range b {
		b[i] = "abc ,|?\t0159"[int(b[i])%12]
	}
	return b
}

func (g *gen) numText() []byte {
	switch g.r.Intn(10) {
	case 0:
		return []byte{}
	case 1:
		return []byte("-" + fmt.Sprint(g.r.Intn(70000)))
	case 2:
		return []byte("+" + fmt.Sprint(g.r.Intn(70000)))
	case 3:
		return []byte(fmt.Sprintf("%05d", g.r.Intn(70000)))
	case 4:
		return []byte(fmt.Sprintf("%08x", g.r.Uint32()))
	case 5:
		return []byte(fmt.Sprintf("%X", g.r.Uint64()))
	case 6:
		return []byte(fmt.Sprintf("%d%d", g.r.Uint64(), g.r.Uint64()))
	case 7:
		return []byte([]string{"9223372036854775807", "9223372036854775808", "-9223372036854775808", "-9223372036854775809", "7fffffffffffffff", "8000000000000000", "-8000000000000000", "-8000000000000001", "0x10", "1_0", " 1", "1 ", "-", "+", "00000", "65535", "65536", "65537"}[g.r.Intn(18)])
	default:
		return g.blobText()
	}
}

func (g *gen) fragBody() []byte {
	data := g.blobText()
	if g.r.Intn(2) == 0 {
		for i := range data {
			if data[i] == ',' {
				data[i] = 'A'
			}
		}
	}
	ix := fmt.Sprintf("%05d", g.r.Intn(6))
	ln := fmt.Sprintf("%05d", g.r.Intn(6))
	switch g.r.Intn(10) {
	case 0:
		ix = string(g.numText())
	case 1:
		ln = string(g.numText())
	}
	tail := ","
	if g.r.Intn(8) == 0 {
		tail = ""
	}
	if g.r.Intn(8) == 0 {
		tail = ",x"
	}
	return []byte(ix + "," + ln + "," + string(data) + tail)
}

func (g *gen) fragCase() {
	v := 2 + g.r.Intn(2)
	itags := g.r.Uint32()
	itagr := g.r.Uint32()
	if g.r.Intn(3) == 0 {
		itagr = 0
	}
	var n int
	switch g.r.Intn(8) {
	case 0:
		n = g.r.Intn(3)
	case 1:
		n = 60000 + g.r.Intn(12000)
	case 2:
		n = 65530 + g.r.Intn(12)
	default:
		n = g.r.Intn(600)
	}
	data := make([]byte, n)
	for i := range data {
		data[i] = "ABCDEFGHIJKLMNOPQRSTUVWXYZabcdefghijklmnopqrstuvwxyz0123456789+/"[g.r.Intn(64)]
	}
	hdr := 18
	if v == 3 {
		hdr = 36
	}
	var size int
	switch g.r.Intn(8) {
	case 0:
		size = 0
	case 1:
		size = g.r.Intn(hdr + 3)
	case 2:
		size = hdr + g.r.Intn(4)
	case 3:
		size = 65535 - g.r.Intn(3)
	case 4:
		if n > 0 {
			size = n - 1 + g.r.Intn(3)
		}
	default:
		size = hdr + 2 + g.r.Intn(300)
	}
	if size > 65535 {
		size = 65535
	}
	if size < 0 {
		size = 0
	}
	// keep piece counts (and output volume) reasonable except for a few cases
	if size > hdr+1 && n/(size-hdr-1) > 300 && g.r.Intn(20) != 0 {
		size = hdr + 1 + n/100 + 1
	}
	g.fragEmit(v, itags, itagr, size, data, "")
	if g.r.Intn(4) == 0 {
		i := g.r.Intn(70000)
		t := g.r.Intn(70000)
		g.out.emit(fmt.Sprintf("fragprefix %d %d %d %d %d", v, i, t, itags, itagr), hx(otr3.VerifFragmentPrefix(v, i, t, itags, itagr)))
	}
}

// fragEmit runs Conversation.fragment on one input, emits the op for the model and checks the
// result against the property (C14) on the Go side. `what` describes how the data was made when it
// is too long to be quoted in a violation report.
func (g *gen) fragEmit(v int, itags, itagr uint32, size int, data []byte, what string) {
	res := otr3.VerifFragment(v, itags, itagr, data, uint16(size))
	g.out.emit(fmt.Sprintf("frag %d %d %d %d %s", v, itags, itagr, size, hx(data)), fragDigest(res))
	g.dist[fmt.Sprintf("frag:pieces=%s", bucket(len(res)))]++
	g.fragOracle(v, itags, itagr, size, data, what, res)
}

// C14, sender side, on the implementation itself: for a fragment size that leaves room for at least
// one payload byte after the header and the separator, the pieces are each no longer than the size,
// every one of them is a fragment a receiver can read (index and total are 16 bit numbers, 1 <= k <= n),
// they are numbered 1..n of n, and the payloads put together in order are the original message. A
// message that would need more pieces than the 16 bit total can count goes out whole (that is what
// the unchanged library does, and the only thing a peer can read); a message left whole although
// fewer pieces would do is not bounded by the size.
func (g *gen) fragOracle(v int, itags, itagr uint32, size int, data []byte, what string, res [][]byte) {
	if olog == nil {
		return
	}
	// payload bytes per piece: the size less the header ("?OTR,k,n," = 17 bytes,
	// "?OTR|itag|itag,k,n," = 35 bytes) and the comma that ends the piece
	room := size - len(otr3.VerifFragmentPrefix(v, 0, 1, itags, itagr)) - 1
	l := len(data)
	if room < 1 || l <= size {
		return // no room for a payload byte, or nothing to split: nothing is demanded here
	}
	olog.ok("C14")
	if what == "" {
		what = fmt.Sprintf("%q", data)
		if l > 80 {
			what = fmt.Sprintf("%q… (random base64 characters)", data[:80])
		}
	}
	in := fmt.Sprintf("Conversation.fragment, OTRv%d header (instance tags %08x|%08x), fragment size %d (payload per piece %d), encoded message of %d bytes = %s", v, itags, itagr, size, room, l, what)
	needed := (l + room - 1) / room
	whole := len(res) == 1 && string(res[0]) == string(data)
	if whole {
		if needed <= 65535 {
			olog.viol("C14", "not-fragmented", fmt.Sprintf("%s: left whole although %d pieces would do", in, needed))
		}
		return
	}
	if len(res) > 65535 {
		first, last := []byte{}, []byte{}
		if len(res) > 0 {
			first, last = res[0], res[len(res)-1]
		}
		olog.viol("C14", "piece-count-overflows-header", fmt.Sprintf("%s: %d pieces are produced, more than the 16 bit index and total of a fragment header can count: first piece %q, last piece %q - no receiver reads them (parseFragment of the last one: %s); the message can only be sent whole", in, len(res), first, last, otr3.VerifParseFragment(fragBodyOf(v, last))))
		return
	}
	var joined []byte
	for i, p := range res {
		if len(p) > size {
			olog.viol("C14", "piece-too-long", fmt.Sprintf("%s: piece %d of %d has %d bytes: %q", in, i+1, len(res), len(p), p))
			return
		}
		parsed := otr3.VerifParseFragment(fragBodyOf(v, p))
		f := strings.Split(parsed, " ") // "some <hex of the payload> <k> <n>"
		ix, n := 0, 0
		if len(f) == 4 {
			ix, _ = strconv.Atoi(f[2])
			n, _ = strconv.Atoi(f[3])
		}
		if len(f) != 4 || f[0] != "some" || ix < 1 || n < 1 || fragHeadOf(v, p) != fragHead(v, itags, itagr) {
			olog.viol("C14", "piece-unreadable", fmt.Sprintf("%s: piece %d of %d = %q is not a fragment a receiver can read (parseFragment: %s)", in, i+1, len(res), p, parsed))
			return
		}
		dh := f[1]
		if ix != i+1 || n != len(res) {
			olog.viol("C14", "pieces-misnumbered", fmt.Sprintf("%s: piece %d of %d = %q announces itself as %d of %d", in, i+1, len(res), p, ix, n))
			return
		}
		if dh != "-" {
			d, _ := hex.DecodeString(dh)
			joined = append(joined, d...)
		}
	}
	if string(joined) != string(data) {
		olog.viol("C14", "reassembly-differs", fmt.Sprintf("%s: the payloads of the %d pieces put together in order are %d bytes and differ from the message (first difference at byte %d)", in, len(res), len(joined), firstDiff(joined, data)))
	}
}

// the head of a fragment up to and including the first comma, as the sender must write it
func fragHead(v int, itags, itagr uint32) string {
	if v == 3 {
		return fmt.Sprintf("?OTR|%08x|%08x,", itags, itagr)
	}
	return "?OTR,"
}

func fragHeadOf(v int, p []byte) string {
	i := strings.IndexByte(string(p), ',')
	return string(p[:i+1])
}

// what follows the head: "k,n,piece,"
func fragBodyOf(v int, p []byte) []byte {
	return p[len(fragHeadOf(v, p)):]
}

func firstDiff(a, b []byte) int {
	i := 0
	for i < len(a) && i < len(b) && a[i] == b[i] {
		i++
	}
	return i
}

// Piece counts on and around the limit of the 16 bit fragment header: payload lengths r of one to a
// few bytes per piece (both header formats) and message lengths l around 65535*r and 65536*r. Up to
// l = 65535*r the message goes out in at most 65535 pieces; beyond, 65536 or more would be needed and
// it can only go out whole. The cases alternate between
//   - a length strictly between 65535*r and 65536*r (r >= 2), where the rounded-down quotient l/r is
//     still 65535 although 65536 pieces would be needed: 65535*r+1, 65535*r+r-1 = 65536*r-1, or any
//     other one, and
//   - a length on the other side of either multiple: 65536*r or 65536*r+1 (whole), and now and then
//     65535*r-1 or 65535*r (65535 pieces; with r = 1 only, since the model takes about nine seconds
//     per payload byte to replay 65535 pieces).
//
// The data is the base64 alphabet repeated from a random letter on (cheap to make, neighbouring
// pieces differ); the op carries it in hex as for every other frag case.
func (g *gen) fragCountEdge() {
	v := 2 + g.r.Intn(2)
	hdr := 18 // "?OTR,k,n," and the comma that ends the piece
	if v == 3 {
		hdr = 36 // "?OTR|itag|itag,k,n," and the comma that ends the piece
	}
	itags := g.r.Uint32()
	itagr := g.r.Uint32()
	if g.r.Intn(3) == 0 {
		itagr = 0
	}
	r := 2 + g.r.Intn(2)
	if g.r.Intn(8) == 0 {
		r = 4 + g.r.Intn(3)
	}
	var l int
	kind := ""
	inside := g.fragEdges%2 == 0
	g.fragEdges++
	switch {
	case inside:
		kind = "between-65535r-and-65536r"
		l = 65535*r + []int{1, r - 1, 1 + g.r.Intn(r-1)}[g.r.Intn(3)]
	case g.r.Intn(4) == 0:
		kind = "at-most-65535r"
		r = 1
		l = 65535*r - g.r.Intn(2)
	default:
		kind = "at-least-65536r"
		if g.r.Intn(4) == 0 {
			r = 1
		}
		l = 65536*r + g.r.Intn(2)
	}
	const alphabet = "ABCDEFGHIJKLMNOPQRSTUVWXYZabcdefghijklmnopqrstuvwxyz0123456789+/"
	rot := g.r.Intn(64)
	data := make([]byte, l)
	for i := range data {
		data[i] = alphabet[(i+rot)%64]
	}
	what := fmt.Sprintf("the base64 alphabet A-Za-z0-9+/ repeated, from %q on (%q…)", alphabet[rot], data[:8])
	g.dist["frag:count-edge:"+kind]++
	g.fragEmit(v, itags, itagr, hdr+r, data, what)
}

func bucket(n int) string {
	switch {
	case n <= 1:
		return fmt.Sprint(n)
	case n <= 4:
		return "2-4"
	case n <= 32:
		return "5-32"
	case n <= 1024:
		return "33-1024"
	default:
		return ">1024"
	}
}

// fragDigest: piece count, max piece length, and the pieces themselves (all of them when few,
// otherwise first/last plus an FNV digest over all) — both sides compute the same thing.
func fragDigest(ps [][]byte) string {
	maxLen := 0
	h := uint64(14695981039346656037)
	for _, p := range ps {
		if len(p) > maxLen {
			maxLen = len(p)
		}
		for _, c := range p {
			h ^= uint64(c)
			h *= 1099511628211
		}
		h ^= 0xff
		h *= 1099511628211
	}
	if len(ps) <= 6 {
		return fmt.Sprintf("%d %d %d %s", len(ps), maxLen, h, hxList(ps))
	}
	return fmt.Sprintf("%d %d %d %s", len(ps), maxLen, h, hxList([][]byte{ps[0], ps[1], ps[len(ps)-1]}))
}

func runPure(seed int64, n int, out *emitter) map[string]int {
	g := &gen{r: rand.New(rand.NewSource(seed)), out: out, dist: map[string]int{}}
	for i := 0; i < n; i++ {
		g.onePure()
		// two long messages per 4000 operations whose piece count is at the limit of the fragment header
		if i%2000 == 999 {
			g.fragCountEdge()
		}
	}
	return g.dist
}

// C17 on the implementation itself: parsing the serialisation of a well-formed plaintext (NUL-free
// text, TLV length fields matching the values) yields the text and exactly the TLVs it was built from
func (g *gen) roundTripPlain(text []byte, nums []uint64, vs [][]byte, ser []byte) {
	if olog == nil {
		return
	}
	for _, c := range text {
		if c == 0 {
			return
		}
	}
	var ts []string
	for i := 0; i+1 < len(nums); i += 2 {
		if nums[i+1] != uint64(len(vs[i/2])) {
			return
		}
		v := "-"
		if len(vs[i/2]) > 0 {
			v = hx(vs[i/2])
		}
		ts = append(ts, fmt.Sprintf("%d:%d:%s", nums[i], nums[i+1], v))
	}
	t := "-"
	if len(text) > 0 {
		t = hx(text)
	}
	want := fmt.Sprintf("true %s [%s]", t, strings.Join(ts, ","))
	olog.ok("C17")
	if got := otr3.VerifParse("plain", ser); got != want {
		olog.viol("C17", "plaintext-round-trip-differs", fmt.Sprintf("built %s, serialised to %x, parsed back as %s", want, ser, got))
	}
}

// C17 on the implementation itself, SMP payloads: the TLV that the library serialises for an SMP
// message 1 (without and with a question - any NUL-free question: empty, one byte, non-ASCII bytes,
// as long as the TLV length field allows), 2, 3 or 4 built from minimal integers parses back, and to
// exactly the integers (and question) it was built from. mpis are in the order of the TLV; question
// is nil for the kinds without one; ser is the whole TLV (type, length, value).
func (g *gen) roundTripSMP(kind string, mpis [][]byte, question []byte, ser []byte) {
	if olog == nil || len(ser) < 4 {
		return
	}
	order := map[string][]int{
		"smp1":  {0, 3, 1, 4, 2, 5}, // printed as g2a g3a c2 c3 d2 d3
		"smp1q": {0, 3, 1, 4, 2, 5},
		"smp2":  {0, 3, 1, 4, 2, 5, 6, 7, 8, 9, 10},
		"smp3":  {0, 1, 2, 3, 4, 7, 5, 6}, // printed as pa qa cp d5 d6 d7 ra cr
		"smp4":  {1, 2, 0},                // printed as cr d7 rb
	}[kind]
	if len(order) != len(mpis) {
		return
	}
	want := "some " + strings.TrimSuffix(kind, "q")
	for _, i := range order {
		want += " " + hx(mpis[i])
	}
	switch kind {
	case "smp1":
		want += " false -"
	case "smp1q":
		want += " true " + hx(question)
	}
	olog.ok("C17")
	got := otr3.VerifParse(kind, ser[4:])
	if got == want {
		return
	}
	var fields []string
	for _, b := range mpis {
		fields = append(fields, hx(b))
	}
	what := fmt.Sprintf("SMP message %s from the integers [%s] (TLV order)", strings.TrimPrefix(kind, "smp"), strings.Join(fields, " "))
	if kind == "smp1q" {
		qs := fmt.Sprintf("%q (hex %s)", question, hx(question))
		if len(question) > 40 {
			qs = fmt.Sprintf("%q… (hex %s…)", question[:40], hx(question[:40]))
		}
		what += fmt.Sprintf(" and the question of %d bytes %s", len(question), qs)
	}
	sers := fmt.Sprintf("%x", ser)
	if len(ser) > 400 {
		sers = fmt.Sprintf("%x… (%d bytes)", ser[:400], len(ser))
	}
	if len(got) > 400 {
		got = got[:400] + "…"
	}
	olog.viol("C17", "smp-round-trip-differs", fmt.Sprintf("%s: serialised to the TLV %s, whose value parses back as: %s", what, sers, got))
}

// A sequence of fragment arrivals through the index/total switch of receiveFragment, each relative
// to the context the previous one left behind (the context is emptied after a completion, as Receive
// does): mostly the next piece of the stream, and often a piece with the next index but another
// total (smaller - down to the one that completes at once - or larger), a duplicate, a skipped
// index, a restart, an illegal numbering. Oracle (C14): with k of n collected (k < n), the only
// arrivals that complete a message are n of n when k+1 = n, and a whole message in one piece (1 of 1).
func (g *gen) fragArrivals() {
	var frag []byte
	idx, ln := 0, 0
	var history []string
	total := func() int {
		switch g.r.Intn(8) {
		case 0:
			return 65535 - g.r.Intn(3)
		case 1:
			return 300 + g.r.Intn(65000)
		case 2:
			return 1
		default:
			return 2 + g.r.Intn(6)
		}
	}
	piece := func() []byte {
		b := make([]byte, 1+g.r.Intn(6))
		for i := range b {
			b[i] = "ABCDEFGHIJKLMNOPQRSTUVWXYZabcdefghijklmnopqrstuvwxyz0123456789+/ ?|"[g.r.Intn(67)]
		}
		return b
	}
	steps := 3 + g.r.Intn(8)
	for s := 0; s < steps; s++ {
		ix, l := 1, total()
		kind := "first"
		if idx > 0 {
			if ln-idx > 3 && g.r.Intn(3) != 0 {
				// a long stream: as if all pieces but the last few had arrived, so that its end is reached
				idx = ln - 1 - g.r.Intn(3)
				frag = append(frag, piece()...)
				history = append(history, fmt.Sprintf("(…%d/%d)", idx, ln))
			}
			ix, l, kind = idx+1, ln, "next"
			switch g.r.Intn(12) {
			case 4, 5: // next index, smaller total (when there is one): the smallest completes at once
				if ln > idx+1 {
					l, kind = idx+1, "next-smaller-total-completing"
					if g.r.Intn(2) == 0 {
						l, kind = idx+1+g.r.Intn(ln-idx-1), "next-smaller-total"
					}
				}
			case 6, 7: // next index, larger total
				if ln < 65535 {
					l, kind = ln+1+g.r.Intn(3), "next-larger-total"
					if l > 65535 {
						l = 65535
					}
				}
			case 8:
				ix, kind = idx, "duplicate"
			case 9:
				if idx+2 <= ln {
					ix, kind = idx+2, "skipped"
				}
			case 10:
				ix, l, kind = 1, total(), "restart"
			case 11:
				ix, l = []int{0, ln + 1, idx + 1}[g.r.Intn(3)], []int{ln, ln, 0}[g.r.Intn(3)]
				kind = "illegal"
				if ix != 0 && l != 0 && ix <= l {
					ix, l = 0, ln
				}
			}
		} else if g.r.Intn(6) == 0 { // no stream, and not a first piece
			l = 2 + total()%65534
			ix, kind = 2+g.r.Intn(l-1), "orphan"
		}
		d := piece()
		body := []byte(fmt.Sprintf("%05d,%05d,%s,", ix, l, d))
		res := otr3.VerifFragAccept(frag, uint16(idx), uint16(ln), body)
		g.out.emit(fmt.Sprintf("fragaccept %s %d %d %s", hx(frag), idx, ln, hx(body)), res)
		g.dist["fragaccept:"+kind]++
		history = append(history, fmt.Sprintf("%d/%d", ix, l))
		var e, fh, fin string
		var ni, nl int
		if n, _ := fmt.Sscanf(res, "%s %s %d %d %s", &e, &fh, &ni, &nl, &fin); n != 5 {
			return
		}
		finished := fin == "true"
		if olog != nil {
			olog.ok("C14")
			if finished && !(ix == idx+1 && l == ln && ix == l) && !(ix == 1 && l == 1) {
				olog.viol("C14", "glued-from-two-streams", fmt.Sprintf("receiveFragment (OTRv2 header): with %d of %d pieces collected (%q), the arrival %q (%s) completes a message %s; arrivals so far: %v", idx, ln, frag, body, kind, fh, history))
			}
		}
		if finished || fh == "-" {
			frag = nil
		} else {
			frag, _ = hex.DecodeString(fh)
		}
		idx, ln = ni, nl
		if finished {
			idx, ln = 0, 0
		}
	}
}
