package main

// otrh — Go harness of the /verif machinery. Runs the real coyim/otr3 (built from
// /repo's working tree with -tags verif) and writes
//   <out>.ops   one operation per line   (input of the Lean model driver `otrm`)
//   <out>.impl  one result per line      (what the implementation did)
//   <out>.meta  JSON: input distribution, counts
// Usage: otrh <profile> <seed> <n> <outprefix>

import (
	"bufio"
	"encoding/json"
	"fmt"
	"os"
	"strconv"

	otr3 "github.com/coyim/otr3"
)

type emitter struct {
	ops, impl *bufio.Writer
	n         int
}

func (e *emitter) emit(op, res string) {
	fmt.Fprintln(e.ops, op)
	fmt.Fprintln(e.impl, res)
	e.n++
}

func main() {
	if len(os.Args) < 5 {
		fmt.Fprintln(os.Stderr, "usage: otrh <profile> <seed> <n> <outprefix>")
		os.Exit(2)
	}
	profile := os.Args[1]
	seed, _ := strconv.ParseInt(os.Args[2], 10, 64)
	n, _ := strconv.Atoi(os.Args[3])
	prefix := os.Args[4]

	fo, err := os.Create(prefix + ".ops")
	if err != nil {
		panic(err)
	}
	fi, err := os.Create(prefix + ".impl")
	if err != nil {
		panic(err)
	}
	out := &emitter{ops: bufio.NewWriterSize(fo, 1<<20), impl: bufio.NewWriterSize(fi, 1<<20)}

	var dist map[string]int
	extra := map[string]interface{}{}
	pkgBefore := otr3.VerifPkgState()
	switch profile {
	case "pure":
		olog = &oracleLog{checked: map[string]int{}, out: out}
		dist = runPure(seed, n, out)
		olog.export(extra)
	default:
		if f, ok := profiles[profile]; ok {
			dist = f(seed, n, out, extra)
		} else {
			fmt.Fprintln(os.Stderr, "unknown profile", profile)
			os.Exit(2)
		}
	}
	// C20, every profile: no package level value of the library may have changed during the run (whatever one
	// conversation does to such a value every other conversation of the process sees)
	if after := otr3.VerifPkgState(); after != pkgBefore {
		vs, _ := extra["violations"].([]viol)
		extra["violations"] = append(vs, viol{"C20", "package-level-state-modified",
			"a package level value of the library changed during the run: before " + pkgBefore + " after " + after, out.n})
	}
	if oc, ok := extra["oracle_checked"].(map[string]int); ok {
		oc["C20"]++
	}
	out.ops.Flush()
	out.impl.Flush()
	fo.Close()
	fi.Close()

	meta := map[string]interface{}{"profile": profile, "seed": seed, "n": n, "ops": out.n, "dist": dist, "extra": extra}
	mb, _ := json.MarshalIndent(meta, "", " ")
	os.WriteFile(prefix+".meta", mb, 0644)
}

// further profiles register themselves here
var profiles = map[string]func(seed int64, n int, out *emitter, extra map[string]interface{}) map[string]int{}
