#!/usr/bin/env python3
"""Regenerate /verif/MANIFEST.json from tools/propcfg.py (so the two never drift)."""
import json, os, sys
sys.path.insert(0, os.path.dirname(os.path.abspath(__file__)))
from propcfg import PROPS, NOT_YET
ROOT = os.path.dirname(os.path.dirname(os.path.abspath(__file__)))
hooks_commits = os.popen("git -C /repo log --format=%h --grep='^verif hooks'").read().split()
checks = []
for pid in sorted(PROPS):
    c = PROPS[pid]
    checks.append(dict(
        property_id=pid,
        quick_cmd='./check %s --tier quick' % pid,
        thorough_cmd='./check %s --tier thorough' % pid,
        evidence_file='/verif/evidence/%s.json' % pid,
        replay_cmd_template='./check %s --replay {path}' % pid,
        engine='lean-model+correspondence',
        level_claimed=dict(category=c['level'], text=c['explanation'], design_ref=c.get('design_ref', 'DESIGN.md §7 ' + pid)),
        level_note='; '.join(c.get('assumptions', [])) or 'see DESIGN.md §6',
        technique=c.get('technique', 'Lean 4 theorems about an executable model + differential correspondence with the Go code')))
m = dict(
    version=1,
    setup_cmd='./setup.sh',
    hooks=dict(guard='verif', enable='go build -tags verif (harness module /verif/harness, replace github.com/coyim/otr3 => /repo)',
               baseline_off_cmd='cd /repo && GOFLAGS=-mod=mod GOPROXY=off go test -vet=off -count=1 ./...',
               source_commits=hooks_commits, add_only=True),
    engines=[dict(name='lean-model+correspondence', path='/verif/lean, /verif/harness, /verif/facts, /verif/check',
                  serves_properties=sorted(PROPS),
                  kind_free_text='Lean 4 executable model of otr3 with property theorems; Go harness runs the real library and a compiled Lean driver replays the same traces; go/ast fact extractor regenerates Facts.lean')],
    checks=checks,
    notes='See DESIGN.md. Known findings: /verif/known_findings.json.',
    not_applicable=[dict(property_id=p, reason=r) for p, r in sorted(NOT_YET.items()) if p not in PROPS])
json.dump(m, open(os.path.join(ROOT, 'MANIFEST.json'), 'w'), indent=1)
print('MANIFEST.json written:', len(checks), 'checks,', len(m['not_applicable']), 'not claimed')
