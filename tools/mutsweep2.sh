#!/bin/bash
# mutsweep2.sh <seeded-name> <profile> <n> <seed...>: like mutsweep.sh, but in a private worktree of /repo
# (/tmp/m6/wt) with a private copy of the harness, so that /repo's working tree is never touched
# (usable while registered checks are running)
name=$1; prof=$2; n=$3; shift 3
export GOFLAGS=-mod=mod GOPROXY=off GOSUMDB=off GOTOOLCHAIN=local
export M6=${M6:-/tmp/m6}; WT=$M6/wt; H=$M6/h; RUN=$M6/run
[ -d $WT ] || git -C /repo worktree add -q --detach $WT HEAD
git -C $WT checkout -q -- . ; git -C $WT checkout -q --detach $(git -C /repo rev-parse HEAD)
rm -rf $H; cp -r /verif/harness $H; sed -i "s|=> /repo|=> $WT|" $H/go.mod; cp $WT/go.sum $H/ 2>/dev/null
mkdir -p $RUN
if [ "$name" != "-" ]; then git -C $WT apply /verif/seeded/$name/patch.diff || exit 2; fi
( cd $H && go build -tags verif -o $M6/otrh . ) || exit 3
cd $RUN
for s in "$@"; do ( VERIF_OTRM=/verif/lean/.lake/build/bin/otrm $M6/otrh $prof $s $n m_${prof}_$s >/dev/null 2>&1 && /verif/lean/.lake/build/bin/otrm m_${prof}_$s.ops > m_${prof}_$s.model 2>/dev/null ) & done
wait
for s in "$@"; do python3 - "$prof" "$s" <<'PY'
import json,sys,subprocess
import os; pre=os.environ.get('M6','/tmp/m6')+'/run/m_%s_%s'%(sys.argv[1],sys.argv[2])
d=subprocess.run(['/verif/tools/firstdiff.py',pre,'0'],capture_output=True,text=True).stdout.strip().split('\n')[-1]
m=json.load(open(pre+'.meta'))
keys={}
for x in m.get('extra',{}).get('violations',[]): keys[(x.get('prop'),x.get('key'))]=keys.get((x.get('prop'),x.get('key')),0)+1
print('seed',sys.argv[2],d,'| hits:',keys)
PY
done
git -C $WT checkout -q -- .
