#!/bin/bash
# confirm_seed.sh <Cxx> : confirm an agent's seeded change in its scratch worktree /tmp/wt/<Cxx> against /repo's HEAD:
# the patch applies, the suite passes with it, the demo fails with it and passes without. Prints one line.
p=$1; d=/tmp/wt/$p; o=$d/_out
export GOFLAGS=-mod=mod GOPROXY=off GOSUMDB=off GOTOOLCHAIN=local
cd $d || exit 2
git checkout -q --detach main 2>/dev/null; git checkout -q -- . 2>/dev/null
demo=$(ls $o/*demo*_test.go 2>/dev/null | head -1); [ -z "$demo" ] && demo=$o/demo_test.go
pkgdir=.
grep -q '^package sexp' $demo && pkgdir=sexp
cp $demo $pkgdir/zz_demo_test.go
without=$(go test -vet=off -count=1 -run "TestDemo$p" ./$pkgdir 2>&1 | tail -1 | cut -c1-60)
if ! git apply $o/patch.diff 2>/tmp/wt/$p.applyerr; then echo "$p: PATCH DOES NOT APPLY: $(head -2 /tmp/wt/$p.applyerr | tr '\n' ' ')"; rm -f $pkgdir/zz_demo_test.go; exit 1; fi
with=$(go test -vet=off -count=1 -run "TestDemo$p" ./$pkgdir 2>&1 | grep -E "^(ok|FAIL|---)" | head -1 | cut -c1-60)
rm -f $pkgdir/zz_demo_test.go
suite=$(go test -vet=off -count=1 ./... 2>&1 | tail -2 | tr '\n' ' ' | cut -c1-90)
git checkout -q -- .
echo "$p: without=[$without] with=[$with] suite=[$suite]"
