#!/bin/bash
# hb.sh: rebuild the harness binary from /repo's working tree (what ./check does first)
export GOFLAGS=-mod=mod GOPROXY=off GOSUMDB=off GOTOOLCHAIN=local CGO_ENABLED=0
cd /verif/harness && cp /repo/go.sum . && go build -tags verif -o /verif/bin/otrh . 
