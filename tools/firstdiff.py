#!/usr/bin/env python3
"""show the first disagreement per conversation id between impl and model outputs"""
import sys
pref=sys.argv[1]; k=int(sys.argv[2]) if len(sys.argv)>2 else 5
ops=open(pref+'.ops').read().split('\n')
a=open(pref+'.impl').read().split('\n')
b=open(pref+'.model').read().split('\n')
seen=set(); n=0; total=0
for i,(x,y) in enumerate(zip(a,b)):
    if x!=y:
        total+=1
        t=ops[i].split()
        cid=t[1] if len(t)>1 else '?'
        if cid in seen: continue
        seen.add(cid); n+=1
        if n<=k:
            print('#',i, ops[i][:400])
            xs=x.split(' '); ys=y.split(' ')
            for u,v in zip(xs,ys):
                if u!=v: print('   IMPL ',u[:600]); print('   MODEL',v[:600])
            if len(xs)!=len(ys): print('   IMPL-LEN',len(xs),'MODEL-LEN',len(ys)); print('   I:',x[:800]); print('   M:',y[:800])
print('total differing lines',total,'first-per-conv',n, 'of', len(a))
