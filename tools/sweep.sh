#!/bin/bash
# sweep.sh <profile> <n> <seed>... : run harness+driver for each seed in parallel, print one summary line per seed
prof=$1; n=$2; shift 2
cd /verif/work
for s in "$@"; do ( /verif/bin/otrh $prof $s $n sw_${prof}_$s >/dev/null 2>&1 && /verif/lean/.lake/build/bin/otrm sw_${prof}_$s.ops > sw_${prof}_$s.model 2>/dev/null ) & done
wait
for s in "$@"; do echo "seed $s: $(/verif/tools/firstdiff.py sw_${prof}_$s 0 2>&1 | tail -1)"; done
for s in "$@"; do python3 - "$prof" "$s" <<'PY'
import json,sys
m=json.load(open('/verif/work/sw_%s_%s.meta'%(sys.argv[1],sys.argv[2])))
v=m.get('extra',{}).get('violations',[])
keys={}
for x in v: keys[(x.get('property'),x.get('key'))]=keys.get((x.get('property'),x.get('key')),0)+1
print('seed',sys.argv[2],'oracle hits:',keys, 'checked', m.get('extra',{}).get('oracle_checked'))
PY
done
