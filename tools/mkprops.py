#!/usr/bin/env python3
"""mkprops.py <out Props file> <namespace> <header-file> <Proofs file>:<open-namespace>:<name,name,...> ...
Restates selected theorems of Proofs modules in a Props file (property theorems only), each proved by
applying the original. The statement text is copied verbatim, so a weakened original no longer fits."""
import re, sys
out, ns, header = sys.argv[1:4]
body = open(header).read().rstrip() + '\n'
imports = []
items = []
byref = []
for spec in sys.argv[4:]:
    path, src_ns, names = spec.split(':')
    if path.startswith('@'):
        # by-reference mode (the source file uses section `variable`s, so the signature text alone is
        # not the statement): the property theorem is stated as `type_of% @original`
        path = path[1:]
        imports.append(path[:-5].replace('/', '.'))
        for n in names.split(','):
            byref.append((n, src_ns))
        continue
    mod = path[:-5].replace('/', '.')
    imports.append(mod)
    src = open('/verif/lean/' + path).read()
    for n in names.split(','):
        m = re.search(r'^theorem ' + re.escape(n) + r"(?![\w'.])", src, re.M)
        if not m:
            sys.exit('theorem %s not found in %s' % (n, path))
        start = m.end()
        depth = 0
        k = start
        sig = None
        while k < len(src):
            ch = src[k]
            if ch in '({[⟨':
                depth += 1
            elif ch in ')}]⟩':
                depth -= 1
            elif ch == ':' and src[k:k+2] == ':=' and depth == 0:
                line_start = src.rfind('\n', 0, k) + 1
                if not re.search(r'\b(let|have)\b[^\n]*$', src[line_start:k]):
                    sig = src[start:k].rstrip()
                    break
            k += 1
        if sig is None:
            sys.exit('no := for %s' % n)
        items.append((n, sig, src_ns))
text = body + '\n' + ''.join('import %s\n' % i for i in dict.fromkeys(imports))
text += 'namespace %s\nopen Otr\n' % ns
for src_ns in dict.fromkeys(i[2] for i in items):
    if src_ns not in ('Otr', ''):
        text += 'open %s\n' % src_ns
text += '\n'
for n, sig, src_ns in items:
    full = (src_ns + '.' if src_ns else '') + n
    text += 'theorem %s%s := by\n  first | exact %s | exact @%s | (apply %s <;> assumption) | (intros; apply %s <;> assumption)\n\n' % (n, sig, full, full, full, full)
for n, src_ns in byref:
    full = (src_ns + '.' if src_ns else '') + n
    text += 'theorem %s : type_of%% @%s := @%s\n\n' % (n.replace('.', '_'), full, full)
text += 'end %s\n' % ns
open(out, 'w').write(text)
print('wrote', out, len(items), 'theorems')
