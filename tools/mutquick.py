#!/usr/bin/env python3
"""mutquick.py <seeded-dir-or-patch> <prop> [tier] : private trial of a seeded change — never touches /repo.
Private worktree of /repo HEAD + the patch, private copy of the harness and of the fact extractor; runs the fact gate
(regenerated facts vs the committed Facts.lean) and every profile of the property's tier (model driver from /verif),
prints which gate sees the change and the oracle hits of the property. Parallel trials use different M6 dirs."""
import json, os, re, subprocess, sys, shutil, hashlib
sys.path.insert(0, '/verif/tools')
from propcfg import PROPS
src, prop = sys.argv[1], sys.argv[2]
tier = sys.argv[3] if len(sys.argv) > 3 else 'quick'
patch = src if src.endswith('.diff') else os.path.join(src, 'patch.diff')
tag = hashlib.sha1((patch + prop).encode()).hexdigest()[:8]
M = '/tmp/mq/' + tag
WT, H, F, RUN = M + '/wt', M + '/h', M + '/f', M + '/run'
env = dict(os.environ, GOFLAGS='-mod=mod', GOPROXY='off', GOSUMDB='off', GOTOOLCHAIN='local', CGO_ENABLED='0', GOMEMLIMIT='6GiB')
def sh(cmd, **kw):
    p = subprocess.run(cmd, shell=isinstance(cmd, str), stdout=subprocess.PIPE, stderr=subprocess.STDOUT, text=True, env=env, **kw)
    return p.returncode, p.stdout
shutil.rmtree(M, ignore_errors=True); os.makedirs(RUN)
try:
    rc, out = sh(['git', '-C', '/repo', 'worktree', 'add', '-q', '--detach', WT, 'HEAD'])
    rc, out = sh(['git', '-C', WT, 'apply', patch])
    if rc: print(prop, 'PATCH DOES NOT APPLY', out[:200]); sys.exit(2)
    shutil.copytree('/verif/harness', H); shutil.copytree('/verif/facts', F)
    for d in (H, F):
        gm = open(d + '/go.mod').read(); open(d + '/go.mod', 'w').write(re.sub(r'=> /repo', '=> ' + WT, gm))
        shutil.copy(WT + '/go.sum', d + '/go.sum')
    res = []
    rc, out = sh(['go', 'run', '.', WT, M + '/Facts.lean'], cwd=F)
    if rc: res.append('facts: extractor failed')
    elif open(M + '/Facts.lean').read() != open('/verif/lean/Otr/Generated/Facts.lean').read():
        a = open(M + '/Facts.lean').read().split('\n'); b = open('/verif/lean/Otr/Generated/Facts.lean').read().split('\n')
        names = [re.match(r'def (\S+)', x).group(1) for x, y in zip(a, b) if x != y and re.match(r'def (\S+)', x)]
        res.append('FACT GATE: ' + ','.join(names[:4]))
    rc, out = sh(['go', 'build', '-tags', 'verif', '-o', M + '/otrh', '.'], cwd=H)
    if rc: print(prop, 'HARNESS BUILD FAILS', out[-300:]); sys.exit(3)
    hits = {}; diffs = []
    procs = []
    for prof, n, seeds in PROPS[prop]['profiles'][tier]:
        if prof == 'conc':
            continue   # needs the race build: run the real check for it
        for s in range(1, seeds + 1):
            pre = '%s/%s_%d' % (RUN, prof, s)
            procs.append((prof, s, pre, subprocess.Popen('%s/otrh %s %d %d %s >/dev/null 2>&1 && /verif/lean/.lake/build/bin/otrm %s.ops > %s.model 2>/dev/null' % (M, prof, s, n, pre, pre, pre), shell=True, env=env)))
    for prof, s, pre, p in procs:
        p.wait()
        if p.returncode: diffs.append('%s/%d: run failed' % (prof, s)); continue
        impl = open(pre + '.impl').read().split('\n'); model = open(pre + '.model').read().split('\n')
        nd = sum(1 for i in range(max(len(impl), len(model))) if (impl[i] if i < len(impl) else None) != (model[i] if i < len(model) else None))
        if nd: diffs.append('%s/%d: model!=impl on %d lines' % (prof, s, nd))
        for v in json.load(open(pre + '.meta')).get('extra', {}).get('violations', []):
            if v.get('prop') == prop: hits[v['key']] = hits.get(v['key'], 0) + 1
    known = [f['key'] for f in json.load(open('/verif/known_findings.json'))['findings'] if f['property'] == prop and f.get('status') == 'open']
    new = {k: v for k, v in hits.items() if k not in known}
    verdict = 'CAUGHT(input)' if new else ('caught(no-input)' if (res or diffs) else 'MISSED')
    print('%s %-18s %s | %s | %s | hits=%s' % (prop, verdict, os.path.basename(os.path.dirname(patch)) or patch, '; '.join(res) or '-', '; '.join(diffs[:3]) or 'no diff', new))
finally:
    sh(['git', '-C', '/repo', 'worktree', 'remove', '--force', WT]); shutil.rmtree(M, ignore_errors=True)
