#!/bin/bash
# trymut.sh <patch.diff> <prop> [<prop>...] : apply a seeded change to /repo, run the quick checks, undo it.
patch=$1; shift
cd /repo && git apply "$patch" || { echo "patch does not apply"; exit 2; }
export GOFLAGS=-mod=mod GOPROXY=off GOSUMDB=off GOTOOLCHAIN=local
echo "suite: $(go test -vet=off -count=1 ./... 2>&1 | tail -2 | tr '\n' ' ')"
cd /verif
for p in "$@"; do
  out=$(./check $p --tier ${TIER:-quick} 2>&1); rc=$?
  echo "[$p] exit=$rc $(echo "$out" | grep -E 'VIOLATION|^OK' | cut -c1-160)"
  echo "$out" | grep -E '^  gate' | cut -c1-220 | head -3
  f=$(echo "$out" | grep -o 'replay=[^ ]*' | head -1 | cut -d= -f2)
  if [ -n "$f" ] && [ -f "$f" ]; then python3 - "$f" <<'PY'
import json,sys
r=json.load(open(sys.argv[1]))
v=r.get('violation')
if v: print('    found:', v.get('key'), '|', v.get('desc','')[:260])
else: print('    ', r.get('gate'), '|', r.get('what','')[:200])
PY
  fi
done
git -C /repo checkout -- . && echo restored
