#!/bin/bash
# cover.sh [quick|thorough-lite] : statement coverage of /repo reached by the harness profiles (which code the
# correspondence check and the oracles actually execute). Builds a coverage-instrumented harness, runs every profile
# once with the quick-tier sizes, and prints per-function coverage + the uncovered blocks. Informational: it tells
# where a change would be invisible to the correspondence check (DESIGN §10).
set -e
export GOFLAGS=-mod=mod GOPROXY=off GOSUMDB=off GOTOOLCHAIN=local CGO_ENABLED=0
cd /verif/harness && cp /repo/go.sum go.sum
go build -cover -coverpkg=github.com/coyim/otr3,github.com/coyim/otr3/sexp,verifharness -tags verif -o ../bin/otrh-cover .
rm -rf /verif/work/cov && mkdir -p /verif/work/cov/data
cd /verif/work/cov
python3 - <<'PY' > runs.txt
import sys
sys.path.insert(0,'/verif/tools')
from propcfg import PROPS
seen={}
for p,c in PROPS.items():
    for prof,n,seeds in c['profiles']['quick']:
        if prof=='conc': continue
        seen[prof]=max(seen.get(prof,0),n)
for prof,n in seen.items(): print(prof,n)
PY
cat runs.txt | xargs -P 8 -L 1 sh -c 'GOCOVERDIR=/verif/work/cov/data GOMEMLIMIT=6GiB /verif/bin/otrh-cover $0 1 $1 /verif/work/cov/run_$0 >/dev/null 2>&1 || echo "profile $0 failed"'
go tool covdata textfmt -i=data -o cover.out
cd /repo && go tool cover -func=/verif/work/cov/cover.out | grep -v "verif_hooks.go" | sort -k3 -n | awk '{print}' > /verif/work/cov/func.txt
tail -1 /verif/work/cov/func.txt
