#!/usr/bin/env python3
"""Re-pin the source-derived expectations of lean/Props/FactsOk.lean to the facts currently extracted
from /repo (run by hand after a reviewed change of /repo, e.g. a fix: commit; never by ./check).
Only the right-hand sides of the `Facts.x = <literal>` theorems (orders, writers, tables, enums) are
rewritten; the constant theorems that compare Facts with the model's own constants are untouched."""
import re
facts = open('/verif/lean/Otr/Generated/Facts.lean').read()
vals = {}
for m in re.finditer(r'^def (\S+) : [^\n]*? := (.*?)(?=^def |^end )', facts, re.S | re.M):
    vals[m.group(1)] = m.group(2).strip()
p = '/verif/lean/Props/FactsOk.lean'
src = open(p).read()
def repl(m):
    name = m.group(2)
    if name in vals and not m.group(3).lstrip().startswith(('some', '[]')) or name in vals and m.group(3).strip().startswith('['):
        return '%sFacts.%s = %s := by decide' % (m.group(1), name, vals[name])
    return m.group(0)
src2 = re.sub(r'(theorem \S+ : )Facts\.(\S+) = (\[.*?\]) := by decide', repl, src, flags=re.S)
open(p, 'w').write(src2)
print('changed' if src2 != src else 'unchanged')
