#!/usr/bin/env python3
"""Re-pin the source-derived expectations of lean/Props/FactsOk.lean to the facts currently extracted
from /repo (run by hand after a reviewed change of /repo, e.g. a fix: commit; never by ./check).
Only the right-hand sides of the `Facts.x = <literal>` theorems (orders, writers, tables, enums) are
rewritten; the constant theorems that compare Facts with the model's own constants are untouched."""
import re
facts = open('/verif/lean/Otr/Generated/Facts.lean').read()
vals = {}
for m in re.finditer(r'^def (\S+) : [^\n]*? := (.*?)(?=^def |^end )', facts, re.S | re.M):
    vals[m.group(1)] = m.group(2).strip()
p = '/verif/lean/Props/FactsOk.lean'
src = open(p).read()
def repl(m):
    name = m.group(2)
    if name in vals and not m.group(3).lstrip().startswith(('some', '[]')) or name in vals and m.group(3).strip().startswith('['):
        return '%sFacts.%s = %s := by decide' % (m.group(1), name, vals[name])
    return m.group(0)
src2 = re.sub(r'(theorem \S+ : )Facts\.(\S+) = (\[.*?\]) := by decide', repl, src, flags=re.S)
# source-text pins of small decision functions: (re)generate the whole block
block = ['', '/-! source text of small decision functions (go/printer, white space collapsed): the Lean counterparts were',
         '    written from exactly this text; any rewrite — also a harmless one — has to be reviewed and re-pinned -/']
for name in sorted(vals):
    if name.startswith('src_'):
        block.append('theorem %s : Facts.%s = %s := rfl' % (name, name, vals[name]))
blk = '\n'.join(block) + '\n'
src2 = re.sub(r'\n/-! source text of small decision functions.*?(?=\nend )', '', src2, flags=re.S)
src2 = re.sub(r'\nend (\S+)\s*$', lambda m: blk + '\nend ' + m.group(1) + '\n', src2)
open(p, 'w').write(src2)
print('changed' if src2 != src else 'unchanged')
