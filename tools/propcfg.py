"""Per-property configuration of ./check: theorem module, harness profiles (profile, n, seeds) per tier,
claimed level, assumptions. Profiles are implemented in /verif/harness; each both generates the trace
compared with the Lean model and evaluates the property's oracle on the implementation."""

CRYPTO_ASSUME = 'SHA-1/SHA-256/HMAC/AES-CTR/DSA are modelled by Lean re-implementations validated differentially, not verified'

PROPS = {
    'C17': dict(
        module='Props.C17', level='proof',
        profiles=dict(quick=[('pure', 6000, 1)], thorough=[('pure', 40000, 8)]),
        explanation='round-trip theorems over all values (Props.C17); model tied to the Go (de)serialisers by differential execution of generated and mutated structures',
        assumptions=['field lengths < 2^32 (TLV < 2^16) as explicit hypotheses', 'key-file (s-expression) round trip: see Props.C17 notes']),
}

# properties not claimed yet (kept current; each is moved into PROPS when its check exists)
NOT_YET = {p: 'check under construction in this round (model exists; theorems/oracle not yet registered)' for p in
           ['C%02d' % i for i in range(1, 21)]}
