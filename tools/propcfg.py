"""Per-property configuration of ./check: theorem module, harness profiles (profile, n, seeds) per tier,
claimed level, assumptions. Profiles are implemented in /verif/harness; each both generates the trace
compared with the Lean model and evaluates the property's oracle on the implementation."""

CRYPTO_ASSUME = 'SHA-1/SHA-256/HMAC/AES-CTR/DSA are modelled by Lean re-implementations validated differentially, not verified'

PROPS = {
    'C17': dict(
        module='Props.C17', level='proof',
        profiles=dict(quick=[('pure', 6000, 1), ('keyfile', 150, 1), ('sched', 3, 1), ('smp', 40, 1)], thorough=[('pure', 40000, 8), ('keyfile', 2000, 4), ('sched', 12, 2)]),
        explanation='round-trip theorems over all values (Props.C17); model tied to the Go (de)serialisers by differential execution of generated and mutated structures',
        assumptions=['field lengths < 2^32 (TLV < 2^16) as explicit hypotheses', 'key file: account names without a double quote, protocol names of symbol characters (exact condition: Account.wellFormed)']),
    'C14': dict(
        module='Props.C14', level='proof',
        profiles=dict(quick=[('pure', 4000, 1), ('frag', 12, 1)], thorough=[('pure', 30000, 4), ('frag', 60, 8)]),
        explanation='theorems for every message, size and arrival sequence (Props.C14: bounded, lossless, only complete streams, exactly once); model tied to fragmentation.go by function-level differential runs (fragment/parseFragment/receiveFragment) and whole-session runs with hostile fragment arrivals; Go oracle: size bound, reference reassembly, no double delivery',
        assumptions=['instance tags < 2^32', 'piece count <= 65535 (16-bit index/total of the wire format; beyond it the message is handed out whole)', 'encoded messages contain no comma (Proofs.B64)']),
    'C07': dict(
        module='Props.C07', extra_modules=['Props.C07Skel', 'Props.C07Skel2'], level='proof',
        profiles=dict(quick=[('c07', 400, 1)], thorough=[('c07', 400, 1), ('life', 150, 4)]),
        explanation='verified exhaustive exploration of an abstract two-party AKE system (Otr.AkeAbs, explore_sound) decides liveness for every start pattern and every delivery schedule; the abstraction is tied to the implementation by running every maximal schedule of every pattern on the real code (both versions) and comparing final states; the state-machine skeleton of the conversation model is proved equal to the abstract transition table (Props.C07Skel: every step of processAKE is no step, a row of the table of AkeAbs.recvAke, or the one randomness-failure reset), start patterns with the trigger repeated in flight are explored on the implementation',
        assumptions=['time is frozen within an exchange (the 60 s repeat-query window does not expire)', 'cryptographic checks are abstracted to identifier equality', 'known finding: simultaneous start deadlocks (test-pinned)']),
    'C05': dict(
        module='Props.C05', extra_modules=['Props.C05Net'], level='proof',
        profiles=dict(quick=[('sched', 12, 1), ('frag', 6, 1)], thorough=[('sched', 60, 8), ('schedx', 300, 1), ('life', 150, 4)]),
        explanation='theorem over all histories of the key-management context (Props.C05: once accepted, a (key ids, counter) triple is rejected for ever; sender counters strictly increase); model tied to key_management.go / data_message.go by whole-session differential runs; Go oracle replays recorded data messages at later points (same pair, after rotations) and checks nothing is delivered or answered; two-party theorem for a hostile network (Props.C05Net: over a network that duplicates, reorders and loses at will every sent message is accepted at most once and the accepted texts are a sublist of the sent ones)',
        assumptions=['key ids < 2^32, counters < 2^64 (no wrap-around)', 'cross-session replay relies on fresh DH keys per session (not a theorem; exercised by the life profile)']),
    'C09': dict(
        module='Props.C09', level='proof',
        profiles=dict(quick=[('sched', 12, 1)], thorough=[('sched', 60, 8), ('schedx', 300, 1)]),
        explanation='theorems over all histories (Props.C09: every disclosed key belongs to a retired pair that can never be accepted under again; used keys are queued when their pair retires and the next data message carries the whole queue); Go oracle recomputes the receiving MAC keys of the discloser window from the real DH keys at every outgoing data message and tracks keys used to accept messages until disclosed',
        assumptions=['the MAC key of a pair is identified by the pair (same DH keys within a session)']),
    'C19': dict(
        module='Props.C19', extra_modules=['Props.C19Api', 'Props.C19Two', 'Props.C19Queues'], level='proof',
        profiles=dict(quick=[('sched', 12, 1), ('mem', 5, 1)], thorough=[('sched', 80, 8), ('life', 150, 4), ('mem', 60, 4)]),
        explanation='theorems over all histories (Props.C19: at most 4 counters and 4 MAC-history entries, reveal queue at most 3 keys per message accepted since the last send and emptied by each send); Go oracle measures counters, MAC history, reveal queue, resend queue, injections and the reveal field of every emitted message along long runs',
        assumptions=['the session-wide constant 3 for the reveal queue is proved for two honest parties over reliable FIFO channels (Props.C19Two); with a peer that moves on to its announced key with every message the queue grows until our next send', 'heap size beyond the modelled lists is not measured here (see C08)']),
    'C15': dict(
        module='Props.C15', extra_modules=['Props.C15Recv'], level='proof',
        profiles=dict(quick=[('tags', 40, 1), ('reject', 60, 1)], thorough=[('tags', 200, 6), ('reject', 400, 6)]),
        explanation='exact decision table of verifyInstanceTags and own-tag generation for all inputs and all randomness (Props.C15); tied to otrv3.go/instance_tags.go by differential runs over the 7x7 tag grid on several message kinds and fragments, before and after binding; Go oracle: foreign/malformed traffic changes nothing and the genuine peer still gets through; ExtractInstanceTags compared with what the sender wrote; whole-Receive theorems (Props.C15Recv): a complete message or fragment with a foreign or malformed tag changes nothing, a bound peer tag is never changed by any Receive, a binding only comes from a well-formed accepted message',
        assumptions=['ExtractInstanceTags is modelled and compared differentially, its theorem is the header round trip only', 'known finding: InitializeInstanceTag accepts a preset tag below 0x100 (test-pinned)']),
    'C16': dict(
        module='Props.C16', extra_modules=['Props.C16Api', 'Props.C16Emit', 'Props.C16EmitReal'], level='proof',
        profiles=dict(quick=[('policy', 500, 1)], thorough=[('policy', 4600, 2), ('life', 100, 2)]),
        explanation='version choice, query/whitespace-tag version extraction for EVERY policy pair and friendly text, stickiness, disabled pass-through and exact plaintext recovery as theorems (Props.C16); tied to version.go/query.go/whitespace.go/send.go/receive.go by differential runs over policy pairs (full 64x64 product in the thorough tier) and offer forms; over all API histories (Props.C16Api): the committed version is always allowed and never replaced, forbidden-version messages change nothing, disabled conversations pass everything through, everything any call of any API history hands out that is an armoured OTR message carries the committed, allowed version — key exchange replies, retransmissions and fragments included (Props.C16Emit)',
        assumptions=['plain-text exactness needs the first occurrence of the tag header in text++tag to be at |text| (the 16-byte header has period 15: inherent to the tag format)']),
    'C18': dict(
        module='Props.C18', extra_modules=['Props.C18Api', 'Props.C18Hist'], level='proof',
        profiles=dict(quick=[('lifecycle', 15, 1), ('lifecyclebfs', 400, 1)], thorough=[('lifecycle', 120, 8), ('lifecyclebfs', 3000, 1), ('lifecyclex', 5000, 1), ('life', 150, 4)]),
        explanation='exact effect of the three writers of the message state on state and security events, refusal in the finished state, queueing under required encryption (Props.C18); writers regenerated from /repo as facts; Go oracle over whole lifecycle histories: events exactly on IsEncrypted transitions, each text delivered at most once plus at most one marked resend, queued texts in order',
        assumptions=['retransmission bookkeeping over whole API histories is a theorem (Props.C18Hist: what is retained is the single most recent message or a tail of the queue awaiting encryption; after a retransmission nothing is retained; only Send adds); the count of transmissions per text over whole two-party histories is decided by the oracle']),
    'C03': dict(
        module='Props.C03', level='proof',
        profiles=dict(quick=[('lifecycle', 15, 1), ('lifecyclebfs', 300, 1), ('parse', 20, 1), ('spec', 12, 1)], thorough=[('lifecycle', 120, 8), ('lifecyclebfs', 3000, 1), ('life', 150, 4), ('policy', 1000, 1), ('parse', 200, 2), ('spec', 40, 2)]),
        explanation='silent states and wire armour as theorems (Props.C03); Go oracle searches every wire output (raw, base64-decoded, reassembled fragments) for every text sent while encrypted / finished / under required encryption over lifecycle histories under random policy sets',
        assumptions=['secrecy of AES-CTR and of the DH-derived keys is assumed (ideal crypto)', 'noninterference of the other message fields is checked by the oracle, not proved']),
    'C01': dict(
        module='Props.C01', extra_modules=['Props.C01Recv'], level='proof',
        profiles=dict(quick=[('ake', 120, 1)], thorough=[('ake', 800, 8), ('life', 150, 4)]),
        explanation='decision-logic theorems over all states and byte strings (Props.C01: the only paths to the encrypted state, the complete list of checks a finishing step implies, the values reported afterwards); tied to ake.go/auth_state_machine.go by whole-handshake differential runs under an active attacker; Go oracle after every delivery: an encrypted conversation reports the key of a party that derived the same SSID; agreement, complementary halves, mutual readability',
        assumptions=['unforgeability of DSA, HMAC-SHA256 and collision resistance of SHA-256 for the cross-session / impersonation part (ideal crypto, DESIGN §6)', CRYPTO_ASSUME]),
    'C02': dict(
        module='Props.C02', extra_modules=['Props.C02Recv'], level='proof',
        profiles=dict(quick=[('reject', 80, 1), ('sched', 6, 1)], thorough=[('reject', 600, 8), ('life', 150, 4)]),
        explanation='guard theorem for every state and byte string (Props.C02: anything delivered or acted upon passed parse, key-window, MAC over exactly the received authenticated bytes, and counter checks; every failure case returns nothing and changes nothing); Go oracle injects mutated, truncated, forged and replayed data messages into live sessions at random ratchet positions',
        assumptions=['a MAC valid under an undisclosed key was produced by the peer (HMAC unforgeability, ideal crypto)', CRYPTO_ASSUME]),
    'C06': dict(
        module='Props.C06', extra_modules=['Props.C06Unbind'], level='proof',
        profiles=dict(quick=[('reject', 160, 1)], thorough=[('reject', 1000, 8), ('tags', 100, 2)]),
        explanation='exact final state of every rejection case of a data message, of foreign-instance and other-version messages (Props.C06: state unchanged, so every continuation is identical); for rejected AKE traffic the twin-run Go oracle runs the same genuine traffic with and without the rejected message and compares all plaintexts, errors, events and IsEncrypted values',
        assumptions=['behavioural equivalence of every continuation after rejected AKE messages is decided by the twin-run oracle; the theorems give the exact frame of what a rejected or ignored message may change', 'a rejected message that arrives as the final fragment of a stream keeps the version / peer instance the accepted fragments before it have bound (fragments are accepted, not rejected, when they arrive)']),
    'C11': dict(
        module='Props.C11', extra_modules=['Props.C11Conv'], level='proof',
        profiles=dict(quick=[('smp', 40, 1)], thorough=[('smp', 300, 8)]),
        explanation='algebraic theorems for all exponents and secrets (Props.C11: honest proofs verify, equal secrets succeed on both sides, different secrets fail on both sides given p, q prime); model tied to smp*.go by differential runs with real 1536-bit arithmetic; Go oracle over honest runs (secret pairs incl. empty/long/binary/one bit apart, question, either initiator, back to back, traffic in between, both versions) and a relay between two separately keyed sessions',
        assumptions=['Nat.Prime p and Nat.Prime q are hypotheses of c11_unequal_fail (no primality certificate available offline)', 'the honest proof exponents are non-zero (hypothesis of the success theorems: a 2^-1535 event in which the library, like libotr, rejects an honest message)', 'binding of the hashed secret to fingerprints and SSID relies on collision resistance of SHA-256']),
    'C12': dict(
        module='Props.C12', extra_modules=['Props.C12Recv', 'Props.C12Machine'], level='proof',
        profiles=dict(quick=[('smp', 40, 1), ('spec', 12, 1)], thorough=[('smp', 300, 8), ('parse', 200, 2), ('spec', 40, 2)]),
        explanation='success-event guard for every message and state, no-panic theorems after the group checks, state-machine invariant (Props.C12); Go oracle sends SMP messages authenticated by the genuine peer with one field replaced by a boundary value / perturbed / miscounted / truncated, plus user calls out of sequence, and requires no success, no panic, and a successful honest run afterwards; the SMP state machine as an explicit table over all states and TLVs, never-stuck and state-independence theorems (Props.C12Machine)',
        assumptions=['soundness of the zero-knowledge proofs against non-degenerate cheating is computational: covered by generated inputs only', 'known finding: OTRv2 accepts degenerate group elements (test-pinned)']),
    'C13': dict(
        module='Props.C13', extra_modules=['Props.C13Real', 'Props.C13RealApi'], level='proof',
        profiles=dict(quick=[('parse', 150, 1), ('life', 25, 1), ('keyfile', 150, 1), ('ake', 60, 1), ('smp', 40, 1), ('tags', 40, 1)], thorough=[('parse', 1500, 8), ('life', 300, 8), ('keyfile', 2000, 4), ('tags', 100, 2), ('frag', 40, 2), ('ake', 600, 4)]),
        explanation='total model with explicit panic outcomes; theorems: complete list of panic sites reachable from a data message, no panic under the session invariants, allocation bound of ExtractMPIs (Props.C13); Go harness runs every public parser and Receive in every conversation state on structured/mutated/raw input under recover with time and allocation measurement, a usability probe afterwards, and fails or shortens the k-th randomness read for every k',
        assumptions=['the key-file reader is run in a worker process so that a stack overflow or hang is observed rather than fatal', 'Go runtime behaviour (stack, GC) is observed, not modelled']),
    'C08': dict(
        module='Props.C08', level='proof',
        profiles=dict(quick=[('mem', 20, 1), ('parse', 20, 1)], thorough=[('mem', 150, 8), ('parse', 200, 2)]),
        explanation='model-level theorems (Props.C08: only two DH key slots plus the exchange in progress; exact reset of the AKE context on completion, of keys/SMP/AKE on End and peer disconnect); heap level: reflection scan of the object graph reachable from the real *Conversation after every API call for every secret drawn from Conversation.Rand and every text, with alias tracking to tell zeroed from dropped buffers',
        assumptions=['copies made and dropped inside a single call, registers, stack and GC relocation are not visible to the scan', 'known finding: SMP exponents dropped without zeroing (test-pinned)']),
    'C20': dict(
        module='Props.C20', level='other',
        profiles=dict(quick=[('conc', 6, 1), ('life', 15, 1), ('lifecycle', 8, 1)], thorough=[('conc', 24, 4), ('life', 150, 2), ('lifecycle', 60, 4)]),
        explanation='lemma in a model of Go slices (append on a len=cap slice never writes the shared backing array) + regenerated facts (no package-level variable written outside init; which package slices are append prefixes) + run-time check len=cap of those slices + N conversation pairs on goroutines under the race detector, each transcript compared with the same pair run alone; the Go memory model itself is not formalised, hence level other',
        assumptions=['data races are detected dynamically by the Go race detector on the schedules that occur', 'each pair uses its own copy of the long-term key object']),
    'C04': dict(
        module='Props.C04', level='proof',
        profiles=dict(quick=[('sched', 12, 1), ('schedx', 60, 1), ('frag', 2, 1)], thorough=[('sched', 80, 8), ('schedx', 4000, 1), ('frag', 40, 2)]),
        explanation='inductive invariant of the two-party system over ALL interleavings of sends and deliveries, any number in flight, any number of rotations (Props.C04: every delivery accepted, exactly once, in order, same keys on both sides, AES-CTR involution); tied to the code by whole-session differential runs; Go oracle: per-side expected-text queues over random long schedules (fragmentation, heartbeats, SMP, extra key, both versions) and exhaustive interleavings to a bounded depth',
        assumptions=['DH commutativity and pairwise distinct public keys (hypotheses of c04_key_agreement)', 'key ids < 2^32, counters < 2^64', 'texts without NUL (the guard of the property itself)']),
    'C10': dict(
        module='Props.C10', level='proof',
        profiles=dict(quick=[('spec', 12, 1), ('pure', 2000, 1), ('policy', 200, 1)], thorough=[('spec', 120, 8), ('sched', 20, 2), ('smp', 60, 2), ('policy', 500, 2), ('frag', 20, 2)]),
        explanation='conformance theorems: every serialiser, key derivation, MAC input, counter, key-id choice, TLV/padding layout, SMP payload, armour, header, query, whitespace tag and fragment of the model equals an independent Lean formalisation of the protocol document (Props.C10, 98 theorems); executable tie: a reference implementation built only on that formalisation is given the logged secrets of real sessions and must rebuild every emitted message byte for byte, re-derive ssid, fingerprints and extra key, read every delivery, and its own messages (using the freedoms the document leaves) must be accepted and read exactly by the library',
        assumptions=['the formalisation of the protocol document (Otr/Spec.lean) is itself read and trusted', 'SHA-256/HMAC output lengths are hypotheses of two theorems', 'the reference has no SMP engine: SMP payloads are checked for shape and hash inputs by theorem', 'known finding: SMP abort TLV carries a 4-byte value (test-pinned)']),
}

# properties not claimed yet (kept current; each is moved into PROPS when its check exists)
NOT_YET = {p: 'check under construction in this round (model exists; theorems/oracle not yet registered)' for p in
           ['C%02d' % i for i in range(1, 21)]}
