#!/bin/bash
# mutsweep.sh <seeded-name> <profile> <n> <seed...>: apply a seeded change, rebuild the harness, run the sweep, undo
name=$1; shift
git -C /repo apply /verif/seeded/$name/patch.diff || exit 2
/verif/tools/hb.sh && /verif/tools/sweep.sh "$@" 2>&1 | tail -$(( 2 * ($# - 2) ))
git -C /repo checkout -- . && /verif/tools/hb.sh
