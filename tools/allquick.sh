#!/bin/bash
# allquick.sh [ids...]: run the quick tier of every registered check sequentially, one summary line each
cd /verif
ids="$@"
[ -z "$ids" ] && ids=$(python3 -c "import json;print(' '.join(c['property_id'] if 'property_id' in c else c['id'] for c in json.load(open('MANIFEST.json'))['checks']))")
for id in $ids; do
  out=$(VERIF_TIER=${VERIF_TIER:-quick} ./check $id 2>&1); rc=$?
  echo "$id rc=$rc $(echo "$out" | grep -E '^(OK|VIOLATION|KNOWN-FINDING)' | tr '\n' ';' | cut -c1-300)"
done
