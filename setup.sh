#!/bin/bash
# Build the framework from files on disk only (offline): facts, Lean model + proofs + driver, Go harness.
set -e
cd "$(dirname "$0")"
export GOFLAGS=-mod=mod GOPROXY=off GOSUMDB=off GOTOOLCHAIN=local CGO_ENABLED=0
mkdir -p bin work evidence replays
(cd facts && go run . /repo ../lean/Otr/Generated/Facts.lean)
(cd lean && lake build Otr Proofs Props otrm)
cp /repo/go.sum harness/go.sum
(cd harness && go build -tags verif -o ../bin/otrh .)
echo setup-ok
