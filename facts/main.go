// facts — go/ast fact extractor: reads /repo's non-test sources on every run and writes
// lean/Otr/Generated/Facts.lean (constants, tables, call orders, writers of sensitive fields).
// Usage: facts <repo> <out.lean>
package main

import (
	"fmt"
	"go/ast"
	"go/parser"
	"go/printer"
	"go/token"
	"os"
	"path/filepath"
	"sort"
	"strconv"
	"strings"
)

var fset = token.NewFileSet()
var files []*ast.File

func evalInt(e ast.Expr, iota int, env map[string]int64) (int64, bool) {
	switch x := e.(type) {
	case *ast.BasicLit:
		if x.Kind == token.INT {
			v, err := strconv.ParseInt(x.Value, 0, 64)
			return v, err == nil
		}
		if x.Kind == token.CHAR {
			s, err := strconv.Unquote(x.Value)
			if err == nil && len(s) == 1 {
				return int64(s[0]), true
			}
		}
	case *ast.Ident:
		if x.Name == "iota" {
			return int64(iota), true
		}
		if v, ok := env[x.Name]; ok {
			return v, true
		}
	case *ast.ParenExpr:
		return evalInt(x.X, iota, env)
	case *ast.CallExpr: // conversions like byte(0x00), uint16(1), time.Duration(1)
		if len(x.Args) == 1 {
			return evalInt(x.Args[0], iota, env)
		}
	case *ast.SelectorExpr:
		s := exprStr(x)
		switch s {
		case "time.Second":
			return 1, true
		case "time.Minute":
			return 60, true
		case "sha1.Size":
			return 20, true
		case "sha256.Size":
			return 32, true
		case "aes.BlockSize":
			return 16, true
		}
	case *ast.BinaryExpr:
		a, ok1 := evalInt(x.X, iota, env)
		b, ok2 := evalInt(x.Y, iota, env)
		if ok1 && ok2 {
			switch x.Op {
			case token.SHL:
				return a << uint(b), true
			case token.MUL:
				return a * b, true
			case token.ADD:
				return a + b, true
			case token.SUB:
				return a - b, true
			case token.OR:
				return a | b, true
			}
		}
	}
	return 0, false
}

func exprStr(e ast.Expr) string {
	switch x := e.(type) {
	case *ast.Ident:
		return x.Name
	case *ast.SelectorExpr:
		return exprStr(x.X) + "." + x.Sel.Name
	case *ast.CallExpr:
		return exprStr(x.Fun) + "()"
	case *ast.StarExpr:
		return "*" + exprStr(x.X)
	case *ast.CompositeLit:
		return exprStr(x.Type) + "{}"
	case *ast.IndexExpr:
		return exprStr(x.X) + "[]"
	case *ast.ParenExpr:
		return exprStr(x.X)
	}
	return "?"
}

// []byte("...") or []byte{',', ...}
func evalBytes(e ast.Expr) ([]byte, bool) {
	switch x := e.(type) {
	case *ast.CallExpr:
		if at, ok := x.Fun.(*ast.ArrayType); ok && exprStr(at.Elt) == "byte" && len(x.Args) == 1 {
			if bl, ok := x.Args[0].(*ast.BasicLit); ok && bl.Kind == token.STRING {
				s, err := strconv.Unquote(bl.Value)
				return []byte(s), err == nil
			}
		}
	case *ast.CompositeLit:
		if at, ok := x.Type.(*ast.ArrayType); ok && exprStr(at.Elt) == "byte" {
			var out []byte
			for _, el := range x.Elts {
				v, ok := evalInt(el, 0, nil)
				if !ok {
					return nil, false
				}
				out = append(out, byte(v))
			}
			return out, true
		}
	}
	return nil, false
}

func leanBytes(b []byte) string {
	var s []string
	for _, c := range b {
		s = append(s, strconv.Itoa(int(c)))
	}
	return "[" + strings.Join(s, ", ") + "]"
}

func leanStrs(ss []string) string {
	var q []string
	for _, s := range ss {
		q = append(q, strconv.Quote(s))
	}
	return "[" + strings.Join(q, ", ") + "]"
}

func funcName(fd *ast.FuncDecl) string {
	if fd.Recv != nil && len(fd.Recv.List) > 0 {
		return strings.TrimPrefix(exprStr(fd.Recv.List[0].Type), "*") + "." + fd.Name.Name
	}
	return fd.Name.Name
}

// names of the functions/methods called, in source order
func callOrder(fd *ast.FuncDecl) []string {
	type pc struct {
		pos  token.Pos
		name string
	}
	var calls []pc
	ast.Inspect(fd.Body, func(n ast.Node) bool {
		if ce, ok := n.(*ast.CallExpr); ok {
			switch f := ce.Fun.(type) {
			case *ast.Ident:
				calls = append(calls, pc{ce.Pos(), f.Name})
			case *ast.SelectorExpr:
				calls = append(calls, pc{f.Sel.Pos(), f.Sel.Name})
			}
		}
		return true
	})
	sort.Slice(calls, func(i, j int) bool { return calls[i].pos < calls[j].pos })
	var out []string
	for _, c := range calls {
		out = append(out, c.name)
	}
	return out
}

// an identifier naming a package-level variable (not a local or parameter of fd shadowing it)
func isPkgVar(id *ast.Ident, fd *ast.FuncDecl, pkgVars map[string]bool) bool {
	if !pkgVars[id.Name] {
		return false
	}
	if id.Obj == nil {
		return true
	}
	p := id.Obj.Pos()
	return !(fd.Pos() <= p && p <= fd.End())
}

func main() {
	repo, outPath := os.Args[1], os.Args[2]
	matches, _ := filepath.Glob(filepath.Join(repo, "*.go"))
	sort.Strings(matches)
	for _, m := range matches {
		if strings.HasSuffix(m, "_test.go") || strings.HasSuffix(m, "verif_hooks.go") {
			continue
		}
		f, err := parser.ParseFile(fset, m, nil, 0)
		if err != nil {
			fmt.Fprintln(os.Stderr, "parse error:", err)
			os.Exit(1)
		}
		files = append(files, f)
	}

	ints := map[string]int64{}
	bytesV := map[string][]byte{}
	enums := map[string][]string{} // type name -> constant names in declaration order
	pkgVars := map[string]bool{}
	funcs := map[string]*ast.FuncDecl{}

	for _, f := range files {
		for _, d := range f.Decls {
			switch x := d.(type) {
			case *ast.GenDecl:
				if x.Tok == token.CONST {
					var lastExpr ast.Expr
					var lastType string
					for i, sp := range x.Specs {
						vs := sp.(*ast.ValueSpec)
						if len(vs.Values) > 0 {
							lastExpr = vs.Values[0]
							if vs.Type != nil {
								lastType = exprStr(vs.Type)
							} else {
								lastType = ""
							}
						}
						for _, nm := range vs.Names {
							if lastExpr != nil {
								if v, ok := evalInt(lastExpr, i, ints); ok {
									ints[nm.Name] = v
								}
							}
							if lastType != "" && nm.Name != "_" {
								enums[lastType] = append(enums[lastType], nm.Name)
							}
						}
					}
				}
				if x.Tok == token.VAR {
					for _, sp := range x.Specs {
						vs := sp.(*ast.ValueSpec)
						for i, nm := range vs.Names {
							pkgVars[nm.Name] = true
							if i < len(vs.Values) {
								// package-level variables whose initial value is produced by a call: the places
								// where mutable state shared by all conversations could live (hash instances,
								// buffers built by append/make, caches)
								if ce, ok := vs.Values[i].(*ast.CallExpr); ok {
									pkgVarsByCall = append(pkgVarsByCall, nm.Name+"="+exprName(ce.Fun))
								}
								if b, ok := evalBytes(vs.Values[i]); ok {
									bytesV[nm.Name] = b
								}
								if v, ok := evalInt(vs.Values[i], 0, ints); ok {
									ints[nm.Name] = v
								}
							}
						}
					}
				}
			case *ast.FuncDecl:
				if x.Body != nil {
					funcs[funcName(x)] = x
				}
			}
		}
	}

	var sb strings.Builder
	sb.WriteString("/- GENERATED by /verif/facts from /repo on every check run — do not edit. -/\nnamespace Otr.Facts\n\n")

	intNames := []string{"messageFlagNormal", "messageFlagIgnoreUnreadable", "messageHeaderPrefix", "msgTypeDHCommit", "msgTypeData",
		"msgTypeDHKey", "msgTypeRevealSig", "msgTypeSig", "revealSigRSize", "paddingGranularity", "tlvHeaderLen", "nulByteLen",
		"tlvTypePadding", "tlvTypeDisconnected", "tlvTypeSMP1", "tlvTypeSMP2", "tlvTypeSMP3", "tlvTypeSMP4", "tlvTypeSMPAbort",
		"tlvTypeSMP1WithQuestion", "tlvTypeExtraSymmetricKey", "otrv2HeaderLen", "otrv3HeaderLen", "minValidInstanceTag",
		"allowV2", "allowV3", "requireEncryption", "sendWhitespaceTag", "whitespaceStartAKE", "errorStartAKE",
		"resendInterval", "heartbeatInterval", "timeoutLength", "maxFragments", "smpVersion", "dsaKeyTypeValue"}
	for _, n := range intNames {
		v, ok := ints[n]
		if !ok {
			sb.WriteString(fmt.Sprintf("def %s : Option Nat := none\n", n))
		} else {
			sb.WriteString(fmt.Sprintf("def %s : Option Nat := some %d\n", n, v))
		}
	}
	byteNames := []string{"queryMarker", "errorMarker", "msgMarker", "otrv2FragmentationPrefix", "otrv3FragmentationPrefix",
		"defaultResentPrefix", "fragmentSeparator", "fragmentItagsSeparator", "dsaKeyType"}
	for _, n := range byteNames {
		if b, ok := bytesV[n]; ok {
			sb.WriteString(fmt.Sprintf("def %s : Option (List UInt8) := some %s\n", n, leanBytes(b)))
		} else {
			sb.WriteString(fmt.Sprintf("def %s : Option (List UInt8) := none\n", n))
		}
	}
	for _, t := range []string{"MessageEvent", "SecurityEvent", "SMPEvent", "ErrorCode", "messageTypeGuess", "msgState", "whitespaceState", "retransmitFlag", "policy"} {
		sb.WriteString(fmt.Sprintf("def enum_%s : List String := %s\n", t, leanStrs(enums[t])))
	}

	// p, q, g from dh.go init()
	if fd, ok := funcs["init"]; ok {
		ast.Inspect(fd.Body, func(n ast.Node) bool {
			as, ok := n.(*ast.AssignStmt)
			if !ok || len(as.Lhs) == 0 || len(as.Rhs) == 0 {
				return true
			}
			name := exprStr(as.Lhs[0])
			if ce, ok := as.Rhs[0].(*ast.CallExpr); ok && strings.HasSuffix(exprStr(ce.Fun), "SetString") && len(ce.Args) == 2 {
				var hex string
				var walk func(e ast.Expr)
				walk = func(e ast.Expr) {
					switch y := e.(type) {
					case *ast.BinaryExpr:
						walk(y.X)
						walk(y.Y)
					case *ast.BasicLit:
						s, _ := strconv.Unquote(y.Value)
						hex += s
					}
				}
				walk(ce.Args[0])
				base, _ := evalInt(ce.Args[1], 0, nil)
				if base == 16 && (name == "p" || name == "q") {
					sb.WriteString(fmt.Sprintf("def dh_%s : Nat := 0x%s\n", name, hex))
				}
			}
			if ce, ok := as.Rhs[0].(*ast.CallExpr); ok && exprStr(ce.Fun) == "big.NewInt" && name == "g1" {
				v, _ := evalInt(ce.Args[0], 0, nil)
				sb.WriteString(fmt.Sprintf("def dh_g : Nat := %d\n", v))
			}
			return true
		})
	}

	// guessMessageType: ordered (prefix, result) table
	if fd, ok := funcs["guessMessageType"]; ok {
		var rows []string
		ast.Inspect(fd.Body, func(n ast.Node) bool {
			cc, ok := n.(*ast.CaseClause)
			if !ok || len(cc.List) != 1 || len(cc.Body) != 1 {
				return true
			}
			ce, ok := cc.List[0].(*ast.CallExpr)
			if !ok || exprStr(ce.Fun) != "bytes.HasPrefix" {
				return true
			}
			b, ok := evalBytes(ce.Args[1])
			rs, ok2 := cc.Body[0].(*ast.ReturnStmt)
			if ok && ok2 {
				rows = append(rows, fmt.Sprintf("(%s, %s)", strconv.Quote(string(b)), strconv.Quote(exprStr(rs.Results[0]))))
			}
			return true
		})
		sb.WriteString("def guessTable : List (String × String) := [" + strings.Join(rows, ", ") + "]\n")
	}

	// per-version method constants
	for _, m := range []string{"parameterLength", "truncateLength", "hashLength", "hash2Length", "keyLength", "protocolVersion"} {
		for _, v := range []string{"otrV2", "otrV3"} {
			val := "none"
			if fd, ok := funcs[v+"."+m]; ok && len(fd.Body.List) == 1 {
				if rs, ok := fd.Body.List[0].(*ast.ReturnStmt); ok {
					if x, ok := evalInt(rs.Results[0], 0, ints); ok {
						val = fmt.Sprintf("some %d", x)
					}
				}
			}
			sb.WriteString(fmt.Sprintf("def %s_%s : Option Nat := %s\n", v, m, val))
		}
	}

	// call orders of security relevant functions
	for _, fn := range []string{"Conversation.processDataMessageWithRawErrors", "Conversation.processEncryptedSig", "Conversation.processRevealSig",
		"Conversation.processSig", "otrV3.verifyInstanceTags", "Conversation.akeHasFinished", "Conversation.genDataMsgWithFlag",
		"Conversation.receiveDecoded", "keyManagementContext.rotateOurKeys", "keyManagementContext.rotateTheirKey",
		"keyManagementContext.deriveDHSessionKeys", "Conversation.End", "Conversation.processDisconnectedTLV", "Conversation.receiveUnit"} {
		nm := "order_" + strings.ReplaceAll(fn, ".", "_")
		if fd, ok := funcs[fn]; ok {
			sb.WriteString(fmt.Sprintf("def %s : List String := %s\n", nm, leanStrs(callOrder(fd))))
		} else {
			sb.WriteString(fmt.Sprintf("def %s : List String := [\"<missing>\"]\n", nm))
		}
	}

	// source text of small decision functions (comments dropped, white space collapsed): the Lean counterparts of
	// these are one-liners that were written from, and compared against, exactly this text
	for _, fn := range []string{"otrV2.isGroupElement", "otrV3.isGroupElement", "isGroupElement", "isExponent", "policies.isOTREnabled", "policies.has",
		"keyManagementContext.checkMessageCounter", "ExtractMPIs", "Conversation.processTLVs", "decideFlagFrom", "extractDataMessageFlag",
		"lt", "lte", "gt", "gte", "Conversation.injectMessage", "Conversation.SetOurKeys", "defaultResendMessageTransform",
		"macKeyHistory.addKeys", "Conversation.rotateKeys", "Conversation.maybeHeartbeat"} {
		nm := "src_" + strings.ReplaceAll(fn, ".", "_")
		txt := "<missing>"
		if fd, ok := funcs[fn]; ok {
			var b strings.Builder
			_ = printer.Fprint(&b, fset, fd.Body)
			txt = strings.Join(strings.Fields(b.String()), " ")
		}
		sb.WriteString(fmt.Sprintf("def %s : String := %q\n", nm, txt))
	}

	// writers of sensitive conversation fields, and non-init writes to package-level variables
	fields := []string{"msgState", "theirInstanceTag", "ourInstanceTag", "version", "theirKey", "ssid", "sentRevealSig", "whitespaceState"}
	writers := map[string]map[string]bool{}
	pkgWrites := map[string]bool{}
	appendPrefixes := map[string]bool{}
	names := []string{}
	for n := range funcs {
		names = append(names, n)
	}
	sort.Strings(names)
	for _, fn := range names {
		fd := funcs[fn]
		ast.Inspect(fd.Body, func(n ast.Node) bool {
			switch x := n.(type) {
			case *ast.AssignStmt:
				for _, l := range x.Lhs {
					if se, ok := l.(*ast.SelectorExpr); ok {
						for _, f := range fields {
							if se.Sel.Name == f {
								if writers[f] == nil {
									writers[f] = map[string]bool{}
								}
								writers[f][fn] = true
							}
						}
					}
					root := l
					for {
						switch y := root.(type) {
						case *ast.IndexExpr:
							root = y.X
							continue
						case *ast.SelectorExpr:
							root = y.X
							continue
						case *ast.StarExpr:
							root = y.X
							continue
						}
						break
					}
					if id, ok := root.(*ast.Ident); ok && isPkgVar(id, fd, pkgVars) {
						if fn != "init" && fn != "initTLVHandlers" {
							pkgWrites[fn+":"+id.Name] = true
						}
					}
				}
			case *ast.CallExpr:
				if id, ok := x.Fun.(*ast.Ident); ok && id.Name == "append" && len(x.Args) > 0 {
					if a, ok := x.Args[0].(*ast.Ident); ok && isPkgVar(a, fd, pkgVars) {
						appendPrefixes[a.Name] = true
					}
				}
			}
			return true
		})
	}
	for _, f := range fields {
		var ws []string
		for w := range writers[f] {
			ws = append(ws, w)
		}
		sort.Strings(ws)
		sb.WriteString(fmt.Sprintf("def writers_%s : List String := %s\n", f, leanStrs(ws)))
	}
	var pw, ap []string
	for w := range pkgWrites {
		pw = append(pw, w)
	}
	for a := range appendPrefixes {
		ap = append(ap, a)
	}
	sort.Strings(pw)
	sort.Strings(ap)
	sb.WriteString("def pkgVarWritesOutsideInit : List String := " + leanStrs(pw) + "\n")
	sb.WriteString("def pkgSlicesUsedAsAppendPrefix : List String := " + leanStrs(ap) + "\n")
	// sub-packages (sexp): every package-level variable at all - there is no reason for any state there
	subMatches, _ := filepath.Glob(filepath.Join(repo, "*", "*.go"))
	sort.Strings(subMatches)
	var subVars []string
	for _, m := range subMatches {
		if strings.HasSuffix(m, "_test.go") || strings.Contains(m, "/compat/") || strings.Contains(m, "/.git/") {
			continue
		}
		f, err := parser.ParseFile(fset, m, nil, 0)
		if err != nil {
			continue
		}
		for _, d := range f.Decls {
			if gd, ok := d.(*ast.GenDecl); ok && gd.Tok == token.VAR {
				for _, sp := range gd.Specs {
					vs := sp.(*ast.ValueSpec)
					for i, nm := range vs.Names {
						init := "-"
						if i < len(vs.Values) {
							if ce, ok := vs.Values[i].(*ast.CallExpr); ok {
								init = exprName(ce.Fun)
							} else {
								init = "literal"
							}
						}
						subVars = append(subVars, f.Name.Name+"."+nm.Name+"="+init)
					}
				}
			}
		}
	}
	sort.Strings(subVars)
	sb.WriteString("def subPackageVars : List String := " + leanStrs(subVars) + "\n")
	sort.Strings(pkgVarsByCall)
	sb.WriteString("def pkgVarsInitialisedByCall : List String := " + leanStrs(pkgVarsByCall) + "\n")

	// AKE / SMP transition skeletons: state constructors mentioned in return statements of each handler
	for _, pfx := range []string{"authState", "smpState"} {
		var rows []string
		for _, fn := range names {
			if !strings.HasPrefix(fn, pfx) || !strings.Contains(fn, ".receive") {
				continue
			}
			set := map[string]bool{}
			ast.Inspect(funcs[fn].Body, func(n ast.Node) bool {
				if rs, ok := n.(*ast.ReturnStmt); ok && len(rs.Results) > 0 {
					s := exprStr(rs.Results[0])
					set[s] = true
				}
				return true
			})
			var ss []string
			for s := range set {
				ss = append(ss, s)
			}
			sort.Strings(ss)
			rows = append(rows, fmt.Sprintf("(%s, %s)", strconv.Quote(fn), leanStrs(ss)))
		}
		sb.WriteString(fmt.Sprintf("def transitions_%s : List (String × List String) := [%s]\n", pfx, strings.Join(rows, ",\n  ")))
	}

	sb.WriteString("\nend Otr.Facts\n")
	os.MkdirAll(filepath.Dir(outPath), 0755)
	os.Remove(outPath)
	if err := os.WriteFile(outPath, []byte(sb.String()), 0644); err != nil {
		panic(err)
	}
}

var pkgVarsByCall []string

// a short rendering of the function part of a call expression
func exprName(e ast.Expr) string {
	switch x := e.(type) {
	case *ast.Ident:
		return x.Name
	case *ast.SelectorExpr:
		return exprName(x.X) + "." + x.Sel.Name
	case *ast.CallExpr:
		return exprName(x.Fun) + "()"
	case *ast.ArrayType:
		return "[]" + exprName(x.Elt)
	case *ast.ParenExpr:
		return exprName(x.X)
	case *ast.StarExpr:
		return "*" + exprName(x.X)
	case *ast.FuncLit:
		return "func"
	}
	return "?"
}
