module verif/facts

go 1.23.0
